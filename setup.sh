#!/bin/bash
# Offline setup: make sure hypothesis is importable by /venv's python.
/venv/bin/python -c "import hypothesis" 2>/dev/null || \
  /venv/bin/pip install --no-index --find-links /opt/veriftools/wheels hypothesis || exit 1
/venv/bin/python -c "import hypothesis, numpy, pandas; print('setup ok', hypothesis.__version__)"
