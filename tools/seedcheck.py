#!/usr/bin/env python3
"""Confirm a seeded change and run the registered checks against it.

    tools/seedcheck.py verify <srcdir> <ID>      # srcdir holds patch.diff demo.py meta.json
    tools/seedcheck.py run <ID> [checkID ...]    # uses /verif/seeded/<ID>/patch.diff on /repo itself

verify: in a fresh scratch worktree of /repo HEAD (under /tmp, removed afterwards)
        demo must exit 0 clean and non-zero with the patch; on success the three
        files are copied to /verif/seeded/<ID>/ and meta.json gets a "confirmed" block.
run:    `git -C /repo apply` the patch, run `./check <checkID> quick` (default: the
        property itself) with VERIF_NO_EVIDENCE=1, then `git -C /repo checkout -- .`;
        result appended to seeded/<ID>/meta.json under "checks".
"""
import json
import os
import shutil
import subprocess
import sys
import time

HERE = os.path.dirname(os.path.dirname(os.path.abspath(__file__)))
PY = "/venv/bin/python"


def sh(cmd, **kw):
    return subprocess.run(cmd, shell=isinstance(cmd, str), capture_output=True, text=True, **kw)


def demo(wt, path):
    env = dict(os.environ)
    env.update(
        PYTHONPATH=f"{wt}:{HERE}/shim",
        DASK_DATAFRAME__CONVERT_STRING="False",
        PYTHONHASHSEED="0",
    )
    try:
        r = subprocess.run([PY, "-W", "ignore", path], cwd=wt, env=env, capture_output=True, text=True, timeout=300)
        tail = (r.stdout + r.stderr).strip().splitlines()[-1:] or [""]
        return r.returncode, tail[0][:300]
    except subprocess.TimeoutExpired:
        return 124, "timeout 300s"


def verify(src, pid):
    wt = f"/tmp/sv-{pid}-{os.getpid()}"
    r = sh(["git", "-C", "/repo", "worktree", "add", "--detach", wt, "HEAD"])
    if r.returncode:
        sys.exit(r.stderr)
    try:
        dpath = os.path.join(wt, "_demo.py")
        shutil.copy(os.path.join(src, "demo.py"), dpath)
        c_rc, c_out = demo(wt, dpath)
        a = sh(["git", "-C", wt, "apply", os.path.abspath(os.path.join(src, "patch.diff"))])
        if a.returncode:
            print(f"{pid}: patch does not apply: {a.stderr.strip()[:300]}")
            return 1
        m_rc, m_out = demo(wt, dpath)
        stat = sh(["git", "-C", wt, "diff", "--stat"]).stdout.strip().splitlines()[-1:]
        ok = c_rc == 0 and m_rc != 0 and m_rc != 124
        print(f"{pid}: clean rc={c_rc} [{c_out}] mutated rc={m_rc} [{m_out}] {'CONFIRMED' if ok else 'REJECTED'}")
        if not ok:
            return 1
        dst = os.path.join(HERE, "seeded", pid)
        os.makedirs(dst, exist_ok=True)
        for f in ("patch.diff", "demo.py"):
            shutil.copy(os.path.join(src, f), os.path.join(dst, f))
        try:
            meta = json.load(open(os.path.join(src, "meta.json")))
        except Exception:  # noqa: BLE001
            meta = {"property": pid}
        meta["property"] = pid
        meta["confirmed"] = {
            "how": "fresh scratch worktree of /repo HEAD under /tmp; demo.py run clean, then after `git apply patch.diff`; worktree removed",
            "repo_head": sh(["git", "-C", "/repo", "rev-parse", "--short", "HEAD"]).stdout.strip(),
            "demo_clean": {"exit": c_rc, "last_line": c_out},
            "demo_patched": {"exit": m_rc, "last_line": m_out},
            "diffstat": stat[0] if stat else "",
        }
        json.dump(meta, open(os.path.join(dst, "meta.json"), "w"), indent=1)
        return 0
    finally:
        sh(["git", "-C", "/repo", "worktree", "remove", "--force", wt])


def run(pid, checks):
    dst = os.path.join(HERE, "seeded", pid)
    patch = os.path.join(dst, "patch.diff")
    if sh(["git", "-C", "/repo", "status", "--porcelain", "--untracked-files=no"]).stdout.strip():
        sys.exit("/repo working tree is not clean")
    a = sh(["git", "-C", "/repo", "apply", patch])
    if a.returncode:
        sys.exit(f"{pid}: patch does not apply to /repo: {a.stderr}")
    results = {}
    try:
        for cid in checks:
            env = dict(os.environ, VERIF_NO_EVIDENCE="1")
            t0 = time.time()
            r = subprocess.run([os.path.join(HERE, "check"), cid, "quick"], env=env, capture_output=True, text=True)
            lines = [l for l in r.stdout.splitlines() if l.startswith(("VIOLATION", "---", "HARNESS"))]
            results[cid] = {
                "exit": r.returncode,
                "caught": r.returncode == 1,
                "seconds": round(time.time() - t0),
                "first_lines": [l[:400] for l in lines[:3]],
            }
            print(f"seeded {pid} vs check {cid}: exit={r.returncode} {'CAUGHT' if r.returncode == 1 else 'MISSED' if r.returncode == 0 else 'HARNESS-ERROR'} ({results[cid]['seconds']}s)")
            for l in lines[:3]:
                print("    " + l[:300])
            if r.returncode not in (0, 1):
                print(r.stdout[-1500:], r.stderr[-1500:])
    finally:
        sh(["git", "-C", "/repo", "checkout", "--", "."])
    mp = os.path.join(dst, "meta.json")
    meta = json.load(open(mp))
    meta.setdefault("checks", {}).update(results)
    meta["checks_how"] = "git -C /repo apply seeded/<ID>/patch.diff; ./check <ID> quick (VERIF_SEED=1, VERIF_NO_EVIDENCE=1); git -C /repo checkout -- ."
    json.dump(meta, open(mp, "w"), indent=1)
    return 0


if __name__ == "__main__":
    if sys.argv[1] == "verify":
        sys.exit(verify(sys.argv[2], sys.argv[3]))
    elif sys.argv[1] == "run":
        sys.exit(run(sys.argv[2], sys.argv[3:] or [sys.argv[2]]))
