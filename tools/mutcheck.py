#!/usr/bin/env python3
"""Sensitivity testing: apply a patch to a scratch copy of /repo/dask and run
checks against it.  Usage:

    tools/mutcheck.py <patch.diff> <ID> [<ID> ...] [--tier quick] [--seed N]

Exit 0 if every listed check reports a VIOLATION (exit 1) on the patched copy.
The scratch copy lives under /var/tmp and is removed afterwards.
"""
import os
import shutil
import subprocess
import sys
import tempfile

HERE = os.path.dirname(os.path.dirname(os.path.abspath(__file__)))


def main():
    args = sys.argv[1:]
    tier = "quick"
    seed = "1"
    if "--tier" in args:
        i = args.index("--tier")
        tier = args[i + 1]
        del args[i : i + 2]
    if "--seed" in args:
        i = args.index("--seed")
        seed = args[i + 1]
        del args[i : i + 2]
    patch, ids = args[0], args[1:]
    tmp = tempfile.mkdtemp(prefix="vp-mut-", dir="/var/tmp")
    ok = True
    try:
        shutil.copytree("/repo/dask", os.path.join(tmp, "dask"))
        r = subprocess.run(["patch", "-p1", "-s", "-i", os.path.abspath(patch)], cwd=tmp, capture_output=True, text=True)
        if r.returncode != 0:
            print("PATCH FAILED", r.stdout, r.stderr)
            return 2
        for pid in ids:
            env = dict(os.environ, VERIF_REPO=tmp, VERIF_SEED=seed, VERIF_NO_EVIDENCE="1")
            r = subprocess.run([os.path.join(HERE, "check"), pid, tier], env=env, capture_output=True, text=True, cwd=HERE)
            viol = [l for l in r.stdout.splitlines() if l.startswith("VIOLATION")]
            detail = [l for l in r.stdout.splitlines() if l.startswith("---")]
            status = "DETECTED" if r.returncode == 1 and viol else f"MISSED(exit={r.returncode})"
            print(f"{os.path.basename(patch)} {pid}: {status} {detail[:2]}")
            if r.returncode == 2:
                print(r.stdout[-1500:], r.stderr[-1500:])
            if status != "DETECTED":
                ok = False
    finally:
        shutil.rmtree(tmp, ignore_errors=True)
    return 0 if ok else 1


if __name__ == "__main__":
    sys.exit(main())
