#!/usr/bin/env python3
"""tools/markfixed.py <ID> <finding-id> <commit>: turn an open finding into a fixed one
(status fixed, commit recorded, replay renamed open-* -> fixed-*, what prefixed)."""
import json
import os
import sys

HERE = os.path.dirname(os.path.dirname(os.path.abspath(__file__)))
pid, fid, sha = sys.argv[1:4]
path = os.path.join(HERE, "findings", f"{pid}.json")
items = json.load(open(path))
hit = False
for it in items:
    if it["id"] == fid:
        hit = True
        it["status"] = "fixed"
        it["commit"] = sha
        if not it["what"].startswith("fixed:"):
            it["what"] = f"fixed: property={pid} " + it["what"]
        rp = it.get("replay")
        if rp and os.path.basename(rp).startswith("open-"):
            new = os.path.join(os.path.dirname(rp), "fixed-" + os.path.basename(rp)[5:])
            if os.path.exists(os.path.join(HERE, rp)):
                os.rename(os.path.join(HERE, rp), os.path.join(HERE, new))
            it["replay"] = new
if not hit:
    sys.exit(f"no finding {fid} in {path}")
json.dump(items, open(path, "w"), indent=1)
print("ok", fid)
