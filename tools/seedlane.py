#!/usr/bin/env python3
"""Second-round seeded changes: confirm and run a check in a private lane (scratch worktree of /repo HEAD).

    tools/seedlane.py <lane> <srcdir> <seedID> <checkID> [seed ...]

<lane> is a scratch git worktree of /repo (outside /repo and /verif, created by the caller and removed by
the caller when the lane is finished).  Steps, all inside the lane:
  1. demo.py on the clean lane must exit 0; `git apply patch.diff`; demo.py must exit non-zero (not a timeout)
  2. with the patch still applied: `VERIF_REPO=<lane> ./check <checkID> quick` (VERIF_NO_EVIDENCE=1) for each seed
  3. `git checkout -- .` in the lane
Files are copied to /verif/seeded/<seedID>/ and meta.json records what was run.  Several lanes run in
parallel (the one-at-a-time variant that patches /repo itself is tools/seedcheck.py).
"""
import json
import os
import shutil
import subprocess
import sys
import time

HERE = os.path.dirname(os.path.dirname(os.path.abspath(__file__)))
PY = "/venv/bin/python"


def sh(cmd, **kw):
    return subprocess.run(cmd, capture_output=True, text=True, **kw)


def demo(wt, path):
    env = dict(os.environ, PYTHONPATH=f"{wt}:{HERE}/shim", DASK_DATAFRAME__CONVERT_STRING="False", PYTHONHASHSEED="0")
    try:
        r = subprocess.run([PY, "-W", "ignore", path], cwd=wt, env=env, capture_output=True, text=True, timeout=400)
        tail = (r.stdout + r.stderr).strip().splitlines()[-1:] or [""]
        return r.returncode, tail[0][:300]
    except subprocess.TimeoutExpired:
        return 124, "timeout"


def main(lane, src, sid, cid, seeds):
    sh(["git", "-C", lane, "checkout", "--", "."])
    dpath = os.path.join(lane, "_demo.py")
    shutil.copy(os.path.join(src, "demo.py"), dpath)
    try:
        c_rc, c_out = demo(lane, dpath)
        a = sh(["git", "-C", lane, "apply", os.path.abspath(os.path.join(src, "patch.diff"))])
        if a.returncode:
            print(f"{sid}: patch does not apply: {a.stderr.strip()[:300]}")
            return 1
        m_rc, m_out = demo(lane, dpath)
        stat = sh(["git", "-C", lane, "diff", "--stat"]).stdout.strip().splitlines()[-1:]
        ok = c_rc == 0 and m_rc not in (0, 124)
        print(f"{sid}: clean rc={c_rc} [{c_out}] patched rc={m_rc} [{m_out}] {'CONFIRMED' if ok else 'REJECTED'}", flush=True)
        if not ok:
            return 1
        dst = os.path.join(HERE, "seeded", sid)
        os.makedirs(dst, exist_ok=True)
        for f in ("patch.diff", "demo.py"):
            shutil.copy(os.path.join(src, f), os.path.join(dst, f))
        try:
            meta = json.load(open(os.path.join(src, "meta.json")))
        except Exception:  # noqa: BLE001
            meta = {}
        meta["property"] = cid
        meta["round"] = 2
        meta["confirmed"] = {
            "how": "scratch worktree of /repo HEAD under /tmp (a lane); demo.py run clean, then after `git apply patch.diff`",
            "repo_head": sh(["git", "-C", lane, "rev-parse", "--short", "HEAD"]).stdout.strip(),
            "demo_clean": {"exit": c_rc, "last_line": c_out},
            "demo_patched": {"exit": m_rc, "last_line": m_out},
            "diffstat": stat[0] if stat else "",
        }
        results = {}
        for seed in seeds:
            env = dict(os.environ, VERIF_NO_EVIDENCE="1", VERIF_REPO=lane, VERIF_SEED=str(seed))
            t0 = time.time()
            r = subprocess.run([os.path.join(HERE, "check"), cid, "quick"], env=env, capture_output=True, text=True)
            lines = [l for l in r.stdout.splitlines() if l.startswith(("VIOLATION", "---", "HARNESS"))]
            results[f"{cid}@seed{seed}"] = {
                "exit": r.returncode,
                "caught": r.returncode == 1,
                "seconds": round(time.time() - t0),
                "first_lines": [l[:400] for l in lines[:3]],
            }
            verdict = "CAUGHT" if r.returncode == 1 else "MISSED" if r.returncode == 0 else "HARNESS-ERROR"
            print(f"seeded {sid} vs check {cid} seed {seed}: exit={r.returncode} {verdict} ({results[f'{cid}@seed{seed}']['seconds']}s)", flush=True)
            for l in lines[:2]:
                print("    " + l[:300])
            if r.returncode not in (0, 1):
                print(r.stdout[-1500:], r.stderr[-1500:])
            if r.returncode == 1:
                break
        meta.setdefault("checks", {}).update(results)
        meta["checks_how"] = "in a scratch worktree of /repo HEAD with the patch applied: VERIF_REPO=<worktree> ./check <ID> quick (VERIF_NO_EVIDENCE=1); worktree reverted afterwards"
        json.dump(meta, open(os.path.join(dst, "meta.json"), "w"), indent=1)
        return 0
    finally:
        sh(["git", "-C", lane, "checkout", "--", "."])
        try:
            os.remove(dpath)
        except OSError:
            pass


if __name__ == "__main__":
    sys.exit(main(sys.argv[1], sys.argv[2], sys.argv[3], sys.argv[4], sys.argv[5:] or ["1"]))
