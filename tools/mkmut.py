#!/usr/bin/env python3
"""Create a mutant diff without touching /repo.

    tools/mkmut.py <ID> <name> <relpath e.g. dask/local.py> <old> <new> [count]

Writes mutants/<ID>/<name>.diff (a/… b/… paths, applies with patch -p1)."""
import difflib
import os
import sys

HERE = os.path.dirname(os.path.dirname(os.path.abspath(__file__)))
pid, name, rel, old, new = sys.argv[1:6]
src = open(os.path.join("/repo", rel)).read()
if old not in src:
    sys.exit(f"pattern not found in {rel}")
dst = src.replace(old, new, 1)
diff = "".join(difflib.unified_diff(src.splitlines(True), dst.splitlines(True), "a/" + rel, "b/" + rel))
os.makedirs(os.path.join(HERE, "mutants", pid), exist_ok=True)
out = os.path.join(HERE, "mutants", pid, name + ".diff")
open(out, "w").write(diff)
print(out)
