"""Shared scheduler exploration engine for C01-C05/C52.

``execute(spec, request, sched, opts)`` builds the live graph from the spec,
runs one scheduler call under the described schedule and returns an Outcome
with everything the property predicates need: the returned value or raised
exception, the callback trace with snapshots of the live scheduler state, and
the execution log of the term functions.
"""
from __future__ import annotations

import concurrent.futures as cf
import threading

from vf import graphs
from vf.graphs import RUNTIME, Build, RefEval, flat_request
from vf.sched import Deadlock, controlled


class Outcome:
    def __init__(self):
        self.value = None
        self.raised = None
        self.events = []  # (kind, key, cache_keys, released, extra)
        self.log = []
        self.deadlock = False
        self.trace = []
        self.max_inflight = 0
        self.out_of_order = False
        self.final_cache = None
        self.final_released = None
        self.finish_calls = []
        self.start_calls = 0
        self.start_state_calls = 0


_tpools = {}
_tpool_lock = threading.Lock()


def thread_pool(n):
    with _tpool_lock:
        if n not in _tpools:
            _tpools[n] = cf.ThreadPoolExecutor(n)
        return _tpools[n]


_ppools = {}


def process_pool(n):
    """Long-lived spawn pool owned by the harness (never fork: the parent has threads)."""
    import multiprocessing as mp

    if n not in _ppools:
        _ppools[n] = cf.ProcessPoolExecutor(n, mp_context=mp.get_context("spawn"))
    return _ppools[n]


def shutdown_pools(wait=False):
    for p in list(_ppools.values()):
        procs = list(getattr(p, "_processes", {}).values()) if wait else []
        p.shutdown(wait=wait, cancel_futures=True)
        for pr in procs:  # (wait=True: make sure no worker outlives the caller)
            pr.join(timeout=10)
            if pr.is_alive():
                pr.kill()
    _ppools.clear()


def make_callbacks(out: Outcome, snapshot=True):
    def snap(state):
        if not snapshot or not state:
            return None, None
        return frozenset(state["cache"]), frozenset(state["released"])

    def start(dsk):
        out.start_calls += 1
        out.events.append(("start", None, None, None, None))

    def start_state(dsk, state):
        out.start_state_calls += 1
        c, r = snap(state)
        out.events.append(("start_state", None, c, r, None))

    def pretask(key, dsk, state):
        c, r = snap(state)
        out.events.append(("pretask", key, c, r, None))

    def posttask(key, result, dsk, state, worker_id):
        c, r = snap(state)
        out.events.append(("posttask", key, c, r, None))

    def finish(dsk, state, failed):
        c, r = snap(state)
        out.finish_calls.append(failed)
        out.events.append(("finish", None, c, r, failed))

    return (start, start_state, pretask, posttask, finish)


def execute(spec, request, sched, opts=None, extra_callbacks=None, get_kwargs=None, global_callbacks=False):
    """Run one scheduler call.  Never raises for scheduler failures: they are
    recorded in the Outcome."""
    import dask.local as local

    opts = dict(opts or {})
    out = Outcome()
    kind = sched["kind"]
    inproc = kind in ("sync", "controlled", "threads", "tpe")
    RUNTIME.reset()  # new run id: stragglers of earlier runs on real pools are filtered out
    runid = RUNTIME.runid
    b = Build(spec, opts)
    dsk = b.graph()
    keys = b.keys(request)
    cbs = make_callbacks(out)
    kwargs = dict(get_kwargs or {})
    if not global_callbacks:
        kwargs["callbacks"] = [cbs] + list(extra_callbacks or [])
    if "rerun" in sched:
        kwargs["rerun_exceptions_locally"] = sched["rerun"]
    RUNTIME.enabled = inproc
    try:
        if kind == "sync":
            out.value = local.get_sync(dsk, keys, **kwargs)
        elif kind == "controlled":
            with controlled(sched.get("choices") or ()) as ex:
                try:
                    out.value = local.get_async(
                        ex.submit, sched["workers"], dsk, keys, chunksize=sched.get("chunksize") or None, **kwargs
                    )
                finally:
                    out.trace = list(ex.trace)
                    out.max_inflight = ex.max_inflight
                    out.out_of_order = ex.out_of_order
        elif kind == "threads":
            import dask.threaded

            out.value = dask.threaded.get(dsk, keys, num_workers=sched["workers"], chunksize=sched.get("chunksize") or None, **kwargs)
        elif kind == "tpe":
            import dask.threaded

            out.value = dask.threaded.get(dsk, keys, pool=thread_pool(sched["workers"]), chunksize=sched.get("chunksize") or None, **kwargs)
        elif kind == "processes":
            import dask.multiprocessing

            out.value = dask.multiprocessing.get(
                dsk,
                keys,
                pool=process_pool(sched["workers"]),
                chunksize=sched.get("chunksize") or None,
                optimize_graph=sched.get("optimize_graph", True),
                **kwargs,
            )
        else:
            raise ValueError(kind)
    except Deadlock as e:
        out.deadlock = True
        out.raised = e
    except BaseException as e:  # noqa: BLE001 - recorded, judged by the predicates
        if isinstance(e, KeyboardInterrupt) and not _is_injected(e):
            raise
        out.raised = e
    finally:
        with RUNTIME.lock:
            out.log = [e[:4] for e in RUNTIME.log if e[4] == runid]
    return out


def _is_injected(e):
    try:
        return "injected" in str(e)[:300]
    except Exception:  # noqa: BLE001
        return False


# --------------------------------------------------------------------------
# predicates


def executed_counts(out):
    c = {}
    for ev, node, tick, _ in out.log:
        if ev == "start":
            c[node] = c.get(node, 0) + 1
    return c


def callable_ancestors(spec, ref, i):
    """Callable nodes that must have finished before node i starts: direct refs,
    looking through non-callable nodes (alias / list / data)."""
    out = set()
    stack = list(ref.refs(i))
    seen = set()
    while stack:
        j = stack.pop()
        if j in seen:
            continue
        seen.add(j)
        if graphs.is_callable_node(spec["nodes"][j]["body"]):
            out.add(j)
        else:
            stack.extend(ref.refs(j))
    return out
