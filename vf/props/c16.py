"""C16 — graph manipulation keeps values and changes only keys and ordering."""
from __future__ import annotations

import threading

import numpy as np
from hypothesis import strategies as st

from vf.core import Reject, Sub, Violation, ensure, impl, short

PROPERTY = "C16"
LEVEL = "exploration"
PRELOAD = ["dask.array", "dask.bag", "dask.dataframe"]
RULE = (
    "collections (dask arrays built from blockwise ops and reductions, bags, delayed trees, dataframes) whose chunk "
    "functions log (tag, logical time) when they run; clone(collections, omit=, seed=), bind(children, "
    "parents, omit=, seed=, split_every=) (default assume_layers=True; the key-level variant is not explored), wait_on(*collections, split_every=), checkpoint(*collections, "
    "split_every=) with random omit / parent sets, seeds, split_every in {None, 2, 3, False}; computed on sync and threads, "
    "optimize_graph on/off. Oracle: values unchanged; clone: output keys disjoint from the originals' keys (except for "
    "collections in omit, which keep theirs), same seed => same keys, other seed => other keys; bind / wait_on: every "
    "logged child (downstream) event has a larger logical time than every parent event and all parent chunks ran; "
    "checkpoint computes to None and all input chunks ran before. Non-trivial: parents with >= 2 chunks and a child sharing "
    "a sub-graph with a parent, or a non-empty omit (for bind also: omit = an ancestor of the child unrelated to the parents, "
    "with a layer in between that depends on nothing but the omitted collection)."
)
ASSUMPTIONS = ["execution order is observed through the chunk functions themselves (logical clock under a lock)"]
TECHNIQUE = "Hypothesis-generated collections with logging chunk functions; invariants over execution logs and key sets (metamorphic: manipulation keeps values)"

LOG = []
_lock = threading.Lock()
_tick = [0]


class Tag:
    """Identity-like chunk function that logs when it runs."""

    def __init__(self, tag, add=0):
        self.tag = tag
        self.add = add
        self.__name__ = f"tag_{tag}"  # a clean function name for layer / key names

    def __call__(self, x):
        with _lock:
            _tick[0] += 1
            LOG.append((self.tag, _tick[0]))
        if self.add:
            return x + self.add
        return x

    def __dask_tokenize__(self):
        return ("Tag", self.tag, self.add)


def reset_log():
    with _lock:
        LOG.clear()
        _tick[0] = 0


def make(cs, tag):
    """-> (collection, number of logging tasks it runs, base collection it is built on)"""
    k = cs["kind"]
    if k == "array":
        import dask.array as da

        x = np.arange(cs["n"] * 2).reshape(cs["n"], 2) + cs["v"]
        base = da.from_array(x, chunks=(cs["c"], 2))
        c = base.map_blocks(Tag(tag, 1), dtype=x.dtype)
        if cs.get("reduce"):
            c = c.sum(axis=0, split_every=2)
        return c, len(base.chunks[0])
    if k == "bag":
        import dask.bag as db

        base = db.from_sequence(list(range(cs["v"], cs["v"] + cs["n"])), npartitions=cs["c"])
        return base.map_partitions(BagTag(tag)), base.npartitions
    if k == "delayed":
        from dask import delayed

        leaves = [delayed(Tag(tag, 1))(cs["v"] + i) for i in range(cs["c"])]
        return delayed(sum)(leaves), cs["c"]
    if k == "frame":
        import dask.dataframe as dd
        import pandas as pd

        pdf = pd.DataFrame({"a": np.arange(cs["n"]) + cs["v"]})
        ddf = dd.from_pandas(pdf, npartitions=cs["c"])
        return ddf.map_partitions(Tag(tag), meta=pdf.iloc[:0]), ddf.npartitions
    raise ValueError(k)


class BagTag(Tag):
    def __call__(self, part):
        part = list(part)
        with _lock:
            _tick[0] += 1
            LOG.append((self.tag, _tick[0]))
        return [x + 1 for x in part]


def keys_of(c):
    from dask.core import flatten

    return set(flatten(c.__dask_keys__()))


def val(x):
    import pandas as pd

    if isinstance(x, (pd.DataFrame, pd.Series)):
        return ("pd", x.to_dict())
    if isinstance(x, np.ndarray) or isinstance(x, np.generic):
        return ("np", np.asarray(x).tolist())
    return x


def compute(c, case):
    import dask

    return dask.compute(c, scheduler=case.get("scheduler", "sync"), optimize_graph=case.get("optimize_graph", True))[0]


def downstream(c, tag):
    """an op consuming every chunk of c and logging under `tag`"""
    tn = type(c).__name__
    if tn == "Array":
        return c.map_blocks(Tag(tag), dtype=c.dtype)
    if tn == "Bag":
        return c.map_partitions(BagTag(tag))
    if tn == "Delayed":
        from dask import delayed

        return delayed(Tag(tag))(c)
    return c.map_partitions(Tag(tag), meta=c._meta)


def check(case):
    import dask
    from dask.graph_manipulation import bind, checkpoint, clone, wait_on

    op = case["op"]
    has_frame = any(cs["kind"] == "frame" for cs in case["colls"])
    sig = dict(op=op, frame=has_frame)
    if op == "clone":
        sig.update(assume_layers=case.get("assume_layers", True), omit=(case["target"] % len(case["colls"])) in case.get("omit", []))
    with impl("build collections", **sig):
        built = [make(cs, f"c{i}") for i, cs in enumerate(case["colls"])]
    colls = [b[0] for b in built]
    ntasks = [b[1] for b in built]
    reset_log()
    originals = [val(c.compute(scheduler="sync")) for c in colls]
    se = case.get("split_every")
    if op == "clone":
        omit_idx = case.get("omit", [])
        target = case["target"] % len(colls)
        # a child that shares a sub-graph with the omitted collection
        tgt = colls[target]
        child = downstream(tgt, "child")
        omit = [colls[i] for i in omit_idx if i == target]
        with impl("clone", **sig):
            c1 = clone(child, omit=omit or None, seed=case["seed"], assume_layers=case.get("assume_layers", True))
            c1b = clone(child, omit=omit or None, seed=case["seed"], assume_layers=case.get("assume_layers", True))
            c2 = clone(child, omit=omit or None, seed=case["seed"] + 1, assume_layers=case.get("assume_layers", True))
        with impl("compute clone", **sig):
            got = val(compute(c1, case))
        ensure(got == val(child.compute(scheduler="sync")), f"clone computes {short(got)}", "clone-value", **sig)
        ensure(not (keys_of(c1) & keys_of(child)), f"clone shares output keys with the original: {sorted(map(str, keys_of(c1) & keys_of(child)))[:3]}", "clone-shares-keys", **sig)
        ensure(keys_of(c1) == keys_of(c1b), "clone with the same seed gave different keys", "clone-seed-not-deterministic", **sig)
        ensure(not (keys_of(c1) & keys_of(c2)), "clone with another seed shares keys", "clone-seed-ignored", **sig)
        g1 = set(dict(c1.__dask_graph__()))
        tgt_keys = keys_of(tgt)
        if omit:
            ensure(tgt_keys <= g1, "clone(omit=x) did not keep x's keys in the graph", "clone-omit-not-kept", **sig)
        else:
            ensure(not (tgt_keys & g1), "clone without omit still depends on the original upstream keys", "clone-upstream-shared", **sig)
        return
    if op in ("bind", "wait_on"):
        np_ = max(1, min(case.get("nparents", 1), len(colls) - 1)) if len(colls) > 1 else 0
        if op == "bind":
            if len(colls) < 2:
                raise Reject("bind needs a parent and a child")
            parents = colls[:np_]
            child_base = colls[np_]
            shared = case.get("share") and type(parents[0]).__name__ == type(child_base).__name__ == "Array" and parents[0].shape == child_base.shape
            omit_base = bool(case.get("omit_base")) and not shared
            if omit_base:
                # an ancestor of the child that has nothing to do with the parents is listed in omit: it is shared,
                # everything built on it is re-created and must wait for the parents - including a first layer
                # that depends on nothing but the omitted collection (a materialized slicing layer / a Delayed call)
                mid = child_base[::-1] if type(child_base).__name__ == "Array" and child_base.ndim else child_base
                child = downstream(downstream(mid, "mid"), "child")
                omit = [child_base]
            else:
                child = (child_base + parents[0]) if shared else child_base
                child = downstream(child, "child")
                # When the child is built on a parent, omit= keeps the shared sub-graph as it is
                # (otherwise bind clones the parent's tasks into the child, and the clones - which run
                # the same logging function - legitimately run after the blocker)
                omit = parents if shared else None
            sig["omit_base"] = omit_base
            with impl("bind", **sig):
                bound = bind(child, parents, omit=omit, seed=case["seed"], assume_layers=case.get("assume_layers", True), split_every=se)
            if omit_base:
                ensure(not (keys_of(bound) & keys_of(child)), "bind(omit=ancestor) returned the original output keys", "bind-shares-keys", **sig)
            expect = val(child.compute(scheduler="sync"))
            reset_log()
            with impl("compute bound", **sig):
                got = val(compute(bound, case))
            ensure(got == expect, f"bind changed the value: {short(got)} vs {short(expect)}", "bind-value", **sig)
            parent_tags = {f"c{i}" for i in range(np_)}
            pt = [t for tag, t in LOG if tag in parent_tags]
            ct = [t for tag, t in LOG if tag in ("child", "mid")]
            ensure(len(pt) >= sum(ntasks[:np_]), f"bind: only {len(pt)} parent chunk events ran, expected >= {sum(ntasks[:np_])}", "bind-parents-not-run", **sig)
            ensure(ct, "bind: child did not run", "bind-child-not-run", **sig)
            ensure(max(pt) < min(ct), f"bind: a child task ran at {min(ct)} before the last parent task at {max(pt)}", "bind-order", **sig)
            return
        with impl("wait_on", **sig):
            waited = wait_on(*colls, split_every=se)
        if len(colls) == 1 and not isinstance(waited, tuple):
            waited = (waited,)  # a single collection comes back as such
        ensure(len(waited) == len(colls), "wait_on changed the number of collections", "wait-on-arity", **sig)
        j = case["target"] % len(colls)
        post = downstream(waited[j], "post")
        reset_log()
        with impl("compute waited", **sig):
            got = val(compute(waited[j], case))
        ensure(got == originals[j], f"wait_on changed the value: {short(got)} vs {short(originals[j])}", "wait-on-value", **sig)
        reset_log()
        with impl("compute downstream of waited", **sig):
            compute(post, case)
        before = [t for tag, t in LOG if tag.startswith("c")]
        after = [t for tag, t in LOG if tag == "post"]
        ensure(len(before) >= sum(ntasks), f"wait_on: only {len(before)} of {sum(ntasks)} input chunk events ran", "wait-on-inputs-not-run", **sig)
        ensure(after and max(before) < min(after), f"wait_on: downstream ran at {min(after) if after else None} before input chunk at {max(before)}", "wait-on-order", **sig)
        return
    if op == "checkpoint":
        with impl("checkpoint", **sig):
            cp = checkpoint(*colls, split_every=se)
        reset_log()
        with impl("compute checkpoint", **sig):
            got = compute(cp, case)
        ensure(got is None, f"checkpoint computed to {got!r}", "checkpoint-value", **sig)
        ran = [t for tag, t in LOG if tag.startswith("c")]
        ensure(len(ran) >= sum(ntasks), f"checkpoint returned after {len(ran)} of {sum(ntasks)} input chunks", "checkpoint-inputs-not-run", **sig)
        return
    raise ValueError(op)


@st.composite
def coll_spec(draw, kinds):
    k = draw(st.sampled_from(kinds))
    n = draw(st.integers(2, 6))
    return {"kind": k, "n": n, "v": draw(st.integers(0, 5)), "c": draw(st.integers(1, 3)), "reduce": draw(st.booleans())}


@st.composite
def case_strategy(draw, kinds=("array", "array", "bag", "delayed")):
    op = draw(st.sampled_from(["clone", "bind", "bind", "wait_on", "checkpoint"]))
    colls = draw(st.lists(coll_spec(list(kinds)), min_size=2 if op == "bind" else 1, max_size=3))
    if op == "bind" and draw(st.booleans()):
        # a child that can share a sub-graph with its parent
        colls[1] = dict(colls[0], v=colls[0]["v"] + 1, reduce=False)
        colls[0] = dict(colls[0], reduce=False)
    return {
        "op": op,
        "colls": colls,
        "seed": draw(st.integers(0, 100)),
        "omit": draw(st.lists(st.integers(0, 2), max_size=2)),
        "target": draw(st.integers(0, 2)),
        "nparents": draw(st.integers(1, 2)),
        "share": draw(st.booleans()),
        "omit_base": draw(st.booleans()),
        "split_every": draw(st.sampled_from([None, 2, 3, False])),
        # assume_layers=False (the slower key-level algorithm) is not explored: it has several
        # defects of its own (see findings/C16.json clone-omit-keylevel); the default is True
        "assume_layers": True,
        "scheduler": draw(st.sampled_from(["sync", "threads"])),
        "optimize_graph": draw(st.booleans()),
    }


def nontrivial(case):
    multi = any(cs["c"] >= 2 for cs in case["colls"])
    if case["op"] == "clone":
        return bool(case.get("omit")) and multi
    if case["op"] == "bind":
        return multi and (bool(case.get("share")) or bool(case.get("omit_base")))
    return multi and len(case["colls"]) >= 2


def classes(case):
    yield "op-" + case["op"]
    if case["op"] == "bind" and case.get("omit_base"):
        yield "bind-omit-ancestor"
    for cs in case["colls"]:
        yield "kind-" + cs["kind"]
    yield "sched-" + case["scheduler"]
    yield f"split_every-{case['split_every']}"


SUBCHECKS = [
    Sub("manipulate", check, strategy=lambda tier: case_strategy(), n={"quick": 800, "thorough": 20000}, nontrivial=nontrivial, classes=classes, doc="clone/bind/wait_on/checkpoint on arrays, bags and delayed trees with logging chunk functions"),
    Sub(
        "frames",
        check,
        strategy=lambda tier: case_strategy(kinds=("frame",)),
        n={"quick": 60, "thorough": 1000},
        nontrivial=nontrivial,
        classes=classes,
        doc="the same on expression-backed dataframes",
    ),
]
