"""C46 — window, cumulative and shift operations are seamless across partitions.

Anchors: dask/dataframe/dask_expr/_rolling.py (RollingReduction -> MapOverlap), _cumulative.py
(CumulativeAggregations) and _expr.py (MapOverlap / CreateOverlappingPartitions, Shift, Diff, FFill/BFill).
"""
from __future__ import annotations

import numpy as np
import pandas as pd
from hypothesis import strategies as st

from vf import frames as F
from vf.core import Reject, Sub, count, impl, reference
from vf.props import _dfcommon2 as C
from vf.props import _dfcommon3 as D

PROPERTY = "C46"
PRELOAD = ["dask.dataframe"]
LEVEL = "exploration"
RULE = (
    "hyp: frames of 2-30 rows (float columns with random NaN plus explicit NaN runs placed anywhere, so they cross "
    "partition boundaries; int and small-key columns) on a sorted index (range, unique ints, ints with duplicates, "
    "datetimes with/without duplicates), partitioned with KNOWN divisions by from_pandas(npartitions 1-6 | chunksize) "
    "or by value (30 %, may contain EMPTY partitions: sig flag empty_part), then one operation on the frame or on one "
    "column: rolling(int window 1-8 | offset '90min'..'1D' on datetime indexes, min_periods None/0/1/2/window, center) "
    ".sum/mean/min/max/count/std/var/median/quantile/apply(raw)/agg([...]); cumsum/cumprod/cummin/cummax(skipna); "
    "shift(periods -6..6, optional freq on datetime indexes); diff(periods); ffill/bfill(limit None|1-4); "
    "map_overlap(windowed sum, before 0-4, after 0-4). Reference: the same call on the unpartitioned pandas frame. "
    "Non-trivial: >= 3 source partitions and the operation reaches into the neighbouring partition (window >= 2, "
    "periods != 0, any fill/cumulative op), i.e. it spans >= 2 partition boundaries."
)
ASSUMPTIONS = [
    "partitionings have known divisions (rolling requires them; the statement is restricted to them)",
    "dask documents that an integer window / overlap must not span more than one adjacent partition: NotImplementedError "
    "('Partition size is less than overlapping window size') is accepted iff some neighbouring partition really has "
    "fewer rows than the overlap needed; ffill/bfill(limit=None) document ValueError('All NaN partition encountered') "
    "iff a partition that must receive a value has an all-NaN column (or no rows). A result returned instead must be right.",
    "pct_change and rolling(closed=...) do not exist in this dask version (no such attribute/parameter): not explored; "
    "skew/kurt are not compared (pandas' online algorithm is history dependent beyond any sensible tolerance)",
    "rolling var/std are compared with atol 1e-6 (pandas' add/remove window update leaves history dependent rounding noise)",
]
TECHNIQUE = "differential testing against pandas on the unpartitioned frame, Hypothesis-generated frames/partitionings/operations"

AGGS = ["sum", "mean", "min", "max", "count", "std", "var", "median", "quantile", "apply", "agg"]


def _winsum(df, before, after):
    """Sum over the rows [i-before, i+after] (missing neighbours and NaN count as 0): needs exactly that overlap."""
    acc = df.fillna(0)
    for k in list(range(-after, 0)) + list(range(1, before + 1)):
        acc = acc + df.shift(k).fillna(0)
    return acc


def _nansum(x):
    return np.nansum(x)


def apply_op(obj, op, is_dask):
    k = op["op"]
    if k == "rolling":
        r = obj.rolling(op["window"], min_periods=op["min_periods"], center=op["center"])
        a = op["agg"]
        if a == "quantile":
            return r.quantile(0.5)
        if a == "apply":
            return r.apply(_nansum, raw=True)
        if a == "agg":
            return r.agg(["sum", "max"])
        return getattr(r, a)()
    if k in ("cumsum", "cumprod", "cummin", "cummax"):
        return getattr(obj, k)(skipna=op["skipna"])
    if k == "shift":
        return obj.shift(op["periods"], freq=op["freq"])
    if k == "diff":
        return obj.diff(op["periods"])
    if k in ("ffill", "bfill"):
        return getattr(obj, k)(limit=op["limit"])
    if k == "map_overlap":
        if is_dask:
            return obj.map_overlap(_winsum, op["before"], op["after"], op["before"], op["after"])
        return _winsum(obj, op["before"], op["after"])
    raise ValueError(k)


def overlap(op):
    """(before, after) rows of the neighbouring partitions that the integer-overlap implementation needs."""
    k = op["op"]
    if k == "rolling":
        w = op["window"]
        if not isinstance(w, int) or w <= 1:
            return 0, 0
        return (w // 2, w - w // 2 - 1) if op["center"] else (w - 1, 0)
    if k in ("shift", "diff"):
        p = op["periods"]
        return (0, 0) if op.get("freq") else (max(p, 0), max(-p, 0))
    if k in ("ffill", "bfill"):
        n = op["limit"] or 1  # limit=None: one filled row of the neighbour (after the per-partition FillnaCheck)
        return (n, 0) if k == "ffill" else (0, n)
    if k == "map_overlap":
        return op["before"], op["after"]
    return 0, 0


def documented_raise(e, op, lens, target):
    n = len(lens)
    if isinstance(e, NotImplementedError) and "Partition size is less than overlapping" in str(e):
        b, a = overlap(op)
        return any(lens[i] < b for i in range(n - 1)) or any(lens[i] < a for i in range(1, n))
    if isinstance(e, ValueError) and "All NaN partition encountered" in str(e) and op["op"] in ("ffill", "bfill") and op["limit"] is None:
        cuts = np.cumsum([0] + list(lens))
        parts = [target.iloc[cuts[i] : cuts[i + 1]] for i in range(n)]
        need = parts[1:] if op["op"] == "ffill" else parts[:-1]
        return any(len(p) == 0 or bool(np.asarray(p.isna()).reshape(len(p), -1).all(axis=0).any()) for p in need)
    return False


def nan_flags(target, lens):
    """Input classes the cumulative implementation is sensitive to: a partition with a column that has no valid
    value (all NaN, or no rows) / a non-empty partition whose last row holds a NaN."""
    cuts = np.cumsum([0] + list(lens))
    k = 1 if target.ndim == 1 else target.shape[1]
    masks = [np.asarray(target.iloc[a:b].isna()).reshape(b - a, k) for a, b in zip(cuts, cuts[1:])]
    return dict(novalid_part=any(m.all(axis=0).any() for m in masks), nan_tail=any(m[-1].any() for m in masks if len(m)))


def check(spec):
    op = spec["op"]
    with C.quiet():
        pdf = D.with_nan_runs(F.build_pdf(spec), spec.get("nanruns", []))
        src = C.build_ddf(spec, pdf)
    if not src.known_divisions:
        raise Reject("needs known divisions")
    lens = D.part_lengths(spec, pdf, src)
    col = op.get("col")
    ptarget, dtarget = (pdf, src) if col is None else (pdf[pdf.columns[col % pdf.shape[1]]], src[pdf.columns[col % pdf.shape[1]]])
    sig = dict(op=op["op"], target="series" if col is not None else "frame", empty_part=any(x == 0 for x in lens))
    if op["op"] == "rolling":
        sig.update(window="offset" if isinstance(op["window"], str) else "int", center=bool(op["center"]))
    elif op["op"] == "shift":
        sig.update(freq=op["freq"] is not None)
    elif op["op"].startswith("cum"):
        kinds = {str(dt)[:3] for dt in pdf.dtypes}
        if op["op"] == "cumprod" and float(pdf.select_dtypes("int64").astype("float64").abs().add(1).prod().max()) > 2.0**52:
            raise Reject("int64 cumprod would overflow: wrap-around arithmetic is outside the property")
        sig.update(opclass="cum", fam="cumminmax" if op["op"] in ("cummin", "cummax") else "cumsumprod", skipna=op["skipna"], hasnan=bool(np.asarray(ptarget.isna()).any()), **nan_flags(ptarget, lens))
        sig.update(onecol=col is None and pdf.shape[1] == 1, mixed=col is None and {"int", "flo"} <= kinds)
    with C.quiet():
        status, want = reference(apply_op, ptarget, op, False)
    if status == "err":
        raise Reject(f"pandas rejects the call: {want}")
    try:
        with C.quiet():
            out = apply_op(dtarget, op, True)
            got = F.compute(out)
    except Exception as e:  # noqa: BLE001
        if documented_raise(e, op, lens, ptarget):
            count("raised-as-documented")
            return
        with impl(f"{op}", **sig):
            raise
    loose = op["op"] == "rolling" and op["agg"] in ("std", "var")
    D.close_eq(got, want, what=f"{op} over partitions of {lens} rows", sig=sig, meta=out._meta, rtol=1e-6 if loose else 1e-9, atol=1e-6 if loose else 1e-9)


def _nparts(spec):
    p = spec["partition"]
    if p["how"] == "bydivs":
        return len(set(p["pos"])) + 1
    if p["how"] == "npartitions":
        return min(p["n"], spec["nrows"])
    return -(-spec["nrows"] // max(p["n"], 1))


def nontrivial(spec):
    op = spec["op"]
    reach = max(overlap(op)) >= 1 or op["op"].startswith("cum") or (op["op"] in ("ffill", "bfill")) or isinstance(op.get("window"), str)
    return _nparts(spec) >= 3 and bool(reach)


def classes(spec):
    op = spec["op"]
    yield "op-" + op["op"]
    yield "src-" + spec["partition"]["how"]
    yield "index-" + spec["index"]["kind"]
    yield "series" if op.get("col") is not None else "frame"
    if op["op"] == "rolling":
        yield "agg-" + op["agg"]
        yield "window-offset" if isinstance(op["window"], str) else "window-int"
        if op["center"]:
            yield "center"
    if spec.get("nanruns"):
        yield "nan-runs"
    if spec["partition"]["how"] == "bydivs" and 0 in C.piece_lengths(spec, F.build_pdf(spec)):
        yield "empty-partition"
    b, a = overlap(op)
    n = max(_nparts(spec), 1)
    if max(b, a) > spec["nrows"] // n:
        yield "overlap>avg-partition"


@st.composite
def case(draw):
    kind = draw(st.sampled_from(["rolling", "rolling", "rolling", "cum", "shift", "diff", "fill", "map_overlap"]))
    timeop = kind in ("rolling", "shift") and draw(st.integers(0, 2)) == 0
    index_kinds = ("datetime_unique", "datetime") if timeop else ("range", "sorted_unique", "sorted_dups", "datetime", "datetime_unique")
    spec = draw(C.sorted_frame_spec(min_rows=2, max_rows=30, kinds=("float", "float", "float", "int", "key"), index_kinds=index_kinds, max_cols=3, p_bydivs=0.3, allow_cuts=False))
    n = spec["nrows"]
    if spec["partition"]["how"] == "bydivs" and draw(st.integers(0, 4)) > 0:
        # empty partitions (division ranges beyond the data) stay a low-probability stratum (sig flag empty_part)
        spec["partition"].update(lo=0, hi=0, single_last=False)
    spec["nanruns"] = draw(st.lists(st.tuples(st.integers(0, n - 1), st.integers(1, 6)).map(list), max_size=2))
    if kind == "rolling":
        w = draw(st.sampled_from(["90min", "2h", "5h", "1D"])) if timeop else draw(st.integers(1, 8))
        mp = draw(st.sampled_from([None, None, 0, 1, 2, "w"]))
        if mp == "w":
            mp = w if isinstance(w, int) else 3
        # center with an offset window: own low-probability stratum (known finding rolling-offset-center)
        center = draw(st.integers(0, 9)) == 0 if timeop else draw(st.booleans())
        op = {"op": "rolling", "window": w, "min_periods": mp, "center": center, "agg": draw(st.sampled_from(AGGS))}
    elif kind == "cum":
        op = {"op": draw(st.sampled_from(["cumsum", "cumprod", "cummin", "cummax"])), "skipna": draw(st.booleans())}
    elif kind == "shift":
        op = {"op": "shift", "periods": draw(st.integers(-6, 6)), "freq": draw(st.sampled_from(["1h", "90min", "1D"])) if timeop else None}
    elif kind == "diff":
        op = {"op": "diff", "periods": draw(st.integers(-6, 6))}
    elif kind == "fill":
        op = {"op": draw(st.sampled_from(["ffill", "bfill"])), "limit": draw(st.sampled_from([None, None, 1, 2, 3, 4]))}
    else:
        op = {"op": "map_overlap", "before": draw(st.integers(0, 4)), "after": draw(st.integers(0, 4))}
    op["col"] = draw(st.sampled_from([None, None, 0, 1, 2]))
    spec["op"] = op
    return spec


SUBCHECKS = [
    Sub(
        "window",
        check,
        strategy=lambda tier: case(),
        n={"quick": 3000, "thorough": 40000},
        nontrivial=nontrivial,
        classes=classes,
        doc="rolling / cumulative / shift / diff / ffill / bfill / map_overlap on partitioned frames == pandas on the whole frame",
    ),
]
