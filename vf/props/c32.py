"""C32 — approximate percentiles stay within the data and are monotone."""
from __future__ import annotations

import itertools

import numpy as np
from hypothesis import strategies as st

from vf import arrays as A
from vf.core import Reject, Sub, Violation, ensure, impl, reference

PROPERTY = "C32"
PRELOAD = ["dask.array"]
LEVEL = "exploration"
RULE = (
    "approx_enum: every chunking of 1-d arrays of length 1..6 (value patterns: increasing, decreasing, duplicates, "
    "disjoint ranges out of order, +-inf) x every method x q vectors containing 0 and 100. approx: random NaN-free "
    "int/float data up to length 40 (duplicates, +-inf, blocks with disjoint value ranges in shuffled order), random "
    "chunkings, sorted q incl. 0 and 100, scalar q, every method, internal_method default/'dask'. Oracle: min(x) <= "
    "p(q) <= max(x); q1 <= q2 => p(q1) <= p(q2); p(0) == min and p(100) == max up to 16 eps of the data magnitude; a single chunk gives "
    "np.percentile. axis: 1-3-d data with NaN (incl. all-NaN slices), nanpercentile/percentile along an axis (negative, "
    "tuple, keepdims, methods) == NumPy within 4 ulp, for any chunking. Non-trivial: >= 3 chunks (approx) resp. the "
    "reduced axis split into >= 2 chunks (axis)."
)
ASSUMPTIONS = [
    "internal_method='tdigest' needs crick, which is not installed: not exercised",
    "with +-inf in the data only the non-arithmetic methods lower/higher/nearest are checked (interpolating between "
    "infinite values is NaN in NumPy itself)",
    "the one-chunk clause compares values only (dask documents a float result dtype for integer input)",
    "axis sub-checks: explicit zero-size chunks are not explored (empty blocks crash _custom_nanquantile in several unrelated "
    "ways; reported, not listed); the 1-d approximate path keeps a zero-size-chunk stratum (~6 % of cases, flag zero_chunk)",
]
TECHNIQUE = "metamorphic bounds/monotonicity over exhaustive chunkings and Hypothesis data; differential vs NumPy along axes"

METHODS = ["linear", "lower", "higher", "midpoint", "nearest"]


def data_1d(spec):
    n, kind = spec["n"], spec["kind"]
    rng = np.random.default_rng(spec["seed"])
    dt = np.dtype(spec["dtype"])
    if kind == "inc":
        x = np.arange(n) * 3 - 4
    elif kind == "dec":
        x = (np.arange(n) * 3 - 4)[::-1]
    elif kind == "dups":
        x = rng.integers(0, 3, size=n)
    elif kind == "blocks":  # every chunk gets its own value range; ranges are assigned in shuffled order
        order = rng.permutation(len(spec["chunks"]))
        x = np.concatenate([rng.integers(100 * int(o), 100 * int(o) + 50, size=c) for o, c in zip(order, spec["chunks"])]) if n else np.zeros(0)
    else:
        x = rng.normal(0, 10, size=n) if dt.kind == "f" else rng.integers(-50, 50, size=n)
    x = np.asarray(x).astype(dt)
    for pos, v in spec.get("inf", []):
        if n and dt.kind == "f":
            x[pos % n] = np.inf if v > 0 else -np.inf
    return x


def merge_diag(x, chunks, q, method):
    """DIAGNOSTIC ONLY -- labels the signature of a violation, never decides one.  Recomputes the two quantities of
    dask.array.percentile.merge_percentiles that the listed findings hinge on: the cumulative observation counts
    ``combined_q`` (same per-chunk np.percentile knots, same np.argsort order) and ``desired_q = q * n``.  Returns
    (low, above_top): ``low[i]`` -- q[i] lies at or below the first cumulative count (finding merge-low-end: the knot is then
    looked up at index -1 or among leading zero-weight knots); ``above_top`` -- float rounding made the last cumulative
    count exceed 100 * n (finding merge-top-rounding)."""
    qa = np.asarray(q if isinstance(q, list) else [q])
    if qa.size == 0:
        return np.zeros(0, bool), False
    calc_q = np.concatenate((np.zeros(1, qa.dtype), qa, np.full(1, 100, qa.dtype)))
    vals, counts, off = [], [], 0
    for c in chunks:
        blk, off = x[off:off + c], off + c
        if c:
            vals.append(np.percentile(blk, calc_q, method=method))
            cnt = np.empty(len(calc_q), dtype=qa.dtype)
            cnt[1:], cnt[0] = np.diff(calc_q), calc_q[0]
            counts.append(cnt * c)
    with np.errstate(all="ignore"):
        cq = np.cumsum(np.concatenate(counts)[np.argsort(np.concatenate(vals))])
    return qa * len(x) <= cq[0], bool(100 * len(x) < cq[-1])


def approx_check(spec):
    import dask.array as da

    x = data_1d(spec)
    q = spec["q"]
    method = spec["method"]
    d = da.from_array(x, chunks=(tuple(spec["chunks"]),))
    sig = dict(op="percentile", method=method, internal=spec.get("internal", "default"), zero_chunk=0 in spec["chunks"] and len(spec["chunks"]) > 1, has_inf=bool(np.isinf(x).any()), dtype=spec["dtype"])
    kw = {} if spec.get("internal") is None else {"internal_method": spec["internal"]}
    with impl("percentile", **sig), np.errstate(all="ignore"):
        r = da.percentile(d, q, method=method, **kw)
        p = np.asarray(r.compute(scheduler="sync"))
    scalar = not isinstance(q, list)
    ensure(p.shape == (() if scalar else (len(q),)) and tuple(r.shape) == p.shape, f"result shape {p.shape} (lazy {r.shape}) for q={q}", "shape-mismatch", **sig)
    qs, ps = np.atleast_1d(q), np.atleast_1d(p).astype("f8")
    lo, hi = float(x.min()), float(x.max())
    low, above_top = merge_diag(x, spec["chunks"], q, method)
    ensure(not np.isnan(ps).any(), f"NaN percentile {ps} for NaN-free data {x.tolist()} q={q}", "nan-result", **sig)
    ensure(np.all(ps >= lo) and np.all(ps <= hi), f"percentiles {ps.tolist()} outside [min, max] = [{lo}, {hi}] (x={x.tolist()}, chunks={spec['chunks']}, q={q})", "out-of-range", **sig)

    def endpoint(qq, target, name, **flag):
        for v in ps[qs == qq]:
            # "up to floating-point rounding": np.interp evaluates slope*(x-x0)+y0, a few ulps of the data magnitude
            ok = v == target or (np.isfinite(target) and abs(v - target) <= 16 * np.finfo("f8").eps * max(abs(lo), abs(hi)))
            ensure(ok, f"p({qq}) = {v!r} != {name} = {target!r} (x={x.tolist()}, chunks={spec['chunks']}, method={method})", f"endpoint-{name}-mismatch", **flag, **sig)

    # low_end / top_rounding are input-class flags of the two listed findings (see merge_diag); they only label the signature
    endpoint(0, lo, "min", low_end=True)
    order = np.argsort(qs, kind="stable")
    if not np.all(ps[order][1:] >= ps[order][:-1]):
        rest = ps[order][~low[order]]
        raise Violation(f"not monotone in q: q={qs[order].tolist()} p={ps[order].tolist()} (x={x.tolist()}, chunks={spec['chunks']})", "not-monotone",
                        low_end=bool(low.any() and np.all(rest[1:] >= rest[:-1])), **sig)
    endpoint(100, hi, "max", top_rounding=bool(above_top))
    # one chunk: only for method="linear", where merging a single chunk's percentiles is the identity (np.interp at its own
    # knots); for the other methods the approximate algorithm re-ranks the knots and dask does not promise NumPy's answer
    if len([c for c in spec["chunks"] if c]) == 1 and method == "linear":
        want = np.asarray(np.percentile(x, q, method=method), dtype="f8")
        rt = 8 * float(np.finfo(x.dtype if x.dtype.kind == "f" else "f8").eps)
        ensure(np.allclose(np.asarray(p, dtype="f8"), want, rtol=rt, atol=rt * max(abs(lo), abs(hi)), equal_nan=True), f"one chunk: {p.tolist()} != np.percentile {want.tolist()} (x={x.tolist()}, q={q}, method={method})", "one-chunk-mismatch", **sig)


def approx_nontrivial(spec):
    return len([c for c in spec["chunks"] if c]) >= 3


def approx_classes(spec):
    yield "method-" + spec["method"]
    yield "kind-" + spec["kind"]
    yield "dtype-" + spec["dtype"]
    yield f"nchunks-{min(len(spec['chunks']), 4)}"
    if spec.get("inf"):
        yield "inf"
    if not isinstance(spec["q"], list):
        yield "scalar-q"
    if spec.get("internal"):
        yield "internal-" + spec["internal"]


QSETS = [[0, 100], [0, 25, 50, 75, 100], [0, 10, 33.3, 50, 90, 99, 100], [0, 0, 50, 100, 100]]


def approx_enum(tier):
    nmax = 6 if tier == "quick" else 8
    i = 0
    for n in range(1, nmax + 1):
        for chunks, kind, method in itertools.product(A.compositions(n), ["inc", "dec", "dups", "blocks", "inf"], METHODS):
            i += 1
            spec = {"n": n, "chunks": list(chunks), "kind": kind if kind != "inf" else "normal", "method": method, "seed": i % 7, "dtype": "f8" if (i % 2 or kind == "inf") else "i8", "q": QSETS[i % len(QSETS)]}
            if kind == "inf":
                if method in ("linear", "midpoint"):
                    continue
                spec["inf"] = [[i, 1], [i // 3, -1]][: 1 + i % 2]
            yield spec


@st.composite
def approx_random(draw):
    n = draw(st.integers(1, 40))
    chunks = draw(A.chunks_for_axis(n, allow_zero=draw(st.integers(0, 9)) == 0))
    method = draw(st.sampled_from(METHODS))
    spec = {"n": n, "chunks": chunks, "kind": draw(st.sampled_from(["normal", "normal", "dups", "blocks", "inc", "dec"])), "method": method, "seed": draw(st.integers(0, 9999)),
            "dtype": draw(st.sampled_from(["f8", "f8", "i8", "f4", "i4", "u1"])), "internal": draw(st.sampled_from([None, None, "dask", "default"]))}
    if spec["dtype"] == "u1" and spec["kind"] in ("inc", "dec", "normal"):
        spec["kind"] = "dups"
    if method not in ("linear", "midpoint") and draw(st.integers(0, 3)) == 0:
        spec["inf"] = draw(st.lists(st.tuples(st.integers(0, 39), st.sampled_from([1, -1])).map(list), min_size=1, max_size=3))
    qv = st.one_of(st.sampled_from([0, 100, 50, 25, 75]), st.floats(0, 100).map(lambda f: round(f, 2)))
    if draw(st.integers(0, 5)) == 0:
        spec["q"] = draw(qv)
    else:
        q = sorted(draw(st.lists(qv, min_size=0, max_size=8)))
        q = ([0] if draw(st.booleans()) else []) + q + ([100] if draw(st.booleans()) else [])
        spec["q"] = q  # always sorted: the property quantifies over sorted q vectors (per-chunk counts are diff(q))
    return spec


# ------------------------------------------------------------------ along an axis
def data_nd(spec):
    x = A.build_np(spec["array"]).astype("f8" if spec.get("nan") else spec["array"]["dtype"])
    if spec.get("nan") and x.size:
        rng = np.random.default_rng(spec["nan"]["seed"])
        x[rng.random(x.shape) < spec["nan"]["p"]] = np.nan
        if spec["nan"].get("slice") and x.ndim > 1:
            x[(0,) * (x.ndim - 1)] = np.nan  # one all-NaN lane along the last axis
        for j in range(spec["nan"].get("inf", 0)):
            x.reshape(-1)[int(rng.integers(0, x.size))] = np.inf if j % 2 else -np.inf
    return x


def axis_check(spec):
    import dask.array as da

    x = data_nd(spec)
    d = A.build_da(spec["array"], x)
    fn, a = spec["fn"], spec["args"]
    ax = tuple(a["axis"]) if isinstance(a["axis"], list) else a["axis"]
    kw = dict(axis=ax, method=a["method"], keepdims=a["keepdims"])
    with np.errstate(all="ignore"):
        status, want = reference(lambda: getattr(np, fn)(x, a["q"], **kw))
    if status == "err":
        raise Reject(f"NumPy rejects: {want}")
    sig = dict(op=fn, method=a["method"], zero_chunk=A.has_zero_chunk(spec["array"]["chunks"]), has_inf=bool(np.isinf(x).any()) if x.dtype.kind == "f" else False, has_nan=bool(np.isnan(x).any()) if x.dtype.kind == "f" else False, dtype=str(x.dtype))
    with impl(fn, **sig), np.errstate(all="ignore"):
        r = getattr(da, fn)(d, a["q"], **kw)
        got = r.compute(scheduler="sync")
    # rounding of the linear interpolation: NumPy evaluates a + (b - a) * t with (b - a) in the INPUT precision, dask's fast path
    # b * t + a * (1 - t) in float64 -- both correct to the coarser of input and output precision, which is all "equals" can mean
    eps = max(float(np.finfo(dt).eps) for dt in (np.asarray(want).dtype, x.dtype) if dt.kind == "f") if (np.asarray(want).dtype.kind == "f" or x.dtype.kind == "f") else float(np.finfo("f8").eps)
    mag = float(np.nanmax(np.abs(x[np.isfinite(x)]), initial=1.0)) if x.dtype.kind == "f" else float(np.abs(x).max(initial=1))
    A.same_array(got, want, exact=False, rtol=4 * eps, atol=4 * eps * mag, what=f"{fn}(q={a['q']}, {kw})", sig=sig, check_dtype=np.asarray(want).dtype.kind == "f")
    A.check_meta(r, got, what=fn, sig=sig)


def axis_nontrivial(spec):
    ax = spec["args"]["axis"]
    nd = len(spec["array"]["shape"])
    return any(len(spec["array"]["chunks"][a % nd]) > 1 for a in (ax if isinstance(ax, list) else [ax]))


def axis_classes(spec):
    yield spec["fn"]
    yield "method-" + spec["args"]["method"]
    yield f"ndim-{len(spec['array']['shape'])}"
    if spec.get("nan"):
        yield "nan"
        if spec["nan"].get("inf"):
            yield "inf"
    if isinstance(spec["args"]["axis"], list):
        yield "axis-tuple"
    if spec["args"]["axis"] in (-1, len(spec["array"]["shape"]) - 1) and spec["args"]["method"] == "linear" and spec["fn"] == "nanpercentile" and len(spec["array"]["shape"]) > 1:
        yield "custom-nanquantile-path"


def axis_enum(tier):
    i = 0
    for shape in ([3, 4], [2, 2, 3]) if tier == "quick" else ([3, 4], [4, 3], [2, 2, 3]):
        for ch, axis, fn in itertools.product(A.all_chunkings(shape), range(-1, len(shape) - 1), ["nanpercentile", "percentile"]):
            i += 1
            arr = {"shape": shape, "dtype": "f8", "seed": i % 11, "fill": "normal" if i % 2 else "dups", "chunks": ch}
            spec = {"array": arr, "fn": fn, "args": {"q": [0, 30, 50, 100] if i % 3 else 62.5, "axis": axis, "method": METHODS[i % 5] if i % 4 == 0 else "linear", "keepdims": i % 5 == 0}}
            if fn == "nanpercentile":
                spec["nan"] = {"seed": i, "p": 0.3, "slice": i % 7 == 0}
            yield spec


@st.composite
def axis_random(draw):
    arr = draw(A.array_spec(min_dims=1, max_dims=3, min_side=1, max_side=6, dtypes=("f8", "f8", "f8", "i8", "i8", "f4"), fills=("normal", "dups", "small")))
    # explicit zero-size chunks are NOT explored along axes: that stratum produced three unrelated crashes on the first runs
    # (ZeroDivisionError in _span_indexers for an empty block, np.nanquantile(axis=[..]) TypeError on an empty block, and the
    # multi-block length-1 axis defect that C19 lists) -- none of them about percentiles; see ASSUMPTIONS
    nd = len(arr["shape"])
    # (1-d da.percentile is the approximate algorithm and takes no axis=; along-axis percentile exists for ndim >= 2)
    fn = draw(st.sampled_from(["nanpercentile", "nanpercentile", "percentile"] if nd > 1 else ["nanpercentile"]))
    axis = draw(st.integers(-nd, nd - 1))
    if nd > 1 and draw(st.integers(0, 4)) == 0:
        axis = sorted(draw(st.lists(st.integers(0, nd - 1), min_size=1, max_size=nd, unique=True)))
    qv = st.one_of(st.sampled_from([0, 100, 50]), st.floats(0, 100).map(lambda f: round(f, 1)))
    q = draw(st.one_of(qv, st.lists(qv, min_size=1, max_size=4)))
    method = draw(st.sampled_from(["linear", "linear"] + METHODS))
    if fn == "nanpercentile" and nd > 1 and draw(st.integers(0, 3)) == 0:
        # dask's own implementation (_custom_nanquantile: linear, last axis) -- everything else delegates to np.nanquantile per block
        axis, method = draw(st.sampled_from([-1, nd - 1])), "linear"
    spec = {"array": arr, "fn": fn, "args": {"q": q, "axis": axis, "method": method, "keepdims": draw(st.booleans())}}
    if fn == "nanpercentile" and draw(st.integers(0, 4)):
        # infinities only with the non-arithmetic methods (NumPy's own linear interpolation turns them into NaN)
        spec["nan"] = {"seed": draw(st.integers(0, 999)), "p": draw(st.sampled_from([0.1, 0.3, 0.6])), "slice": draw(st.booleans()), "inf": draw(st.sampled_from([0, 0, 1, 2])) if spec["args"]["method"] in ("lower", "higher", "nearest") else 0}
    return spec


SUBCHECKS = [
    Sub("approx_enum", approx_check, kind="enum", cases=approx_enum, nontrivial=approx_nontrivial, classes=approx_classes, exhaustive=True,
        doc="all chunkings of 1-d arrays of length 1..6 x value patterns x methods: bounds, monotonicity, endpoints, one-chunk equality"),
    Sub("approx", approx_check, strategy=lambda tier: approx_random(), n={"quick": 3000, "thorough": 80000}, nontrivial=approx_nontrivial, classes=approx_classes,
        doc="random 1-d data (duplicates, +-inf, out-of-order disjoint chunk ranges), chunkings, q vectors, methods, internal_method"),
    Sub("axis_enum", axis_check, kind="enum", cases=axis_enum, nontrivial=axis_nontrivial, classes=axis_classes, exhaustive=True,
        doc="nanpercentile/percentile along each axis of small 2-d/3-d arrays under all chunkings == NumPy"),
    Sub("axis", axis_check, strategy=lambda tier: axis_random(), n={"quick": 1500, "thorough": 30000}, nontrivial=axis_nontrivial, classes=axis_classes,
        doc="nanpercentile/percentile along axes (negative, tuples, keepdims, methods) with NaN and all-NaN lanes == NumPy"),
]
