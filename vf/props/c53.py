"""C53 — SerializableLock keeps its identity across pickling."""
from __future__ import annotations

import copy
import gc
import itertools
import pickle
import threading

from hypothesis import strategies as st

from vf.core import Sub, Violation, ensure, impl

PROPERTY = "C53"
LEVEL = "exploration"
RULE = (
    "histories = op lists interpreted against a model (equivalence classes of handles by creation lineage; equal explicit "
    "tokens share a class by design, DESIGN 8.5): create a lock (no token / explicit token A or B), copy a handle via "
    "pickle / cloudpickle / copy.copy / copy.deepcopy with 1-4 hops, non-blocking acquire through any handle from the main "
    "thread or from a helper thread (joined: deterministic), release through any handle, `with` block through a handle, "
    "drop a handle (+ gc.collect()), dump a handle to bytes, load a stored payload (also after every handle of that lock is gone: "
    "then the first load makes a fresh lock and later loads of the same payload must join it). Oracle after every op: acquire(blocking=False) returns True iff the model says the "
    "class is free; locked() on EVERY live handle equals the model state of its class; classes never interfere. enum: all "
    "histories up to length 4 (quick) / 5 over a 10-op alphabet; hyp: random histories to 14 ops. Non-trivial: acquire "
    "through one copy and contend through another copy obtained by >= 2 hops."
)
ASSUMPTIONS = [
    "locks created without a token or with distinct tokens are 'created separately'; equal explicit tokens share by design",
    "helper threads are joined before the next op, so there is no real race in the harness",
]
TECHNIQUE = "model-based testing over generated histories of create/copy/acquire/release/drop (op lists against an equivalence-class model), exhaustive for short histories + Hypothesis"

METHODS = ["pickle", "cloudpickle", "copy", "deepcopy"]


def do_copy(h, method, hops):
    import cloudpickle

    for _ in range(hops):
        if method == "pickle":
            h = pickle.loads(pickle.dumps(h))
        elif method == "cloudpickle":
            h = cloudpickle.loads(cloudpickle.dumps(h))
        elif method == "copy":
            h = copy.copy(h)
        else:
            h = copy.deepcopy(h)
    return h


def check(case):
    from dask.utils import SerializableLock

    handles = []  # (lock, class id, lineage) or None when dropped
    held = {}  # class id -> bool
    counter = itertools.count()
    lineage_class = {}  # lineage (explicit token / anonymous creation) -> its current class
    payloads = []  # (bytes, method, lineage): serialized locks that outlive their handles
    anon = itertools.count()

    def live(cls):
        return [h for h in handles if h is not None and h[1] == cls]

    def current_class(lineage):
        """The class a lock of this lineage joins when it comes to life now: the class of the live
        handles with that token, or - if none is left in the process - a fresh, free lock."""
        c = lineage_class.get(lineage)
        if c is None or not live(c):
            c = next(counter)
            held[c] = False
            lineage_class[lineage] = c
        return c

    def verify(where):
        for idx, h in enumerate(handles):
            if h is None:
                continue
            with impl("locked()"):
                st_ = h[0].locked()
            ensure(st_ == held[h[1]], f"{where}: handle {idx} (class {h[1]}) locked()={st_}, model says {held[h[1]]}", "locked-disagrees")

    lk = src = new = None
    try:
        for step, op in enumerate(case["ops"]):
            where = f"step {step} {op}"
            kind = op[0]
            if kind == "create":
                tok = op[1]
                with impl("SerializableLock()"):
                    lk = SerializableLock(tok) if tok else SerializableLock()
                lineage = tok if tok else f"anon{next(anon)}"
                handles.append((lk, current_class(lineage), lineage))
            elif kind == "copy":
                if not any(h is not None for h in handles):
                    continue
                idx = op[1] % len(handles)
                if handles[idx] is None:
                    continue
                src, cls, lineage = handles[idx]
                with impl("copy lock", method=op[2]):
                    new = do_copy(src, op[2], op[3])
                handles.append((new, cls, lineage))
            elif kind == "dump":
                if not handles:
                    continue
                idx = op[1] % len(handles)
                if handles[idx] is None:
                    continue
                import cloudpickle

                with impl("dumps lock", method=op[2]):
                    payloads.append(((pickle if op[2] == "pickle" else cloudpickle).dumps(handles[idx][0]), op[2], handles[idx][2]))
            elif kind == "load":
                if not payloads:
                    continue
                data, method, lineage = payloads[op[1] % len(payloads)]
                import cloudpickle

                with impl("loads lock", method=method):
                    new = (pickle if method == "pickle" else cloudpickle).loads(data)
                handles.append((new, current_class(lineage), lineage))
            elif kind in ("acquire", "acquire_thread"):
                if not handles:
                    continue
                idx = op[1] % len(handles)
                if handles[idx] is None:
                    continue
                lk, cls = handles[idx][:2]
                if kind == "acquire":
                    with impl("acquire(blocking=False)"):
                        got = lk.acquire(False)
                else:
                    box = []
                    t = threading.Thread(target=lambda: box.append(lk.acquire(False)))
                    t.start()
                    t.join()
                    got = box[0]
                want = not held[cls]
                ensure(got == want, f"{where}: acquire(blocking=False) returned {got}, model says the lock is {'free' if want else 'held'}", "acquire-wrong", hops=_max_hops(case))
                if got:
                    held[cls] = True
            elif kind == "release":
                if not handles:
                    continue
                idx = op[1] % len(handles)
                if handles[idx] is None or not held[handles[idx][1]]:
                    continue
                with impl("release"):
                    handles[idx][0].release()
                held[handles[idx][1]] = False
            elif kind == "with":
                if not handles:
                    continue
                idx = op[1] % len(handles)
                if handles[idx] is None or held[handles[idx][1]]:
                    continue  # would block
                lk, cls = handles[idx][:2]
                with impl("with lock"):
                    with lk:
                        held[cls] = True
                        verify(where + " (inside with)")
                    held[cls] = False
            elif kind == "drop":
                if not handles:
                    continue
                idx = op[1] % len(handles)
                if handles[idx] is None:
                    continue
                cls = handles[idx][1]
                if held[cls] and len(live(cls)) == 1:
                    continue  # keep at least one handle of a held lock (else it could never be released)
                handles[idx] = None
                lk = src = new = None  # no stray reference of the harness may keep a dropped lock alive
                gc.collect()
            verify(where)
    finally:
        for h in handles:
            if h is not None and held.get(h[1]):
                try:
                    h[0].release()
                except RuntimeError:
                    pass
                held[h[1]] = False


def _max_hops(case):
    return max([op[3] for op in case["ops"] if op[0] == "copy"] or [0])


def nontrivial(case):
    ops = case["ops"]
    copies = [op for op in ops if op[0] == "copy"]
    acq = [op for op in ops if op[0] in ("acquire", "acquire_thread")]
    loads = [op for op in ops if op[0] == "load"]
    return len(acq) >= 2 and (any(c[3] >= 2 for c in copies) or len(copies) >= 2 or len(loads) >= 2)


def classes(case):
    for op in case["ops"]:
        if op[0] == "copy":
            yield "copy-" + op[2]
        elif op[0] == "create":
            yield "create-token" if op[1] else "create-anon"
        else:
            yield op[0]


def payload_cases(tier):
    """serialized payloads that outlive the lock they were made from: dump, drop every handle, load several times"""
    tail = [
        ["load", 0],
        ["acquire", 1],
        ["acquire", 2],
        ["acquire_thread", 2],
        ["release", 1],
        ["drop", 1],
        ["acquire", 3],
    ]
    maxlen = 4 if tier == "quick" else 5
    for first in (["create", None], ["create", "tA"]):
        for prefix in ([["dump", 0, "pickle"], ["drop", 0], ["load", 0]], [["dump", 0, "cloudpickle"], ["load", 0], ["drop", 0]], [["dump", 0, "pickle"], ["load", 0]]):
            for n in range(1, maxlen + 1):
                for combo in itertools.product(range(len(tail)), repeat=n):
                    yield {"ops": [first] + prefix + [tail[c] for c in combo]}


def enum_cases(tier):
    alphabet = [
        ["create", None],
        ["create", "tA"],
        ["copy", 0, "pickle", 1],
        ["copy", 1, "deepcopy", 2],
        ["copy", 0, "copy", 1],
        ["acquire", 0],
        ["acquire", 1],
        ["acquire_thread", 2],
        ["release", 1],
        ["drop", 0],
    ]
    maxlen = 4 if tier == "quick" else 5
    for n in range(2, maxlen + 1):
        for combo in itertools.product(range(len(alphabet)), repeat=n - 1):
            yield {"ops": [["create", None]] + [alphabet[c] for c in combo]}
            yield {"ops": [["create", "tA"]] + [alphabet[c] for c in combo]}


def token_kind_cases(tier):
    """Explicit tokens of different types that print alike (7 and "7", 1.5 and "1.5"): separately created locks, each may be
    copied / pickled, then contended for."""
    alphabet = [
        ["create", 7],
        ["create", "7"],
        ["create", 1.5],
        ["create", "1.5"],
        ["copy", 0, "pickle", 1],
        ["copy", 1, "deepcopy", 1],
        ["acquire", 0],
        ["acquire", 1],
        ["acquire_thread", 1],
        ["release", 0],
        ["drop", 0],
    ]
    maxlen = 4 if tier == "quick" else 5
    for first in (["create", 7], ["create", "7"], ["create", "1.5"]):
        for n in range(1, maxlen):
            for combo in itertools.product(range(len(alphabet)), repeat=n):
                ops = [alphabet[c] for c in combo]
                if any(o[0] == "create" for o in ops):
                    yield {"ops": [first] + ops}


@st.composite
def history(draw):
    ops = [["create", draw(st.sampled_from([None, "tA", "tB"]))]]
    for _ in range(draw(st.integers(2, 14))):
        k = draw(st.sampled_from(["create", "copy", "copy", "copy", "acquire", "acquire", "acquire_thread", "release", "with", "drop", "drop", "dump", "load", "load"]))
        if k == "create":
            ops.append(["create", draw(st.sampled_from([None, None, "tA", "tB"]))])
        elif k == "copy":
            ops.append(["copy", draw(st.integers(0, 9)), draw(st.sampled_from(METHODS)), draw(st.integers(1, 4))])
        elif k == "dump":
            ops.append(["dump", draw(st.integers(0, 9)), draw(st.sampled_from(["pickle", "cloudpickle"]))])
        else:
            ops.append([k, draw(st.integers(0, 9))])
    return {"ops": ops}


SUBCHECKS = [
    Sub("enum", check, kind="enum", cases=enum_cases, nontrivial=nontrivial, classes=classes, exhaustive=True, shards=1, doc="all histories up to length 4 (quick) / 5 over a 10-op alphabet"),
    Sub("payloads", check, kind="enum", cases=payload_cases, nontrivial=nontrivial, classes=classes, exhaustive=True, shards=8, doc="dump a lock, drop handles, load the payload repeatedly, contend: create, dump, (drop,) load followed by every tail up to length 4 (quick) / 5 over a 7-op alphabet"),
    Sub("token-kinds", check, kind="enum", cases=token_kind_cases, nontrivial=lambda c: len({str(o[1]) for o in c["ops"] if o[0] == "create"}) < len({repr(o[1]) for o in c["ops"] if o[0] == "create"}) and any(o[0].startswith("acquire") for o in c["ops"]), classes=classes, exhaustive=True, shards=4, doc="histories up to length 4 (quick) / 5 with at least two creations over explicit tokens 7, '7', 1.5, '1.5' (different values that print alike)"),
    Sub("histories", check, strategy=lambda tier: history(), n={"quick": 3000, "thorough": 60000}, nontrivial=nontrivial, classes=classes, shards=4, doc="random histories up to 15 ops"),
]
