"""C26 — overlap computations match the unchunked stencil."""
from __future__ import annotations

import itertools

import numpy as np
from hypothesis import strategies as st

from vf import arrays as A
from vf.core import Reject, Sub, Violation, ensure, impl, reference
from vf.props import _arrcommon2 as C

PROPERTY = "C26"
PRELOAD = ["dask.array"]
LEVEL = "exploration"
RULE = (
    "roundtrip: trim_internal/trim_overlap(overlap(x, depth, boundary), depth, boundary) == x for random 1-3-d arrays, irregular chunkings "
    "(chunks smaller than depth exercise the rechunk-to-fit path), depth as int/tuple/dict incl. asymmetric (lo, hi) tuples (boundary "
    "'none' there, as documented), boundary as str / constant / tuple / per-axis dict over {none, periodic, reflect, nearest, constant}. "
    "stencil: map_overlap(f, depth, boundary) for f a shifted sum with drawn integer coefficients (out[i] = sum_k c_k * in[i + off_k], "
    "zero beyond the block it is given, implemented with slices) or a windowed maximum, every offset within the depth; reference: pad the "
    "whole NumPy array per axis with the boundary's np.pad mode (periodic->wrap, reflect->symmetric as in the documented example, "
    "nearest->edge, constant), apply f once, trim the padding; axes with boundary 'none' are neither padded nor trimmed (f's own edge "
    "rule then acts on the true array edge in both computations). trim=False is used with self-trimming f on fully bounded axes. "
    "stencil-enum: ALL chunkings of (6,), (7,), (4,3) x depths x 5 boundaries x 2 stencils. sliding: sliding_window_view == NumPy's for "
    "random window shapes/axes (incl. repeated axes), all chunkings of (6,), (4,3) in the enum. Values exact (integer-valued data). "
    "Non-trivial: >= 3 blocks on an overlapped axis and (depth > smallest chunk there, or asymmetric depth)."
)
ASSUMPTIONS = [
    "dask's 'reflect' boundary repeats the edge value (np.pad mode 'symmetric'): this is what the documented example in "
    "docs/source/array-overlap.rst and overlap()'s docstring shows (row '0 0 1 2 3 4 | 3 4 5 6 7 7' for depth 1)",
    "depth <= axis length (dask documents a ValueError otherwise); asymmetric depth only with boundary 'none' (documented restriction)",
    "constant boundary values are representable in the array dtype",
    "trim_internal is given the same boundary as overlap (its documented keyword); the docs' 'Full Workflow' snippet omits it",
    "explicit zero-size chunks are a separate ~8 % stratum (sig flag zero_chunk); NOT explored: a zero-size chunk on an axis of length "
    "<= 1 (chunks (1, 0) / (0, 1)), which already breaks elementwise broadcasting/concatenate (C19 finding zero-chunk-on-len1-axis)",
    "trim=False: f trims `depth` cells from both ends of every extended block itself (the documented use), so every overlapped axis is "
    "given a boundary other than 'none' there; chunkings that need the rechunk-to-fit path are included",
]
TECHNIQUE = "differential testing against a NumPy pad -> stencil -> trim reference; exhaustive chunkings for small shapes plus Hypothesis-generated depth/boundary/stencil combinations"

PAD_MODE = {"periodic": "wrap", "reflect": "symmetric", "nearest": "edge"}


# --------------------------------------------------------------------------
# spec helpers


def live_depth(spec):
    """depth spec -> value accepted by dask (int / tuple / dict, tuples for asymmetric)."""
    k, v = spec["k"], spec["v"]
    conv = lambda d: tuple(d) if isinstance(d, list) else d  # noqa: E731
    if k == "int":
        return v
    if k == "tuple":
        return tuple(conv(d) for d in v)
    return {int(a): conv(d) for a, d in v.items()}


def per_axis_depth(spec, nd):
    k, v = spec["k"], spec["v"]
    if k == "int":
        return [v] * nd
    if k == "tuple":
        return list(v)
    return [v.get(str(i), 0) for i in range(nd)]


def live_boundary(spec):
    k, v = spec["k"], spec["v"]
    if k == "scalar":
        return v
    if k == "tuple":
        return tuple(v)
    return {int(a): b for a, b in v.items()}


def per_axis_boundary(spec, nd):
    k, v = spec["k"], spec["v"]
    if k == "scalar":
        return [v] * nd
    if k == "tuple":
        return list(v)
    return [v.get(str(i), "none") for i in range(nd)]


def lo_hi(d):
    return (d[0], d[1]) if isinstance(d, list) else (d, d)


def pad_reference(x, depths, bounds):
    """Pad the whole array as the boundary modes prescribe (no padding on 'none' axes)."""
    p = x
    for ax, (d, b) in enumerate(zip(depths, bounds)):
        lo, hi = lo_hi(d)
        if b == "none" or (lo == 0 and hi == 0):
            continue
        width = [(0, 0)] * x.ndim
        width[ax] = (lo, hi)
        if isinstance(b, str):
            p = np.pad(p, width, mode=PAD_MODE[b])
        else:
            p = np.pad(p, width, mode="constant", constant_values=b)
    return p


def trim_reference(r, depths, bounds):
    sl = []
    for d, b in zip(depths, bounds):
        lo, hi = lo_hi(d)
        if b == "none" or (lo == 0 and hi == 0):
            sl.append(slice(None))
        else:
            sl.append(slice(lo, r.shape[len(sl)] - hi))
    return r[tuple(sl)]


# --------------------------------------------------------------------------
# stencil functions (module level: they are shipped into the dask graph)


def shifted(b, off, fill):
    """out[i] = b[i + off] where that position exists in b, else `fill` (slices only, no roll)."""
    out = np.full_like(b, fill)
    src, dst = [], []
    for n, o in zip(b.shape, off):
        if abs(o) >= n:
            return out
        if o >= 0:
            src.append(slice(o, n))
            dst.append(slice(0, n - o))
        else:
            src.append(slice(0, n + o))
            dst.append(slice(-o, n))
    out[tuple(dst)] = b[tuple(src)]
    return out


def stencil(b, kind="shiftsum", offsets=(), coefs=(), self_trim=None):
    b = np.asarray(b)
    if kind == "shiftsum":
        out = np.zeros_like(b)
        for off, c in zip(offsets, coefs):
            out = out + c * shifted(b, off, 0)
    else:  # windowed maximum over the listed offsets; positions outside the given block do not take part
        low = -np.inf if b.dtype.kind == "f" else np.iinfo(b.dtype).min
        out = np.full_like(b, low)
        for off in offsets:
            out = np.maximum(out, shifted(b, off, low))
    if self_trim:
        out = out[tuple(slice(d, out.shape[i] - d) if d else slice(None) for i, d in enumerate(self_trim))]
    return out


# --------------------------------------------------------------------------
# checks


def common_sig(case, depths, bounds, op):
    arr = case["array"]
    return dict(
        op=op,
        zero_chunk=A.has_zero_chunk(arr["chunks"]),
        asymmetric=any(isinstance(d, list) and d[0] != d[1] for d in depths),
        rechunk_needed=any(max(lo_hi(d)) > min(c) for d, c in zip(depths, arr["chunks"]) if max(lo_hi(d)) > 0),
        boundary=_bsig(depths, bounds),
    )


def _bsig(depths, bounds):
    kinds = sorted({b if isinstance(b, str) else "constant" for d, b in zip(depths, bounds) if max(lo_hi(d)) > 0})
    return kinds[0] if len(kinds) == 1 else ("mixed" if kinds else "no-depth")


def check_roundtrip(case):
    import dask.array as da

    arr = case["array"]
    x = A.build_np(arr)
    d = A.build_da(arr, x)
    depths = per_axis_depth(case["depth"], x.ndim)
    bounds = per_axis_boundary(case["boundary"], x.ndim)
    sig = common_sig(case, depths, bounds, "overlap+trim")
    depth = live_depth(case["depth"])
    boundary = live_boundary(case["boundary"])
    with impl("overlap+trim", **sig):
        g = da.overlap.overlap(d, depth=depth, boundary=boundary)
        if case.get("via") == "trim_overlap":
            t = da.overlap.trim_overlap(g, depth, boundary)
        else:
            t = da.overlap.trim_internal(g, da.overlap.coerce_depth(x.ndim, depth), boundary)
        got = A.compute(t)
        gfull = A.compute(g)
    what = f"trim(overlap(x, depth={depth}, boundary={boundary})) on chunks {arr['chunks']}"
    A.same_array(got, x, what=what, sig=sig)
    A.check_meta(t, got, what=what, sig=sig)
    A.check_meta(g, gfull, what="overlap() itself, " + what, sig=sig)
    C.check_chunks_valid(t, what, sig)


def check_stencil(case):
    import dask.array as da

    arr = case["array"]
    x = A.build_np(arr)
    d = A.build_da(arr, x)
    nd = x.ndim
    depths = per_axis_depth(case["depth"], nd)
    bounds = per_axis_boundary(case["boundary"], nd)
    sig = common_sig(case, depths, bounds, "map_overlap")
    sig["stencil"] = case["stencil"]["kind"]
    sig["trim"] = bool(case.get("trim", True))
    st_kw = dict(kind=case["stencil"]["kind"], offsets=[tuple(o) for o in case["stencil"]["offsets"]], coefs=list(case["stencil"].get("coefs", [])))
    # reference: pad whole array -> f -> trim
    padded = pad_reference(x, depths, bounds)
    want = trim_reference(stencil(padded, **st_kw), depths, bounds)
    kw = dict(depth=live_depth(case["depth"]), boundary=live_boundary(case["boundary"]))
    if not case.get("trim", True):
        # trim=False: "Set this to False if your mapping function already does this for you"
        kw["trim"] = False
        st_kw["self_trim"] = [lo_hi(dd)[0] for dd in depths]
    if case.get("allow_rechunk") is not None:
        kw["allow_rechunk"] = case["allow_rechunk"]
    if case.get("dtype_kw"):
        kw["dtype"] = x.dtype
    with impl("map_overlap", **sig):
        if case.get("method"):
            r = d.map_overlap(stencil, **kw, **st_kw)
        else:
            r = da.map_overlap(stencil, d, **kw, **st_kw)
        got = A.compute(r)
    what = f"map_overlap({case['stencil']}, depth={kw['depth']}, boundary={kw['boundary']}, trim={case.get('trim', True)}) on chunks {arr['chunks']}"
    A.same_array(got, want, what=what, sig=sig)
    A.check_meta(r, got, what=what, sig=sig)
    C.check_chunks_valid(r, what, sig)


def check_sliding(case):
    import dask.array as da

    arr = case["array"]
    x = A.build_np(arr)
    d = A.build_da(arr, x)
    win = case["window"]
    axis = case["axis"]
    w = tuple(win) if isinstance(win, list) else win
    ax = tuple(axis) if isinstance(axis, list) else axis
    status, want = reference(np.lib.stride_tricks.sliding_window_view, x, w, ax)
    if status == "err":
        raise Reject(f"NumPy rejects: {want}")
    sig = dict(op="sliding_window_view", zero_chunk=A.has_zero_chunk(arr["chunks"]), repeated_axis=isinstance(axis, list) and len(set(a % x.ndim for a in axis)) < len(axis))
    # input class of finding F-C26-sliding-zero-chunk-window1: an explicit zero-size chunk on an axis that is windowed with total
    # window extent 1 (so no overlap is needed there) while automatic_rechunk is on (the default)
    sig["zero_chunk_on_window1_axis"] = _zero_chunk_on_window1_axis(arr, win, axis, case.get("automatic_rechunk"))
    kw = {}
    if case.get("automatic_rechunk") is not None:
        kw["automatic_rechunk"] = case["automatic_rechunk"]
    with impl("sliding_window_view", **sig):
        r = da.lib.stride_tricks.sliding_window_view(d, w, ax, **kw)
        got = A.compute(r)
    what = f"sliding_window_view(window={w}, axis={ax}) on shape {arr['shape']} chunks {arr['chunks']}"
    A.same_array(got, want, what=what, sig=sig)
    A.check_meta(r, got, what=what, sig=sig)
    C.check_chunks_valid(r, what, sig)


def _zero_chunk_on_window1_axis(arr, win, axis, automatic_rechunk):
    nd = len(arr["shape"])
    axes = list(range(nd)) if axis is None else ([axis] if not isinstance(axis, list) else axis)
    wins = win if isinstance(win, list) else [win]
    extent = {}
    for a, w in zip(axes, wins):
        extent[a % nd] = extent.get(a % nd, 0) + w - 1
    return automatic_rechunk is not False and any(e == 0 and len(arr["chunks"][a]) > 1 and 0 in arr["chunks"][a] for a, e in extent.items())


# --------------------------------------------------------------------------
# non-triviality / classes


def nontrivial(case):
    arr = case["array"]
    nd = len(arr["shape"])
    depths = per_axis_depth(case["depth"], nd)
    for d, c in zip(depths, arr["chunks"]):
        lo, hi = lo_hi(d)
        if max(lo, hi) == 0 or len(c) < 3:
            continue
        if max(lo, hi) > min(c) or lo != hi:
            return True
    return False


def classes(case):
    arr = case["array"]
    nd = len(arr["shape"])
    yield f"ndim-{nd}"
    depths = per_axis_depth(case["depth"], nd)
    bounds = per_axis_boundary(case["boundary"], nd)
    yield "depth-" + case["depth"]["k"]
    yield "boundary-" + case["boundary"]["k"]
    for d, b in zip(depths, bounds):
        if max(lo_hi(d)) > 0:
            yield "bnd-" + (b if isinstance(b, str) else "constant")
    if any(isinstance(d, list) and d[0] != d[1] for d in depths):
        yield "asymmetric"
    if any(max(lo_hi(d)) > min(c) for d, c in zip(depths, arr["chunks"]) if max(lo_hi(d)) > 0):
        yield "chunk-smaller-than-depth"
    if A.has_zero_chunk(arr["chunks"]):
        yield "zero-size-chunk"
    if "stencil" in case:
        yield "stencil-" + case["stencil"]["kind"]
        if not case.get("trim", True):
            yield "trim-false"


def nt_sliding(case):
    arr = case["array"]
    axes = case["axis"] if isinstance(case["axis"], list) else ([case["axis"]] if case["axis"] is not None else list(range(len(arr["shape"]))))
    wins = case["window"] if isinstance(case["window"], list) else [case["window"]]
    nd = len(arr["shape"])
    for a, w in zip(axes, wins):
        c = arr["chunks"][a % nd]
        if len(c) >= 2 and w - 1 >= min(c) and w > 1:
            return True
    return False


def cls_sliding(case):
    yield f"ndim-{len(case['array']['shape'])}"
    if A.has_zero_chunk(case["array"]["chunks"]):
        yield "zero-size-chunk"
    if isinstance(case["axis"], list) and len(set(case["axis"])) < len(case["axis"]):
        yield "repeated-axis"
    if case["axis"] is None:
        yield "axis-none"


# --------------------------------------------------------------------------
# strategies

CONSTS = [0, 7, -3]


@st.composite
def depth_boundary(draw, shape, allow_asym=True):
    """Per-axis depths and boundaries obeying the documented restrictions, plus a random spelling of both."""
    nd = len(shape)
    depths, bounds = [], []
    for n in shape:
        kind = draw(st.sampled_from(["zero", "sym", "sym", "sym", "asym"] if allow_asym else ["zero", "sym", "sym", "sym"]))
        if kind == "zero" or n == 0:
            depths.append(0)
            bounds.append(draw(st.sampled_from(["none", "reflect", "periodic"])))
        elif kind == "sym":
            depths.append(draw(st.integers(1, min(n, 4))))
            bounds.append(draw(st.sampled_from(["none", "periodic", "reflect", "nearest", "const"])))
        else:
            depths.append([draw(st.integers(0, min(n, 3))), draw(st.integers(0, min(n, 3)))])
            bounds.append("none")
    bounds = [draw(st.sampled_from(CONSTS)) if b == "const" else b for b in bounds]
    if all(max(lo_hi(d)) == 0 for d in depths) and nd:
        i = draw(st.integers(0, nd - 1))
        if shape[i] > 0:
            depths[i] = 1
    # spelling of depth
    has_asym = any(isinstance(d, list) for d in depths)
    forms = ["tuple", "dict"]
    if len({repr(d) for d in depths}) == 1 and not has_asym:
        forms.append("int")
    f = draw(st.sampled_from(forms))
    if f == "int":
        dspec = {"k": "int", "v": depths[0]}
    elif f == "tuple" and not has_asym:
        dspec = {"k": "tuple", "v": depths}
    else:
        # (asymmetric depths are documented for dict values)
        dspec = {"k": "dict", "v": {str(i): d for i, d in enumerate(depths) if max(lo_hi(d)) > 0 or draw(st.booleans())}}
    forms = ["tuple", "dict"]
    if len({repr(b) for b in bounds}) == 1:
        forms.append("scalar")
    f = draw(st.sampled_from(forms))
    if f == "scalar":
        bspec = {"k": "scalar", "v": bounds[0]}
    elif f == "tuple":
        bspec = {"k": "tuple", "v": bounds}
    else:
        bspec = {"k": "dict", "v": {str(i): b for i, b in enumerate(bounds) if b != "none" or draw(st.booleans())}}
    return dspec, bspec


def tame(arr):
    """Explicit zero-size chunks on an axis of length <= 1 (chunks (1, 0) / (0, 1)) are NOT explored: elementwise broadcasting and
    concatenate treat such an axis as one broadcastable block while the declared chunks keep two (``(d + 1).compute()`` already has the
    wrong length) -- C19's finding 'zero-chunk-on-len1-axis', not an overlap matter.  Zero-size chunks on longer axes stay."""
    return dict(arr, chunks=[([c for c in ch if c] or [0]) if n <= 1 else list(ch) for n, ch in zip(arr["shape"], arr["chunks"])])


@st.composite
def overlap_array(draw):
    nd = draw(st.sampled_from([1, 1, 2, 2, 3]))
    top = {1: 12, 2: 7, 3: 4}[nd]
    shape = [draw(st.integers(1, top)) for _ in range(nd)]
    return tame(draw(C.arr(shape=shape, dtypes=("i8", "f8", "i4"), fills=("small", "arange", "dups"), zero_p=0.08)))


@st.composite
def roundtrip_case(draw):
    arr = draw(overlap_array())
    dspec, bspec = draw(depth_boundary(arr["shape"]))
    return {"array": arr, "depth": dspec, "boundary": bspec, "via": draw(st.sampled_from(["trim_internal", "trim_overlap"]))}


@st.composite
def stencil_spec(draw, depths):
    kind = draw(st.sampled_from(["shiftsum", "shiftsum", "winmax"]))
    k = draw(st.integers(1, 4))
    offsets = []
    for _ in range(k):
        off = []
        for d in depths:
            lo, hi = lo_hi(d)
            # the block receives `lo` cells from the preceding neighbour and `hi` from the following one: in[i + o], -lo <= o <= hi
            o = draw(st.integers(-lo, hi))
            if draw(st.integers(0, 2)) == 0:
                o = draw(st.sampled_from([-lo, hi]))  # full reach
            off.append(o)
        offsets.append(off)
    s = {"kind": kind, "offsets": offsets}
    if kind == "shiftsum":
        s["coefs"] = [draw(st.integers(-3, 3)) or 1 for _ in range(k)]
    return s


@st.composite
def stencil_case(draw):
    arr = draw(overlap_array())
    trim = draw(st.integers(0, 5)) > 0
    dspec, bspec = draw(depth_boundary(arr["shape"], allow_asym=trim))
    nd = len(arr["shape"])
    depths = per_axis_depth(dspec, nd)
    bounds = per_axis_boundary(bspec, nd)
    if not trim:
        # self-trimming f needs the extension on both sides of every block: bounded axes only
        bounds = [("reflect" if b == "none" and max(lo_hi(d)) > 0 else b) for d, b in zip(depths, bounds)]
        bspec = {"k": "tuple", "v": bounds}
    case = {"array": arr, "depth": dspec, "boundary": bspec, "stencil": draw(stencil_spec(depths)), "trim": trim, "method": draw(st.booleans()), "dtype_kw": draw(st.booleans())}
    fits = all(max(lo_hi(d)) <= min(c) for d, c in zip(depths, arr["chunks"]) if max(lo_hi(d)) > 0)
    if fits and draw(st.integers(0, 3)) == 0:
        case["allow_rechunk"] = False
    return case


def enum_stencil(tier):
    shapes = [[6], [7], [4, 3]] if tier == "quick" else [[6], [7], [8], [4, 3], [4, 4], [3, 2, 2]]
    i = 0
    for shape in shapes:
        nd = len(shape)
        if nd == 1:
            dlist = [[1], [2], [3], [[1, 2]], [[2, 0]]]
        elif nd == 2:
            dlist = [[1, 1], [2, 1], [0, 2], [[1, 0], 1]]
        else:
            dlist = [[1, 1, 1], [2, 0, 1]]
        for ch in A.all_chunkings(shape):
            for depths in dlist:
                asym = any(isinstance(d, list) for d in depths)
                for b in (["none"] if asym else ["none", "periodic", "reflect", "nearest", 7]):
                    bounds = [("none" if isinstance(d, list) else b) for d in depths]
                    for kind in ("shiftsum", "winmax"):
                        i += 1
                        # full-reach offsets in both directions plus the centre
                        offs = [[-lo_hi(d)[0] for d in depths], [lo_hi(d)[1] for d in depths], [0] * nd]
                        if nd == 2:
                            offs.append([-lo_hi(depths[0])[0], lo_hi(depths[1])[1]])
                        s = {"kind": kind, "offsets": offs}
                        if kind == "shiftsum":
                            s["coefs"] = [1, -2, 3, 5][: len(offs)]
                        arr = {"shape": shape, "dtype": "i8", "seed": i % 71, "fill": "small" if i % 2 else "arange", "chunks": ch}
                        dspec = {"k": "dict", "v": {str(a): d for a, d in enumerate(depths)}} if asym else {"k": "tuple", "v": depths}
                        yield {"array": arr, "depth": dspec, "boundary": {"k": "tuple", "v": bounds}, "stencil": s, "trim": True, "method": bool(i % 2)}


def enum_roundtrip(tier):
    shapes = [[5], [6], [3, 3]] if tier == "quick" else [[5], [6], [7], [3, 3], [4, 3]]
    i = 0
    for shape in shapes:
        nd = len(shape)
        dlist = [[1], [2], [3], [[1, 2]], [[0, 2]]] if nd == 1 else [[1, 1], [2, 1], [0, 2], [[1, 0], 2]]
        for ch in A.all_chunkings(shape):
            for depths in dlist:
                asym = any(isinstance(d, list) for d in depths)
                for b in (["none"] if asym else ["none", "periodic", "reflect", "nearest", -3]):
                    i += 1
                    bounds = [("none" if isinstance(d, list) else b) for d in depths]
                    arr = {"shape": shape, "dtype": "i8", "seed": i % 71, "fill": "arange", "chunks": ch}
                    dspec = {"k": "dict", "v": {str(a): d for a, d in enumerate(depths)}}
                    yield {"array": arr, "depth": dspec, "boundary": {"k": "tuple", "v": bounds}, "via": "trim_internal" if i % 2 else "trim_overlap"}


@st.composite
def sliding_case(draw):
    nd = draw(st.sampled_from([1, 1, 2, 2, 3]))
    top = {1: 12, 2: 7, 3: 4}[nd]
    shape = [draw(st.integers(1, top)) for _ in range(nd)]
    arr = tame(draw(C.arr(shape=shape, dtypes=("i8", "f8", "bool"), fills=("arange", "small"), zero_p=0.08)))
    mode = draw(st.sampled_from(["none", "int", "tuple", "tuple", "repeat"]))
    if mode == "none":
        win = [draw(st.integers(1, n)) for n in shape]
        return {"array": arr, "window": win if nd > 1 or draw(st.booleans()) else win[0], "axis": None, "automatic_rechunk": draw(st.sampled_from([None, True, False]))}
    if mode == "int":
        a = draw(st.integers(-nd, nd - 1))
        return {"array": arr, "window": draw(st.integers(1, shape[a])), "axis": a, "automatic_rechunk": draw(st.sampled_from([None, True, False]))}
    if mode == "repeat":
        a = draw(st.integers(0, nd - 1))
        n = shape[a]
        w1 = draw(st.integers(1, n))
        w2 = draw(st.integers(1, max(1, n - w1 + 1)))
        return {"array": arr, "window": [w1, w2], "axis": [a, a], "automatic_rechunk": None}
    axes = draw(st.lists(st.integers(0, nd - 1), min_size=1, max_size=nd, unique=True))
    win = [draw(st.integers(1, shape[a])) for a in axes]
    axes = [a - nd if draw(st.integers(0, 3)) == 0 else a for a in axes]
    return {"array": arr, "window": win, "axis": axes, "automatic_rechunk": draw(st.sampled_from([None, True, False]))}


def enum_sliding(tier):
    i = 0
    for shape, combos in (([6], [(w, 0) for w in range(1, 7)] + [([2, 2], [0, 0])]), ([4, 3], [([2, 2], None), (3, 0), (2, 1), ([4, 1], [0, 1]), ([2, 3], [0, -1])])):
        for ch in A.all_chunkings(shape):
            for w, ax in combos:
                i += 1
                arr = {"shape": shape, "dtype": "i8", "seed": i % 31, "fill": "arange", "chunks": ch}
                yield {"array": arr, "window": w, "axis": ax, "automatic_rechunk": None if i % 2 else False}


SUBCHECKS = [
    Sub("roundtrip-enum", check_roundtrip, kind="enum", cases=enum_roundtrip, nontrivial=nontrivial, classes=classes, exhaustive=True,
        doc="trim(overlap(x)) == x over all chunkings of (5,), (6,), (3,3) x depths (incl. asymmetric) x 5 boundaries"),
    Sub("roundtrip", check_roundtrip, strategy=lambda tier: roundtrip_case(), n={"quick": 1200, "thorough": 30000}, nontrivial=nontrivial, classes=classes,
        doc="trim(overlap(x)) == x for random arrays / depth and boundary spellings"),
    Sub("stencil-enum", check_stencil, kind="enum", cases=enum_stencil, nontrivial=nontrivial, classes=classes, exhaustive=True,
        doc="map_overlap vs pad->stencil->trim over all chunkings of (6,), (7,), (4,3) x depths x boundaries x 2 stencils"),
    Sub("stencil", check_stencil, strategy=lambda tier: stencil_case(), n={"quick": 2000, "thorough": 50000}, nontrivial=nontrivial, classes=classes,
        doc="map_overlap vs pad->stencil->trim for random stencils, depths (per-axis, asymmetric), boundaries, trim on/off, allow_rechunk"),
    Sub("sliding-enum", check_sliding, kind="enum", cases=enum_sliding, nontrivial=nt_sliding, classes=cls_sliding, exhaustive=True,
        doc="sliding_window_view over all chunkings of (6,) and (4,3) x fixed windows/axes"),
    Sub("sliding", check_sliding, strategy=lambda tier: sliding_case(), n={"quick": 1000, "thorough": 30000}, nontrivial=nt_sliding, classes=cls_sliding,
        doc="sliding_window_view vs NumPy for random windows / axes (incl. repeated axes) / automatic_rechunk"),
]
