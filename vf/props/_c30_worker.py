"""Pipeline builder + expression-engine worker for C30.

``build(spec, da)`` interprets a pipeline spec (plain JSON, see c30.py) either with NumPy (``da=None``) or with a
dask.array namespace (classic engine in the parent, expression engine in this worker).  Run as a module
(``python -m vf.props._c30_worker`` with ``DASK_ARRAY__QUERY_PLANNING=True`` in the environment) it reads
``{"spec": ...}`` JSON lines on stdin and answers one JSON line each with, for the plain collection and for
``x.optimize()``, ``x.simplify()`` and ``x.expr.lower_completely()``: lazy chunks/shape/dtype and the computed value.
"""
from __future__ import annotations

import json
import operator
import sys
import traceback

import numpy as np

from vf import arrays as A

UNARY = {
    "neg": operator.neg,
    "abs": abs,
    "square": lambda a: a * a,
    "sign": np.sign,  # through __array_ufunc__ for dask arrays
    "logical_not": np.logical_not,
    "floor": np.floor,
}
SCALAR = {
    "add": operator.add,
    "sub": operator.sub,
    "rsub": lambda a, v: v - a,
    "mul": operator.mul,
    "gt": operator.gt,
    "le": operator.le,
    "eq": operator.eq,
    "floordiv": operator.floordiv,
    "mod": operator.mod,
    "truediv": operator.truediv,
    "maximum": np.maximum,
}
BINARY = {
    "add": operator.add,
    "sub": operator.sub,
    "mul": operator.mul,
    "lt": operator.lt,
    "ne": operator.ne,
    "maximum": np.maximum,
    "minimum": np.minimum,
}
# user functions for map_blocks: elementwise, so the NumPy reference does not depend on the chunking
BLOCKFN = {
    "double": lambda b: b * 2,
    "negabs": lambda b: -abs(b),
    "tofloat": lambda b: b.astype("f8") + 0.5,
}


def _index(items, da):
    out = []
    for it in items:
        k = it[0]
        if k == "s":
            out.append(slice(it[1], it[2], it[3]))
        elif k == "i":
            out.append(it[1])
        elif k == "n":
            out.append(None)
        elif k == "l":
            out.append(list(it[1]))
        elif k == "d":
            ix = np.array(it[1], dtype="i8")
            out.append(ix if da is None else da.from_array(ix, chunks=(tuple(it[2]),)))
        else:
            raise ValueError(it)
    return tuple(out)


def _arr(aspec, da):
    x = A.build_np(aspec)
    return x if da is None else da.from_array(x, chunks=tuple(tuple(c) for c in aspec["chunks"]))


def source(src, da):
    k = src["kind"]
    if k == "from_array":
        return _arr(src["array"], da)
    lib = np if da is None else da
    if k in ("ones", "zeros", "full"):
        kw = {} if da is None else {"chunks": tuple(tuple(c) for c in src["chunks"])}
        if k == "full":
            return lib.full(tuple(src["shape"]), src["value"], dtype=src["dtype"], **kw)
        return getattr(lib, k)(tuple(src["shape"]), dtype=src["dtype"], **kw)
    kw = {} if da is None else {"chunks": src["chunksize"]}
    if k == "arange":
        return lib.arange(src["start"], src["stop"], src["step"], dtype=src["dtype"], **kw)
    if k == "linspace":
        return lib.linspace(src["start"], src["stop"], src["num"], **kw)
    raise ValueError(k)


def apply(cur, st, da):
    lib = np if da is None else da
    op = st["op"]
    if op == "unary":
        return UNARY[st["fn"]](cur)
    if op == "scalar":
        return SCALAR[st["fn"]](cur, st["value"])
    if op == "binary":
        other = _arr(st["other"], da)
        return BINARY[st["fn"]](cur, other) if st.get("side", "l") == "l" else BINARY[st["fn"]](other, cur)
    if op == "self":  # combine with a differently chunked copy of itself: blockwise has to align the chunks
        other = cur if da is None else cur.rechunk(tuple(tuple(c) for c in st["chunks"]))
        return BINARY[st["fn"]](cur, other)
    if op == "slice":
        return cur[_index(st["index"], da)]
    if op == "reduce":
        kw = {"axis": tuple(st["axis"]) if isinstance(st["axis"], list) else st["axis"], "keepdims": st["keepdims"]}
        if da is not None and st.get("split_every"):
            kw["split_every"] = st["split_every"]
        if st.get("toplevel") or st["fn"].startswith("nan"):
            return getattr(lib, st["fn"])(cur, **kw)
        return getattr(cur, st["fn"])(**kw)
    if op == "rechunk":
        if da is None:
            return cur
        if "dict" in st:
            return cur.rechunk({int(k): v for k, v in st["dict"].items()})
        ch = tuple(tuple(c) for c in st["chunks"])
        return da.rechunk(cur, ch) if st.get("toplevel") else cur.rechunk(ch)
    if op == "transpose":
        return cur.T if st["axes"] is None else cur.transpose(tuple(st["axes"]))
    if op in ("concat", "stack"):
        other = cur if st["other"] is None else _arr(st["other"], da)
        seq = [cur, other] if st.get("order", "ab") == "ab" else [other, cur]
        return (lib.concatenate if op == "concat" else lib.stack)(seq, axis=st["axis"])
    if op == "map_blocks":
        f = BLOCKFN[st["fn"]]
        if da is None:
            return f(cur)
        kw = {"dtype": st["dtype"]} if st.get("dtype") else {}
        return cur.map_blocks(f, **kw)
    if op == "astype":
        return cur.astype(st["dtype"])
    if op == "clip":
        return cur.clip(st["lo"], st["hi"])
    if op == "repeat":
        return lib.repeat(cur, st["n"], axis=st["axis"])
    raise ValueError(op)


def build(spec, da, progress=None):
    """Interpret the pipeline; ``progress`` (a list) receives the index of the step being applied."""
    with np.errstate(all="ignore"):
        cur = source(spec["src"], da)
        for k, st in enumerate(spec["steps"]):
            if progress is not None:
                progress[:] = [k, cur]
            cur = apply(cur, st, da)
    return cur


# ---------------------------------------------------------------------------- worker side
def lazy_info(x):
    return {
        "chunks": [[None if c != c else int(c) for c in ax] for ax in x.chunks],
        "shape": [None if s != s else int(s) for s in x.shape],
        "dtype": np.dtype(x.dtype).str,
    }


def encode(v):
    v = np.asarray(v)
    return {"dtype": v.dtype.str, "shape": list(v.shape), "data": v.tolist()}


def decode(e):
    return np.array(e["data"], dtype=e["dtype"]).reshape(e["shape"])


def _meta_none(x):
    """Diagnostic flag: some expression under ``x`` has ``_meta is None`` (meta inference failed silently)."""
    try:
        return any(getattr(e, "_meta", 0) is None for e in x.expr.walk())
    except Exception:  # noqa: BLE001
        return None


def _err(e, stage, step=None, x=None):
    where = ""
    for fr in reversed(traceback.extract_tb(e.__traceback__)):
        if "/dask/" in fr.filename:
            where = f"{fr.filename.split('/dask/', 1)[1]}:{fr.name}"
            break
    # A NotImplementedError raised WHILE HANDLING another exception (blanket ``except Exception: raise NotImplementedError``)
    # is a crash that was relabelled, not a statement that the operation is unsupported: reported as an error, with the
    # type of the swallowed exception.  A plain NotImplementedError means "outside the engine's domain".
    masked = type(e.__context__).__name__ if isinstance(e, NotImplementedError) and e.__context__ is not None else None
    kind = "notimpl" if isinstance(e, NotImplementedError) and masked is None else "error"
    msg = str(e).strip().split("\n")[0][:300] if masked is None else "(masking %s: %s)" % (masked, " ".join(str(e.__context__).split())[:160])
    return {kind: {"stage": stage, "type": type(e).__name__, "msg": msg, "where": where, "step": step, "masked": masked,
                   "meta_none": _meta_none(x) if x is not None else None}}


def answer(spec):
    import dask.array as da
    from dask._collections import new_collection

    progress = []
    try:
        x = build(spec, da, progress)
    except Exception as e:  # noqa: BLE001
        return _err(e, "build", progress[0] if progress else None, progress[1] if progress else None)
    out = {"variants": {}}
    variants = {
        "plain": lambda: x,
        "optimize": lambda: x.optimize(),
        "simplify": lambda: x.simplify(),
        "lower": lambda: new_collection(x.expr.lower_completely()),
    }
    for name, make in variants.items():
        try:
            y = make()
            info = lazy_info(y)
            with np.errstate(all="ignore"):
                info["value"] = encode(y.compute(scheduler="sync"))
            out["variants"][name] = info
        except Exception as e:  # noqa: BLE001
            return _err(e, name, x=x)
    try:
        out["changed"] = bool(x.expr.optimize()._name != x.expr._name)
        out["changed_simplify"] = bool(x.expr.simplify()._name != x.expr._name)
        out["expr"] = type(x.expr).__name__
    except Exception as e:  # noqa: BLE001
        return _err(e, "optimize")
    return out


def main():
    import dask.array as da

    if not da.array_expr_enabled():
        sys.stdout.write(json.dumps({"fatal": "array.query-planning is not enabled in the worker"}) + "\n")
        sys.stdout.flush()
        return
    real_stdout = sys.stdout
    sys.stdout = sys.stderr  # nothing but answers may reach the pipe
    for line in sys.stdin:
        line = line.strip()
        if not line:
            continue
        try:
            out = answer(json.loads(line)["spec"])
        except BaseException as e:  # noqa: BLE001
            out = {"fatal": f"{type(e).__name__}: {e}"}
        real_stdout.write(json.dumps(out) + "\n")
        real_stdout.flush()


if __name__ == "__main__":
    main()
