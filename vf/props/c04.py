"""C04 — a failing task surfaces its exception; the scheduler terminates cleanly."""
from __future__ import annotations

import itertools

from hypothesis import strategies as st

from vf.core import Sub, Violation, ensure, time_limit
from vf.gen import dags
from vf.graphs import EXC_TYPES, RefEval, is_callable_node
from vf.props import _schedcommon as sc
from vf.schedengine import executed_counts

PROPERTY = "C04"
LEVEL = "fault_enumeration"
RULE = (
    "fault enumeration: for every DAG n<=3 (quick; n<=4 thorough) x style x a request set, EVERY single failing callable "
    "node and every pair of failing nodes, exception kinds cycling over ValueError / custom Exception with extra ctor args "
    "/ BaseException subclass / KeyboardInterrupt / unpicklable exception, on get_sync and on the controlled executor with "
    "ALL completion interleavings (rerun_exceptions_locally on/off); Hypothesis: random larger graphs with random failing "
    "subsets on sync/controlled/threaded pools; serial: multiprocessing.get on spawn pools. Oracle: the call raises; the "
    "raised exception is an instance of the injected type of a failing task that actually started and carries its unique "
    "message; no transitive dependent of any failing task ran; start callbacks once, finish callbacks exactly once with "
    "failed=True; no deadlock on the controlled executor; real pools return within a generous bound. If no failing task is "
    "needed the call must succeed with the reference value. Non-trivial: the failing task has both ancestors and dependents "
    "among the needed tasks, or two failing tasks are both needed."
)
ASSUMPTIONS = [
    "faults are injected by the task bodies (term functions raising the drawn exception with a unique message)",
    "deadlock detection on the controlled executor is deterministic; on real pools a 60 s bound for <=12 trivial tasks",
]
TECHNIQUE = "fault enumeration (every failing task x exception kind x all completion interleavings on a controlled executor) + Hypothesis on real pools; oracle = injected fault identity + execution log"

KINDS = ["ValueError", "custom", "samename", "base", "keyboard", "unpicklable"]  # "samename": another class also called InjectedError


def msg_for(i):
    return f"injected-{i}"


def predicate(case, ref, out):
    g = case["graph"]
    kind = case["sched"]["kind"]
    fail = {int(k): v for k, v in case["fail"].items()}
    need = ref.needed(case["request"])
    needed_failing = {i for i in fail if i in need}
    sig = dict(sched=kind)
    if out.deadlock:
        raise Violation(f"scheduler deadlocked (would block with nothing in flight): {out.raised}", "deadlock", **sig)
    counts = executed_counts(out) if kind != "processes" else {}
    ensure(out.start_calls == 1, f"start callback ran {out.start_calls} times", "start-callback-count", **sig)
    ensure(len(out.finish_calls) == 1, f"finish callback ran {len(out.finish_calls)} times: {out.finish_calls}", "finish-callback-count", **sig)
    if not needed_failing:
        ensure(out.raised is None, f"no failing task is needed but the call raised {out.raised!r}", "spurious-failure", **sig)
        ensure(out.finish_calls == [False], f"finish called with failed={out.finish_calls} on success", "finish-flag", **sig)
        want = ref.pack(case["request"])
        ensure(out.value == want, "wrong value on the fault-free path", "wrong-value", **sig)
        return
    ensure(out.raised is not None, f"failing task(s) {sorted(needed_failing)} needed, but the call returned {out.value!r}", "exception-swallowed", **sig)
    ensure(out.finish_calls == [True], f"finish called with failed={out.finish_calls} on failure", "finish-flag", **sig)
    e = out.raised
    # which injected fault surfaced?
    text = str(getattr(e, "exception", e)) if kind == "processes" else str(e)
    surfaced = [i for i in needed_failing if msg_for(i) == text or (kind == "processes" and text.startswith(msg_for(i)))]
    picklable = all(fail[i][0] != "unpicklable" for i in needed_failing)
    xsig = dict(sig, picklable=picklable)
    ensure(surfaced, f"raised {type(e).__name__}({str(e)[:200]!r}) does not carry the message of any failing task {sorted(needed_failing)}", "message-lost", **xsig)
    i = surfaced[0]
    T = EXC_TYPES[fail[i][0]]
    ensure(isinstance(e, T), f"raised {type(e).__mro__} is not an instance of the injected type {T.__name__}", "wrong-type", **xsig)
    if kind != "processes":
        ensure(type(e) is T, f"raised type {type(e).__name__}, injected {T.__name__}", "wrong-type", **xsig)
        ensure(counts.get(i, 0) >= 1, f"surfaced failure of task {i}, which never started", "phantom-failure", **sig)
        # (how often the failing task itself runs is not part of the property:
        # rerun_exceptions_locally re-executes it by design)
        # no transitive dependent of any failing task ran
        from vf.graphs import dependents_map, _reach_up

        dm = dependents_map(g)
        for f in fail:
            for d in _reach_up(dm, f):
                if is_callable_node(g["nodes"][d]["body"]):
                    ensure(counts.get(d, 0) == 0, f"task {d} depends on failing task {f} but was executed", "dependent-executed", **sig)


def check(case):
    # blocking hang detection needs wall-clock time; 300 s for <= 12 trivial tasks is
    # two orders of magnitude above the cost even on a loaded machine
    with time_limit(300, "scheduler call with failing task", wall=True, sched=case["sched"]["kind"]):
        # a case may carry its own history: earlier failing computations in the same process, run first (each is the
        # subject of an earlier case of the enumeration; here they only set the stage, so the replay file is self-contained)
        for kind in case.get("prelude", ()):
            sc.for_each_schedule(dict(case, prelude=(), fail={k: [kind, v[1]] for k, v in case["fail"].items()}), lambda *a: None)
        sc.for_each_schedule(case, predicate)


def nontrivial(case):
    g = case["graph"]
    ref = RefEval(g)
    need = ref.needed(case["request"])
    fail = [int(k) for k in case["fail"]]
    nf = [i for i in fail if i in need]
    if len(nf) >= 2:
        return True
    from vf.graphs import dependents_map

    dm = dependents_map(g)
    for i in nf:
        if ref.refs(i) and (dm[i] & need):
            return True
    return False


def classes(case):
    out = list(sc.structural_classes(case))
    for k, v in case["fail"].items():
        out.append("exc-" + v[0])
    out.append(f"failing-{len(case['fail'])}")
    if case["sched"].get("rerun"):
        out.append("rerun-locally")
    return out


def enum_cases(tier):
    nmax = 3 if tier == "quick" else 4
    grid = sc.CTRL_GRID_QUICK
    idx = 0
    for n in range(1, nmax + 1):
        for gi, shape in enumerate(dags.all_dags(n, kinds=("data", "task", "alias", "list"))):
            callables = [i for i, s in enumerate(shape) if s["kind"] == "task"]
            if not callables:
                continue
            style = "legacy" if gi % 2 else "taskspec"
            g = dags.dag_spec(shape, style, "str")
            reqs = [n - 1, list(range(n))]
            if n >= 3:
                reqs.append([0, [n - 1]])
            subsets = [(c,) for c in callables] + list(itertools.combinations(callables, 2))
            for req in reqs:
                for sub in subsets:
                    idx += 1
                    fail = {str(i): [KINDS[(idx + j) % len(KINDS)], msg_for(i)] for j, i in enumerate(sub)}
                    rerun = idx % 5 == 0
                    s1 = {"kind": "sync"}
                    if rerun:
                        s1["rerun"] = True
                    yield {"graph": g, "request": req, "fail": fail, "sched": s1}
                    w, c = grid[idx % len(grid)]
                    s2 = {"kind": "controlled", "workers": w, "chunksize": c, "choices": "all", "limit": 300}
                    if rerun:
                        s2["rerun"] = True
                    yield {"graph": g, "request": req, "fail": fail, "sched": s2}


@st.composite
def random_case(draw, kinds=("controlled", "threads", "tpe", "sync")):
    g = draw(dags.shape_graph(min_nodes=2, max_nodes=10))
    n = len(g["nodes"])
    callables = [i for i in range(n) if is_callable_node(g["nodes"][i]["body"])]
    req = draw(dags.request_for(n))
    if not callables:
        callables = [0]
        g["nodes"][0]["body"] = {"call": "f0", "args": [{"lit": 0}]}
    fs = draw(st.lists(st.sampled_from(callables), min_size=1, max_size=3, unique=True))
    picklable_only = "processes" in kinds
    ks = [k for k in KINDS if not (picklable_only and k == "unpicklable")]
    fail = {str(i): [draw(st.sampled_from(ks)), msg_for(i)] for i in fs}
    sched = draw(sc.sched_strategy(kinds))
    if sched["kind"] != "processes" and draw(st.integers(0, 4)) == 0:
        sched["rerun"] = True
    case = {"graph": g, "request": req, "fail": fail, "sched": sched}
    if sched["kind"] in ("threads", "tpe"):
        case["sleep"] = {str(i): draw(st.sampled_from([0.0, 0.0005, 0.002])) for i in range(n)}
    return case


@st.composite
def proc_case(draw):
    c = draw(random_case(kinds=("processes",)))
    c["sched"] = {
        "kind": "processes",
        "workers": draw(st.integers(1, 3)),
        "chunksize": draw(st.sampled_from([1, 6, -1])),
        "optimize_graph": draw(st.booleans()),
    }
    return c


@st.composite
def proc_case_unpicklable(draw):
    c = draw(proc_case())
    k = sorted(c["fail"])[0]
    c["fail"] = {k: ["unpicklable", msg_for(int(k))]}
    c["request"] = [int(k), c["request"]]  # make sure the failing task is needed
    return c


def hierarchy_cases(tier):
    """A HISTORY of failing multiprocessing computations in one process (this sub-check runs serially, in order): exception
    classes related by inheritance fail one after the other - base class first (ArithmeticError, then ZeroDivisionError;
    InjectedError, then its subclass), subclass first (IndexError, then LookupError) - and each failure must still surface
    as an instance of ITS type.  dask.multiprocessing caches one wrapper class per exception type."""
    order = ["ArithmeticError", "ZeroDivisionError", "IndexError", "LookupError", "custom", "child", "samename", "ZeroDivisionError", "child", "ArithmeticError"]
    shape = [{"kind": "task", "deps": []}, {"kind": "task", "deps": [0]}]
    for rep in range(1 if tier == "quick" else 3):
        for j, kind in enumerate(order):
            yield {"graph": dags.dag_spec(shape, "legacy" if (j + rep) % 2 else "taskspec", "str"), "request": 1, "fail": {"0": [kind, msg_for(0)]}, "prelude": order[:j],
                   "sched": {"kind": "processes", "workers": 1 + rep, "chunksize": 1, "optimize_graph": bool(rep % 2)}}


SUBCHECKS = [
    Sub(
        "enum",
        check,
        kind="enum",
        cases=enum_cases,
        nontrivial=nontrivial,
        classes=classes,
        exhaustive=True,
        budget_s={"quick": 80, "thorough": 1500},
        doc="every failing task / pair x exception kind x {sync, controlled: all interleavings}",
    ),
    Sub(
        "random",
        check,
        strategy=lambda tier: random_case(),
        n={"quick": 1200, "thorough": 30000},
        nontrivial=nontrivial,
        classes=classes,
        doc="random graphs and failing subsets on sync/controlled/threaded pools with micro-sleeps",
    ),
    Sub(
        "processes-hierarchy",
        check,
        kind="enum",
        cases=hierarchy_cases,
        nontrivial=lambda case: True,
        classes=classes,
        exhaustive=True,
        serial=True,
        doc="a serial history of failing multiprocessing.get calls whose exception classes are related by inheritance (base first, subclass first, user subclass): every failure surfaces as an instance of its own type",
    ),
    Sub(
        "processes",
        check,
        strategy=lambda tier: st.one_of(proc_case(), proc_case(), proc_case_unpicklable()),
        n={"quick": 40, "thorough": 500},
        nontrivial=nontrivial,
        classes=classes,
        serial=True,
        doc="multiprocessing.get on harness-owned spawn pools (incl. an exception that cannot be pickled)",
    ),
]


def TEARDOWN():
    from vf.schedengine import shutdown_pools

    shutdown_pools()
