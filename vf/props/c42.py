"""C42 - the lazy DataFrame metadata (``_meta``) matches what is computed.

A case is a frame x a partitioning WITH empty partitions in most cases x a program:
0-2 row-wise steps of the C36 grammar (incl. the dtype-changing ones: astype,
int/float arithmetic, accessors) optionally followed by one reduction of the C37
grammar or one groupby operation of the C38 grammar.  Only dask runs the program
for the verdict (pandas runs it first merely to discard programs that are invalid).

Checked: the computed object's kind (DataFrame / Series / Index / scalar), column
labels and their order, column-index names, dtypes, Series name, index names and
index dtype equal those of the lazy ``._meta`` (and ``.dtypes`` / ``.columns`` /
``.index.name`` / ``.name``, which must be views of it); the same for EVERY
partition computed separately (``obj.partitions[i]``).

Relaxations (nothing else):

* a dtype / index-dtype difference of a *partition* that has zero rows (pandas'
  result dtypes over no rows are data dependent); never for the full result;
* categoricals whose lazy categories are *unknown* (dask's documented placeholder)
  only promise "categorical, same orderedness";
* int vs float (numpy kinds i/u/f): dask's own ``check_meta(numeric_equal=True)``
  documents that these compare equal "due to pandas' implicit conversion of integer
  to floating upon encountering missingness, which is hard to infer statically".
  Accepted only for that reason: the lazy dtype is an integer, the computed one a
  float, and the computed column really contains a missing value (or the object is
  empty).  A float column without missing values where an int was announced is
  reported.  A reduction/groupby behind a where/mask/fillna/clip step that really upcast
  an int column (lazy int, pandas float for the row-wise part) inherits that upcast;
* nothing to compute from: zero input rows, or a filter removed every row before the
  later steps ran, and the full result has zero rows (or, for zero input rows, is a
  reduction whose entries are all missing) - treated like a zero-row partition.

A program on which dask raises is outside this property (that is C36/C37/C38).
"""
from __future__ import annotations

import warnings

import numpy as np
import pandas as pd
from hypothesis import strategies as st
from pandas.core.dtypes.dtypes import BaseMaskedDtype

from vf import frames as F
from vf.core import Reject, Sub, Violation, count, ensure, reference
from vf.props import _dfcommon1 as D
from vf.props import c36, c37, c38

PROPERTY = "C42"
PRELOAD = ["dask.dataframe"]
LEVEL = "exploration"
RULE = (
    "random: vf.frames.frame_spec frames (0-24 rows, mixed column kinds) x partitioning biased to hand cuts with EMPTY partitions "
    "(from_map), also from_pandas npartitions/chunksize, known/unknown divisions x program = 0-2 row-wise steps of the C36 "
    "grammar (projection, filter, assign, frame/column arithmetic, astype, fillna, where/mask, isin, clip, map/apply with meta, "
    "rename, round, .str/.dt/.cat accessors) optionally followed by one reduction of the C37 grammar (sum..describe, "
    "value_counts, nlargest, cov, ...) or one groupby operation of the C38 grammar (reductions, agg forms, cumulative, "
    "transform-like, value_counts; split_out/split_every/shuffle_method). Oracle: kind, columns, dtypes, names, index "
    "name/dtype of the computed result and of every separately computed partition equal the lazy _meta. Non-trivial: the "
    "program changes dtypes or the object kind (astype / arithmetic / accessor / reduction / groupby) and some input partition "
    "is empty."
)
ASSUMPTIONS = [
    "dtype differences of zero-row partitions are accepted (data-dependent pandas dtypes), never for the full result",
    "unknown-categories categoricals promise only categorical + orderedness",
    "int announced / float computed is accepted only when the computed data contains a missing value (dask check_meta numeric_equal)",
    "programs that raise in pandas or in dask are outside the property",
]
TECHNIQUE = "metamorphic/internal-consistency testing of lazy metadata against computed results with Hypothesis-generated programs"


def run_program(obj, spec, env):
    obj = D.run_pipeline(obj, spec.get("ops", []), env)
    fin = spec.get("final")
    if not fin:
        return obj
    if "red" in fin:
        return c37.apply_red(obj, fin["red"])
    return c38.apply_groupby(obj, fin["gb"], fin["agg"], env)


def _has_missing(x):
    try:
        return bool(pd.isna(x).to_numpy().any()) if hasattr(pd.isna(x), "to_numpy") else bool(np.any(pd.isna(x)))
    except Exception:  # noqa: BLE001
        return False


ELEMENTWISE = [True]  # set per case: the program has no final reduction / groupby
BARE = [False]  # set per case: a reduction/groupby directly on the input frame, no row-wise step before
REPLACES = [False]  # set per case: the program contains a value-replacing step (where/mask/fillna/clip/min_count)
UPSTREAM_UPCAST = [False]  # set per case: a value-replacing ROW-WISE step in front of the reduction/groupby really upcast an int column
USER_META = [False]  # set per case: the program passes meta= itself (map/apply/transform/shift)


def _numfam(dt):
    """('np'|'masked', kind) for plain numeric dtypes, else None."""
    if isinstance(dt, np.dtype):
        return ("np", dt.kind) if dt.kind in "iuf" else None
    if isinstance(dt, BaseMaskedDtype):
        k = np.dtype(dt.numpy_dtype).kind
        return ("masked", k) if k in "iuf" else None
    return None


def dtype_ok(meta_dt, got_dt, values, empty_ok):
    if D.dtype_agrees(meta_dt, got_dt):
        return True
    if empty_ok:
        return True
    if USER_META[0]:
        return True  # the dtype was dictated by the program's own meta= argument, not inferred by dask
    if isinstance(meta_dt, np.dtype) and meta_dt.kind in "biu" and len(values) and _has_missing(values):
        # bool/int cannot hold the missing values that are really there (mode padding, NA-key rows, ...):
        # the missingness-driven upcast dask documents as not statically inferable
        return True
    mf, gf = _numfam(meta_dt), _numfam(got_dt)
    if mf is None or gf is None or mf == gf:
        return False  # same family and kind but another width, or not numeric at all: a real difference
    if gf[1] == "f" and mf[1] in "iu" and not ELEMENTWISE[0]:
        # reduction/groupby result: pandas' dtype follows from the input dtypes; integer announced and float
        # computed is acceptable only through missing values
        # ... or through the accepted value-dependent upcast of a where/mask/fillna/clip step in front of it (see
        # below: dask announces int for `ddf.where(cond, nan)`, the data becomes float once a value is replaced);
        # the reduction merely inherits the column's dtype then (mode/max/... of it hold no missing value themselves)
        return len(values) == 0 or _has_missing(values) or UPSTREAM_UPCAST[0]
    # value-dependent numeric upcasts cannot be inferred statically; dask's own check_meta(numeric_equal=True)
    # documents integer and floating dtypes as equal for that reason.  Accepted when the reason is visible:
    # missing values are really there, the program replaces values (where/mask/fillna/clip: an int column
    # becomes float/nullable only if a replacement actually happens), min_count, or the lazy side is the wider
    # one (float announced because the fake data dask infers from contains a missing value, int computed).
    if len(values) == 0 or _has_missing(values) or REPLACES[0]:
        return True
    if BARE[0]:
        # a reduction/groupby applied directly to the input frame: pandas' result dtype follows from the
        # input dtypes, nothing value-dependent is left to excuse a difference
        return False
    return mf[0] == gf[0] and mf[1] == "f" and gf[1] in "iu"


def direction(meta_dt, got_dt):
    """Low-cardinality description of a dtype difference (part of the signature)."""
    def k(dt):
        f = _numfam(dt) if not isinstance(dt, type) else None
        if f:
            return {"i": "int", "u": "int", "f": "float"}[f[1]] + ("" if f[0] == "np" else "-masked")
        if isinstance(dt, np.dtype):
            return {"b": "bool", "O": "object", "M": "datetime", "m": "timedelta"}.get(dt.kind, dt.kind)
        return getattr(dt, "name", None) or getattr(dt, "__name__", "other")

    return f"{k(meta_dt)}->{k(got_dt)}"


def index_facts(ix):
    names = list(ix.names)
    if isinstance(ix, pd.MultiIndex):
        dts = [ix.get_level_values(i).dtype for i in range(ix.nlevels)]
    else:
        dts = [ix.dtype]
    return names, dts


def compare_meta(meta, got, where, sig, empty_ok=False, check_index=True, full=None):
    mk, gk = D.kind_of(meta), D.kind_of(got)
    ensure(mk == gk, f"{where}: lazy kind {mk}, computed {gk} ({type(got).__name__})", "meta-kind-mismatch", where=where.split("[")[0], **sig)
    w = where.split("[")[0]
    if mk == "scalar":
        if meta is pd.NA:
            return  # a lazy NA carries no dtype to disagree with
        mt = np.asarray(meta).dtype if not isinstance(meta, (pd.Timestamp, pd.Timedelta, str)) and meta is not pd.NA else type(meta)
        gt = np.asarray(got).dtype if not isinstance(got, (pd.Timestamp, pd.Timedelta, str)) and got is not pd.NA else type(got)
        if mt != gt:
            # a computed missing value (reduction over nothing) has no dtype information
            ok = _has_missing(np.asarray(got, dtype=object))
            if not ok and isinstance(mt, np.dtype) and isinstance(gt, np.dtype):
                ok = dtype_ok(mt, gt, np.asarray([got]), False)
            ensure(ok, f"{where}: lazy scalar dtype {mt}, computed {gt} ({got!r})", "meta-dtype-mismatch", where=w, change=direction(mt, gt), **sig)
        return
    if mk == "DataFrame":
        ensure(
            list(meta.columns) == list(got.columns),
            f"{where}: lazy columns {list(meta.columns)}, computed {list(got.columns)}",
            "meta-columns-mismatch",
            where=w,
            **sig,
        )
        ensure(
            list(meta.columns.names) == list(got.columns.names),
            f"{where}: lazy column-index names {list(meta.columns.names)}, computed {list(got.columns.names)}",
            "meta-columns-names-mismatch",
            where=w,
            **sig,
        )
        for i, c in enumerate(meta.columns):
            ensure(
                dtype_ok(meta.dtypes.iloc[i], got.dtypes.iloc[i], (full if isinstance(full, pd.DataFrame) and full.shape[1] == got.shape[1] else got).iloc[:, i], empty_ok),
                f"{where}: column {c!r}: lazy dtype {meta.dtypes.iloc[i]}, computed {got.dtypes.iloc[i]}",
                "meta-dtype-mismatch",
                where=w,
                change=direction(meta.dtypes.iloc[i], got.dtypes.iloc[i]),
                **sig,
            )
    elif mk == "Series":
        ensure(_same_name(meta.name, got.name), f"{where}: lazy name {meta.name!r}, computed {got.name!r}", "meta-name-mismatch", where=w, **sig)
        ensure(dtype_ok(meta.dtype, got.dtype, full if isinstance(full, pd.Series) else got, empty_ok), f"{where}: lazy dtype {meta.dtype}, computed {got.dtype}", "meta-dtype-mismatch", where=w, change=direction(meta.dtype, got.dtype), **sig)
    if not check_index:
        return
    mi = meta if mk == "Index" else meta.index
    gi = got if gk == "Index" else got.index
    mn, md = index_facts(mi)
    gn, gd = index_facts(gi)
    ensure(
        len(mn) == len(gn) and all(_same_name(a, b) for a, b in zip(mn, gn)),
        f"{where}: lazy index names {mn}, computed {gn}",
        "meta-index-name-mismatch",
        where=w,
        **sig,
    )
    for a, b, lv in zip(md, gd, range(len(md))):
        vals = gi.get_level_values(lv)
        ensure(dtype_ok(a, b, vals, empty_ok), f"{where}: index level {lv}: lazy dtype {a}, computed {b}", "meta-index-dtype-mismatch", where=w, **sig)


def _same_name(a, b):
    if a is None or b is None:
        return a is None and b is None
    try:
        if pd.isna(a) and pd.isna(b):
            return True
    except (TypeError, ValueError):
        pass
    return a == b and type(a) == type(b) or (isinstance(a, str) and isinstance(b, str) and a == b)


def uses_user_meta(spec):
    # (Series.map(f, meta=(name, dtype)) is NOT exempt: it is elementwise, dask builds its meta on the index of the input
    # frame, and the index facts of the result are checked like everywhere else)
    if any(n.get("op") in ("fmap", "apply_rows") or n.get("e") in ("apply",) for n in D.walk(spec.get("ops", []))):
        return True
    fin = spec.get("final") or {}
    return "agg" in fin and fin["agg"]["kind"] == "transform"


def _str_key(case, g, env):
    """a grouping key (column, derived Series or the index) has pandas' ``str`` dtype (signature flag)"""
    try:
        by = c38.make_by(case.base, g, env)
        if isinstance(by, (list, str)):
            dts = list(case.base[[by] if isinstance(by, str) else by].dtypes)
        else:
            dts = [by.dtype]
        return any(isinstance(dt, pd.StringDtype) for dt in dts)
    except Exception:  # noqa: BLE001
        return False


def _obj_len_all_missing(case, n):
    """signature flag only (no comparison depends on it): node ``n`` is ``<object input column>.str.len()`` and some
    non-empty input partition of that column holds nothing but missing values"""
    if n.get("e") != "acc" or n.get("acc") != "str" or n.get("m") != "len":
        return False
    x = n.get("x") or {}
    if x.get("e") != "col" or x.get("name") not in case.base.columns or case.base[x["name"]].dtype != object:
        return False
    col, lo = case.base[x["name"]], 0
    for s in case.sizes:
        if s and bool(col.iloc[lo : lo + s].isna().all()):
            return True
        lo += s
    return False


def _all_missing_over_nothing(case, got):
    return len(case.pdf) == 0 and isinstance(got, pd.Series) and len(got) > 0 and bool(got.isna().all())


def _upstream_upcast(case, ops, envp, envd):
    """The row-wise part contains a value-replacing step and really turned an integer column into a float one:
    its lazy dtype is an integer, the dtype pandas computes for it a float (same family)."""
    if not any(n.get("op") in ("where", "mask", "fillna", "clip") or n.get("e") in ("where", "mask") or n.get("m") in ("fillna", "clip") for n in D.walk(ops)):
        return False
    try:
        pre_p = D.run_pipeline(case.base, ops, envp)
        pre_l = D.run_pipeline(case.ddf, ops, envd)._meta
        lz = list(pre_l.dtypes) if isinstance(pre_l, pd.DataFrame) else [pre_l.dtype]
        pd_ = list(pre_p.dtypes) if isinstance(pre_p, pd.DataFrame) else [pre_p.dtype]
    except Exception:  # noqa: BLE001
        return False
    if len(lz) != len(pd_):
        return False
    for a, b in zip(lz, pd_):
        fa, fb = _numfam(a), _numfam(b)
        if fa and fb and fa[1] in "iu" and fb[1] == "f":
            return True
    return False


def describe_final(spec):
    fin = spec.get("final")
    if not fin:
        return "none"
    if "red" in fin:
        return "red:" + fin["red"]["name"]
    return "gb:" + fin["agg"].get("name", fin["agg"]["kind"])


def check(spec):
    import dask

    ops = spec.get("ops", [])
    case = D.build_case(spec["frame"], spec.get("clear_div", False))
    envp, envd = D.Env(case, "pd"), D.Env(case, "dd")
    # input classes of the optimizer defects known from C36 ("..._then": the step is followed by another one)
    ops_then = ops + ([{"op": "final"}] if spec.get("final") else [])
    sig = dict(ops="+".join(o["op"] for o in ops), final=describe_final(spec), empty_part=case.has_empty, **c36.flags(ops_then, case)) if ops else dict(
        ops="", final=describe_final(spec), empty_part=case.has_empty
    )
    kinds = [c["kind"] for c in spec["frame"]["columns"]]
    sig["nullable"] = any(k in ("Int64", "Float64", "boolean") for k in kinds)
    sig["zero_rows"] = len(case.pdf) == 0
    sig["obj_col"] = "obj" in kinds
    sig["str_concat"] = any(
        n.get("e") == "bin" and n.get("op") == "add" and isinstance(n.get("r"), dict) and n["r"].get("e") == "lit" and isinstance(n["r"].get("v"), str)
        for n in D.walk(ops)
    )
    sig["str_getitem"] = any(n.get("e") == "acc" and n.get("acc") == "str" and n.get("m") == "getitem" for n in D.walk(ops))
    # input class of the open finding c42-object-column-str-len-missing-object: `.str.len()` of an OBJECT input column
    # of which some non-empty input partition holds only missing values (pandas' result for it is object, not float64)
    sig["obj_str_len_all_missing"] = any(_obj_len_all_missing(case, n) for n in D.walk(ops))
    # input class of the open finding c42-binop-frames-projection-nullable-dtype: frame <op> frame where a NULLABLE input
    # column is selected on one side only (the optimizer's projection pushdown then evaluates `ddf[[]] <op> ddf[[col]]`)
    nullable_cols = {c["name"] for c in spec["frame"]["columns"] if c["kind"] in ("Int64", "Float64", "boolean")}
    sig["frame_frame_onesided_nullable"] = any(
        o["op"] == "frame_frame" and "cols2" in o and bool((set(o["cols"]) ^ set(o["cols2"])) & nullable_cols) for o in ops
    )
    fin = spec.get("final") or {}
    if "red" in fin:
        sig["skipna_false"] = (fin["red"].get("kw") or {}).get("skipna") is False
    if "agg" in fin:
        a, g = fin["agg"], fin["gb"]
        sig["gb_kind"] = a["kind"]
        sig["by"] = "index" if g["by"] == "index" else "series" if isinstance(g["by"], dict) else "cols"
        sig["str_key"] = _str_key(case, g, envp)
    ELEMENTWISE[0] = not spec.get("final")
    USER_META[0] = uses_user_meta(spec)
    BARE[0] = bool(spec.get("final")) and not spec.get("ops")
    def _acc_over_missing(n):
        # .dt.<property> / .str.len() of an input column that really holds missing values: pandas computes float
        # (int without missing values), and a LATER filter may remove the very rows that made it float, so the reason
        # is visible in the input, not in the result
        if n.get("e") != "acc" or not (n.get("prop") or n.get("m") == "len"):
            return False
        x = n.get("x") or {}
        return x.get("e") == "col" and x.get("name") in case.pdf.columns and bool(case.pdf[x["name"]].isna().any())

    REPLACES[0] = any(
        n.get("op") in ("where", "mask", "fillna", "clip") or n.get("e") in ("where", "mask") or n.get("m") in ("fillna", "clip") or "min_count" in (n.get("kw") or {})
        or _acc_over_missing(n)
        for n in D.walk([spec.get("ops", []), spec.get("final") or {}])
    )
    UPSTREAM_UPCAST[0] = False
    with warnings.catch_warnings(), np.errstate(all="ignore"):
        warnings.simplefilter("ignore")
        status, want = reference(run_program, case.base, spec, envp)
        if status == "err":
            raise Reject(f"pandas rejects the program: {want!r}")
        if spec.get("final") and ops and REPLACES[0]:
            UPSTREAM_UPCAST[0] = _upstream_upcast(case, ops, envp, envd)
        try:
            lazy = run_program(case.ddf, spec, envd)
            if not D.is_dask(lazy):
                raise Reject("program result is not lazy (len)")
            meta = lazy._meta
            got = F.compute(lazy)
        except Reject:
            raise
        except Exception as e:  # noqa: BLE001
            # crashes are C36/C37/C38's business, not a meta mismatch
            count("dask-raised:" + type(e).__name__)
            raise Reject(f"dask raises: {type(e).__name__}") from None
        # the public views of the lazy metadata
        if D.kind_of(meta) == "DataFrame":
            ensure(list(lazy.columns) == list(meta.columns) and list(lazy.dtypes) == list(meta.dtypes), ".columns/.dtypes differ from _meta", "meta-views-disagree", **sig)
        if D.kind_of(meta) in ("DataFrame", "Series"):
            ensure(_same_name(lazy.index.name, meta.index.name), f".index.name {lazy.index.name!r} differs from _meta {meta.index.name!r}", "meta-views-disagree", **sig)
        if D.kind_of(meta) == "Series":
            ensure(_same_name(lazy.name, meta.name) and lazy.dtype == meta.dtype, ".name/.dtype differ from _meta", "meta-views-disagree", **sig)
        # user-supplied meta of the form (name, dtype) / {column: dtype} says nothing about the index
        check_index = not uses_user_meta(spec)
        # zero input rows: the full result is computed from no data at all, which is the empty-partition
        # situation (pandas' dtypes over nothing are data dependent) rather than a full result
        nothing = len(case.pdf) == 0 and hasattr(got, "__len__") and len(got) == 0
        if _all_missing_over_nothing(case, got):
            # zero input rows and a reduction whose entries are ALL missing (min/max/mean/... over nothing): as for
            # a scalar result, missing values carry no dtype information - pandas makes the Series float64 where any
            # non-empty input gives what dask announces (e.g. min over an int and a bool column: object)
            nothing = True
        if not nothing and hasattr(got, "__len__") and len(got) == 0:
            # the same situation reached through the program itself: a filter removed EVERY row, so all later
            # steps (and the final reduction/groupby) ran over no rows in every partition.  pandas' dtypes over
            # nothing differ from any non-empty input (e.g. empty str column + "!" is object, non-empty is str)
            # while dask's lazy dtype is the non-empty one.  Only when the row-wise part already yields zero rows.
            st_, pre = reference(D.run_pipeline, case.base, ops, envp)
            nothing = st_ == "ok" and hasattr(pre, "__len__") and len(pre) == 0
        compare_meta(meta, got, "full result", sig, check_index=check_index, empty_ok=nothing)
        if D.kind_of(meta) == "scalar":
            return
        try:
            nparts = lazy.npartitions
            parts = dask.compute(*[lazy.partitions[i] for i in range(nparts)], scheduler="sync")
        except Exception as e:  # noqa: BLE001
            count("partition-compute-raised:" + type(e).__name__)
            raise Reject(f"computing single partitions raises: {type(e).__name__}") from None
    for i, p in enumerate(parts):
        empty = (hasattr(p, "__len__") and len(p) == 0) or _all_missing_over_nothing(case, p)
        # (int announced / float computed in a partition is attributed to missing values anywhere in the full result)
        compare_meta(meta, p, f"partition[{i}/{nparts}]", sig, empty_ok=empty, check_index=check_index, full=got)
    count("partitions-checked", len(parts))
    count("empty-partitions-checked", sum(1 for p in parts if hasattr(p, "__len__") and len(p) == 0))


DTYPE_CHANGING = {"astype", "frame_bin", "frame_frame", "where", "mask", "isin", "fmap", "apply_rows", "assign", "expr", "fillna", "clip", "abs", "neg", "round"}


def nontrivial(spec):
    c = D.case_info(spec["frame"], spec.get("clear_div", False))
    if c is None or not c.has_empty:
        return False
    return bool(spec.get("final")) or any(o["op"] in DTYPE_CHANGING for o in spec.get("ops", []))


def classes(spec):
    yield from D.frame_classes(spec)
    yield "len-%d" % len(spec.get("ops", []))
    for o in spec.get("ops", []):
        yield "op:" + o["op"]
    yield "final-" + describe_final(spec)
    for f in D.features(spec.get("ops", [])):
        if not f.startswith("op:"):
            yield f


@st.composite
def random_case(draw):
    which = draw(st.sampled_from(["rowwise", "rowwise", "red", "gb"]))
    if which == "gb":
        base = draw(c38.random_case())
        fs = base["frame"]
        final = {"gb": base["gb"], "agg": base["agg"]}
        ops = []
        # a row-wise step in front that keeps all columns (filter / assign of a new column)
        if draw(st.integers(0, 2)) == 0:
            schema = D.schema_of(fs)
            ctx = {"schema0": schema, "allow_other": False, "allow_root": False, "nonzero_div": True, "pos": 0, "no_float32": True}
            pred = D.gen_bool(draw, schema, ctx)
            if pred is not None:
                ops = [{"op": "filter", "pred": pred}]
    else:
        req = [draw(F.column_spec("a", D.NUM_KINDS)), draw(F.column_spec("b", ["str", "obj", "datetime", "cat", "float", "int"]))]
        fs = draw(F.frame_spec(max_rows=24, required=req, min_cols=0, max_cols=3))
        final = None
        if which == "rowwise":
            ops = D.gen_pipeline(draw, fs, max_ops=3, allow_other=False, nonzero_div=True)
        else:
            ops = []
            schema = D.schema_of(fs)
            if draw(st.booleans()):
                ctx = {"schema0": schema, "allow_other": False, "allow_root": False, "nonzero_div": True, "pos": 0, "no_float32": True}
                for _ in range(3):
                    op, sch, is_series = D.gen_frame_op(draw, schema, ctx, last=False)
                    if sch and not is_series:
                        ops, schema = [op], sch
                        break
            red = None
            for _ in range(6):
                red = c37.gen_red(draw, schema)
                if red is not None and red["name"] != "len":
                    break
                red = None
            final = {"red": red} if red else None
    # bias the partitioning towards hand cuts with empty partitions
    if draw(st.integers(0, 2)) > 0:
        n = fs["nrows"]
        cuts = draw(st.lists(st.integers(0, max(n, 0)), min_size=1, max_size=4))
        if draw(st.booleans()) and cuts:
            cuts = cuts + [cuts[0]]  # a repeated cut point = an empty partition
        fs = dict(fs)
        fs["partition"] = {"how": "cuts", "cuts": cuts, "divisions": draw(st.booleans())}
    return {"frame": fs, "clear_div": draw(st.integers(0, 5)) == 0, "ops": ops, "final": final}


def grid_cases(tier):
    """Index facts of the lazy meta: every index kind x name x partitioning under the operations that build their meta
    from a user-supplied (name, dtype) / dtype argument or rebuild the index (map with tuple meta, assign of a mapped
    column, astype, rename, row-wise arithmetic, filter)."""
    import itertools

    cols = [{"kind": "int", "name": "a"}, {"kind": "float", "name": "b", "nan": 0.2}, {"kind": "str", "name": "c", "nan": 0.0}]
    mp = {"e": "map", "x": {"e": "col", "name": "a"}, "fn": "inc", "meta": "int64"}
    programs = [
        [{"op": "expr", "value": mp}],
        [{"op": "assign", "name": "z", "value": mp}],
        [{"op": "assign", "name": "a", "value": mp}, {"op": "project", "cols": ["a", "b"]}],
        [{"op": "expr", "value": {"e": "bin", "l": {"e": "col", "name": "a"}, "op": "add", "r": {"e": "lit", "v": 1}}}],
        [{"op": "filter", "pred": {"e": "bin", "l": {"e": "col", "name": "a"}, "op": "gt", "r": {"e": "lit", "v": 0}}}],
        [{"op": "getcol", "col": "c"}],
    ]
    kinds = ["range", "sorted_unique", "sorted_dups", "unsorted", "datetime", "str"]
    parts = [{"how": "npartitions", "n": 1, "sort": True}, {"how": "npartitions", "n": 3, "sort": True}, {"how": "cuts", "cuts": [0, 4, 4], "divisions": False}]
    for kind, name, part, ops in itertools.product(kinds, [None, "idx"], parts, programs):
        if part["how"] == "cuts" and kind in ("unsorted",):
            continue
        frame = {"columns": cols, "index": {"kind": kind, "name": name}, "nrows": 9, "seed": 5, "partition": part}
        yield {"clear_div": False, "final": None, "frame": frame, "ops": ops}


def grid_nontrivial(spec):
    return spec["frame"]["index"]["kind"] != "range" or spec["frame"]["index"]["name"] is not None


def astype_grid_cases(tier):
    """astype to a categorical given as the string 'category' and as a CategoricalDtype() INSTANCE without categories (per
    column in a dict, for one or two columns), alone and followed by a projection / a filter, on 1 and 3 partitions whose
    values differ: the lazy meta must not claim categories the partitions do not carry."""
    import itertools

    cols = [{"kind": "int", "name": "a"}, {"kind": "str", "name": "c", "nan": 0.0}, {"kind": "str", "name": "d", "nan": 0.2}]
    cat_s, cat_i = "category", {"catdtype": {}}
    dts = [[["c", cat_s]], [["c", cat_i]], [["c", cat_i], ["d", cat_i]], [["c", cat_s], ["d", cat_i]], [["d", cat_i], ["a", "float64"]]]
    tails = [[], [{"op": "project", "cols": ["c", "a"]}], [{"op": "getcol", "col": "c"}],
             [{"op": "filter", "pred": {"e": "bin", "l": {"e": "col", "name": "a"}, "op": "gt", "r": {"e": "lit", "v": 0}}}]]
    parts = [{"how": "npartitions", "n": 1, "sort": True}, {"how": "npartitions", "n": 3, "sort": True}]
    for dt, tail, part, seed in itertools.product(dts, tails, parts, (5, 6)):
        if tail and tail[0]["op"] in ("project", "getcol") and not any(n == "c" for n, _ in dt):
            continue
        frame = {"columns": cols, "index": {"kind": "range", "name": None}, "nrows": 9, "seed": seed, "partition": part}
        yield {"clear_div": False, "final": None, "frame": frame, "ops": [{"op": "astype", "dtypes": {"dict": dt}}] + tail}


SUBCHECKS = [
    Sub(
        "random",
        check,
        strategy=lambda tier: random_case(),
        n={"quick": 1600, "thorough": 30000},
        nontrivial=nontrivial,
        classes=classes,
        doc="random programs (row-wise steps, optional reduction or groupby) on frames with empty partitions: lazy _meta vs computed result and every computed partition",
    ),
    Sub(
        "astype-grid",
        check,
        kind="enum",
        cases=astype_grid_cases,
        nontrivial=lambda spec: spec["frame"]["partition"]["n"] > 1,
        classes=classes,
        exhaustive=True,
        doc="astype to 'category' vs CategoricalDtype() instance (dict per column) x following projection/filter x 1|3 partitions: lazy meta vs computed result and partitions",
    ),
    Sub(
        "grid",
        check,
        kind="enum",
        cases=grid_cases,
        nontrivial=grid_nontrivial,
        classes=classes,
        exhaustive=True,
        doc="index kind x index name x partitioning x six small programs (map with tuple meta, assign, arithmetic, filter, column access): index name/dtype of the lazy meta vs computed",
    ),
]
