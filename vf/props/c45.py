"""C45 — division planning never splits equal index values.

Anchors: dask.dataframe.io.io.sorted_division_locations (what from_pandas
calls with ``data.index``), dask.dataframe.partitionquantiles (via
``Series._repartition_quantiles``) and the quantile based divisions chosen by
``set_index``.
"""
from __future__ import annotations

import itertools

import numpy as np
import pandas as pd
from hypothesis import strategies as st

from vf.core import Reject, Sub, count, ensure, impl, short, time_limit

PROPERTY = "C45"
PRELOAD = ["dask.dataframe"]
LEVEL = "exploration"
RULE = (
    "enum (exhaustive): every sorted sequence of length 1..7 (quick) / 1..8 (thorough) over a 4-symbol alphabet, once as "
    "letters and once as small ints, once as a NumPy array and once as a pd.Index (what from_pandas passes; plain lists "
    "are outside the domain), x every npartitions 1..9 and every chunksize 1..9, fed to sorted_division_locations. "
    "random: sorted int/float/str/datetime sequences of 1..400 elements with runs of duplicates, npartitions/chunksize "
    "1..40. quantiles: Series._repartition_quantiles and set_index(col).divisions on random NaN-free columns "
    "(int, float, str, datetime, heavy-duplicate keys) with 1..6 input partitions incl. empty ones. "
    "Non-trivial: (locations) the sequence has a run of equal values longer than the target chunk, so the ideal cut "
    "falls inside a run; (quantiles) >= 2 input partitions and >= 2 requested output partitions."
)
ASSUMPTIONS = [
    "sequences are sorted ascending and passed as NumPy arrays or pd.Index objects, as from_pandas does",
    "quantile inputs contain no missing values (dask documents that nulls in a future index are not fully supported)",
    "python/NumPy ordering of the drawn scalars is the reference order",
]
TECHNIQUE = "exhaustive enumeration of small sorted sequences plus Hypothesis-generated larger ones; explicit oracle over the returned divisions/locations"

ALPHA = "abcd"


# --------------------------------------------------------------------------
# sorted_division_locations


def build_seq(spec):
    vals = spec["seq"]
    k = spec.get("kind", "int")
    if k == "str":
        vals = [ALPHA[v] if isinstance(v, int) else v for v in vals]
        arr = np.array(vals, dtype=object)
    elif k == "float":
        arr = np.array(vals, dtype="float64")
    elif k == "datetime":
        arr = np.datetime64("2020-01-01", "ns") + np.array(vals, dtype="int64").astype("m8[h]").astype("m8[ns]")
    else:
        arr = np.array(vals, dtype="int64")
    if spec.get("as", "np") == "index":
        return pd.Index(arr)
    return arr


def run_length_max(vals):
    return max(len(list(g)) for _, g in itertools.groupby(vals))


def target_chunk(spec):
    n = len(spec["seq"])
    if spec["mode"] == "npartitions":
        return max(n // spec["n"], 1)
    return spec["n"]


def check_locations(spec):
    from dask.dataframe.io.io import sorted_division_locations

    seq = build_seq(spec)
    ref = list(seq.tolist())  # plain python scalars (Timestamp ints for datetimes are fine: only order/equality used)
    if isinstance(seq, pd.Index) and spec.get("kind") == "datetime":
        ref = list(seq)
    n = len(ref)
    sig = dict(op="sorted_division_locations", mode=spec["mode"])
    with impl("sorted_division_locations", **sig), time_limit(5, "sorted_division_locations", **sig):
        divisions, locations = sorted_division_locations(seq, **{spec["mode"]: spec["n"]})
    divisions, locations = list(divisions), [int(x) for x in locations]
    ctx = f"seq={short(ref, 120)} {spec['mode']}={spec['n']} -> divisions={short(divisions, 120)} locations={locations}"
    ensure(len(divisions) == len(locations) and len(locations) >= 2, f"lengths differ: {ctx}", "shape", **sig)
    ensure(locations[0] == 0 and locations[-1] == n, f"locations do not span [0, len]: {ctx}", "span", **sig)
    ensure(all(a < b for a, b in zip(locations, locations[1:])), f"locations not strictly increasing: {ctx}", "not-increasing", **sig)
    for i, loc in enumerate(locations[:-1]):
        ensure(divisions[i] == ref[loc], f"division {i} is not the value at its location: {ctx}", "division-value", **sig)
    ensure(divisions[-1] == ref[-1], f"last division is not the last value: {ctx}", "division-value", **sig)
    for loc in locations[1:-1]:
        ensure(ref[loc - 1] < ref[loc], f"equal values straddle the boundary at {loc}: {ctx}", "straddle", **sig)
    nparts = len(locations) - 1
    distinct = len(set(ref))
    if spec["mode"] == "npartitions":
        want = spec["n"]
        ensure(nparts <= want, f"more partitions than requested: {ctx}", "too-many-partitions", **sig)
        if distinct >= want:
            ensure(nparts == want, f"{distinct} distinct values allow {want} partitions, got {nparts}: {ctx}", "npartitions-not-met", **sig)
        else:
            ensure(nparts < want, f"only {distinct} distinct values but {nparts} partitions: {ctx}", "too-many-partitions", **sig)
    else:
        ensure(nparts <= distinct, f"more partitions than distinct values: {ctx}", "too-many-partitions", **sig)


def nt_locations(spec):
    vals = spec["seq"]
    return run_length_max(vals) > target_chunk(spec) and len(set(vals)) >= 2


def cls_locations(spec):
    yield spec["mode"]
    yield "kind-" + spec.get("kind", "int") + "-" + spec.get("as", "np")
    vals = spec["seq"]
    if len(set(vals)) == len(vals):
        yield "no-duplicates"
    if spec["mode"] == "npartitions":
        yield "distinct>=n" if len(set(vals)) >= spec["n"] else "distinct<n"
        if spec["n"] > len(vals):
            yield "npartitions>len"


def enum_cases(tier):
    lmax = 7 if tier == "quick" else 8
    for L in range(1, lmax + 1):
        for comb in itertools.combinations_with_replacement(range(4), L):
            for kind in ("str", "int"):
                for as_ in ("np", "index"):
                    for mode in ("npartitions", "chunksize"):
                        for k in range(1, 10):
                            yield {"seq": list(comb), "kind": kind, "as": as_, "mode": mode, "n": k}


@st.composite
def random_seq(draw):
    kind = draw(st.sampled_from(["int", "int", "float", "str", "datetime"]))
    nruns = draw(st.integers(1, 25))
    # runs of equal values: construction of a sorted sequence with controlled duplicate structure
    lens = draw(st.lists(st.sampled_from([1, 1, 1, 2, 3, 5, 8, 20]), min_size=nruns, max_size=nruns))
    gaps = draw(st.lists(st.integers(1, 3), min_size=nruns, max_size=nruns))
    v = draw(st.integers(-5, 5))
    vals = []
    for ln, g in zip(lens, gaps):
        v += g
        vals += [v] * ln
    if kind == "float":
        vals = [x / 2 for x in vals]
    elif kind == "str":
        vals = [f"k{x + 10:03d}" for x in vals]
    mode = draw(st.sampled_from(["npartitions", "chunksize"]))
    return {"seq": vals, "kind": kind, "as": draw(st.sampled_from(["np", "index"])), "mode": mode, "n": draw(st.integers(1, 40))}


# --------------------------------------------------------------------------
# quantile based divisions


def build_series(spec):
    rng = np.random.default_rng(spec["seed"])
    n = spec["nrows"]
    k = spec["kind"]
    if k == "int":
        x = rng.integers(-1000, 1000, size=n)
    elif k == "key":
        x = rng.integers(0, spec.get("card", 3), size=n)
    elif k == "float":
        x = np.round(rng.normal(0, 100, size=n), 2)
    elif k == "str":
        x = np.array([f"s{i:03d}" for i in rng.integers(0, spec.get("card", 50), size=n)], dtype=object)
    elif k == "datetime":
        x = np.datetime64("2021-01-01", "ns") + rng.integers(0, 500, size=n).astype("m8[h]").astype("m8[ns]")
    else:
        raise ValueError(k)
    if spec.get("presorted"):
        x = np.sort(x)
    return pd.DataFrame({"k": x, "v": np.arange(n)})


def build_parts(spec, pdf):
    import dask.dataframe as dd
    from vf.frames import _Piece

    cuts = [0] + sorted(min(c, len(pdf)) for c in spec["cuts"]) + [len(pdf)]
    pieces = [pdf.iloc[a:b] for a, b in zip(cuts, cuts[1:])]
    return dd.from_map(_Piece(pieces), list(range(len(pieces))), meta=pdf.iloc[:0])


def _check_divs(divs, pdf, what, sig, want_n=None):
    divs = list(divs)
    lo, hi = pdf["k"].min(), pdf["k"].max()
    ctx = f"{what}: divisions={short(divs, 200)} data min={lo!r} max={hi!r}"
    ensure(not any(pd.isna(d) for d in divs), f"missing value among divisions: {ctx}", "na-division", **sig)
    ensure(all(a <= b for a, b in zip(divs, divs[1:])), f"divisions decrease: {ctx}", "not-sorted", **sig)
    ensure(divs[0] == lo, f"first division is not the minimum: {ctx}", "first-not-min", **sig)
    ensure(divs[-1] == hi, f"last division is not the maximum: {ctx}", "last-not-max", **sig)
    if want_n is not None:
        ensure(len(divs) == want_n + 1, f"{len(divs)} quantiles for npartitions={want_n}: {ctx}", "count", **sig)


def check_quantiles(spec):
    import dask

    pdf = build_series(spec)
    if len(pdf) == 0:
        raise Reject("empty")
    ddf = build_parts(spec, pdf)
    nout = spec["npartitions"]
    sig = dict(op=spec["api"], kind=spec["kind"])
    with dask.config.set({"dataframe.shuffle.method": "tasks"}):
        if spec["api"] == "repartition_quantiles":
            with impl("_repartition_quantiles", **sig):
                q = ddf["k"]._repartition_quantiles(nout, upsample=spec.get("upsample", 1.0)).compute(scheduler="sync")
            _check_divs(list(q), pdf, "_repartition_quantiles", sig, want_n=nout)
        else:
            with impl("set_index", **sig):
                out = ddf.set_index("k", npartitions=nout, upsample=spec.get("upsample", 1.0))
                divs = out.divisions
            if not out.known_divisions:
                # set_index to a single partition (npartitions=1 or one input partition) deliberately skips the
                # quantile computation and reports unknown divisions: no quantile divisions exist to judge.
                ensure(nout == 1 or ddf.npartitions == 1, "set_index over several partitions returned unknown divisions", "unknown-divisions", **sig)
                count("set_index-single-partition-unknown")
                return
            count("set_index-known-divisions")
            # (whether .npartitions agrees with len(divisions)-1 is C41's clause, not judged here)
            ensure(len(divs) - 1 <= max(nout, 1), f"more divisions ({len(divs)}) than npartitions={nout} allows", "too-many-partitions", **sig)
            _check_divs(divs, pdf, "set_index().divisions", sig)
            # set_index drops duplicate quantiles (except the last): strictly increasing up to the final pair
            ensure(all(a < b for a, b in zip(divs[:-2], divs[1:-1])), f"interior divisions repeat: {short(divs)}", "not-sorted", **sig)


def nt_quantiles(spec):
    return len([c for c in spec["cuts"] if 0 < c < spec["nrows"]]) >= 1 and spec["npartitions"] >= 2 and spec["nrows"] >= 4


def cls_quantiles(spec):
    yield spec["api"]
    yield "kind-" + spec["kind"]
    cuts = [0] + sorted(min(c, spec["nrows"]) for c in spec["cuts"]) + [spec["nrows"]]
    if any(a == b for a, b in zip(cuts, cuts[1:])):
        yield "empty-input-partition"
    if spec.get("presorted"):
        yield "presorted"


@st.composite
def quantile_case(draw):
    n = draw(st.sampled_from([1, 2, 3, 5, 8, 13, 30, 80, 200]))
    kind = draw(st.sampled_from(["int", "key", "float", "str", "datetime"]))
    spec = {
        "nrows": n,
        "seed": draw(st.integers(0, 2**16)),
        "kind": kind,
        "card": draw(st.sampled_from([1, 2, 3, 6, 50])),
        "presorted": draw(st.booleans()),
        "cuts": draw(st.lists(st.integers(0, n), min_size=0, max_size=5)),
        "npartitions": draw(st.integers(1, 8)),
        "upsample": draw(st.sampled_from([1.0, 1.0, 0.3, 4.0])),
        "api": draw(st.sampled_from(["repartition_quantiles", "set_index"])),
    }
    return spec


SUBCHECKS = [
    Sub(
        "enum",
        check_locations,
        kind="enum",
        cases=enum_cases,
        nontrivial=nt_locations,
        classes=cls_locations,
        exhaustive=True,
        doc="all sorted sequences (len<=7 quick, <=8 thorough) over 4 symbols x {letters, ints} x {ndarray, pd.Index} x npartitions 1..9 and chunksize 1..9",
    ),
    Sub(
        "random",
        check_locations,
        strategy=lambda tier: random_seq(),
        n={"quick": 3000, "thorough": 60000},
        nontrivial=nt_locations,
        classes=cls_locations,
        doc="random longer sorted sequences (int/float/str/datetime) with runs of duplicates",
    ),
    Sub(
        "quantiles",
        check_quantiles,
        strategy=lambda tier: quantile_case(),
        n={"quick": 600, "thorough": 12000},
        nontrivial=nt_quantiles,
        classes=cls_quantiles,
        doc="_repartition_quantiles / set_index divisions: non-decreasing, first == min, last == max",
    ),
]
