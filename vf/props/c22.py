"""C22 — reductions and scans equal NumPy for every chunking, axis selection, keepdims and split_every."""
from __future__ import annotations

import itertools
import warnings

import numpy as np
from hypothesis import strategies as st

from vf import arrays as A
from vf.core import Reject, Sub, Violation, count, ensure, impl, reference, short
from vf.props import _arrcommon1 as C

PROPERTY = "C22"
PRELOAD = ["dask.array"]
LEVEL = "exploration"
RULE = (
    "enum: shapes (4,), (5,), (3,2) (thorough also (6,), (4,3), (2,2,3)) under ALL chunkings x two data sets (int64 with "
    "many ties; float64 with one NaN, for the nan-arg/nanmin/nanmax/nanmean/nansum operations on 2-d shapes also with an all-NaN "
    "column) x every operation of the statement (sum prod min max any all mean var std moment, "
    "nan-variants, argmin/argmax/nanargmin/nanargmax, cumsum/cumprod/nancumsum/nancumprod sequential and blelloch, "
    "topk/argtopk +-k, median/nanmedian/quantile) x every axis selection the operation accepts (None, each int, every "
    "tuple) x keepdims, each evaluated for split_every in {None, 2, 3, {axis: 2}}; random: arrays of 1-3 dims (sides 1..7; "
    "dtypes bool/int32/int64/uint8/float32/float64; NaN/inf/-0.0 injected; random chunkings, ~10% with explicit zero-size "
    "chunks as a separate stratum; for nan-operations sometimes an all-NaN hyperplane), random op/axis/keepdims/ddof/order/k/q/"
    "method and two different split_every values "
    "whose results must also agree with each other. Oracle: the NumPy function on the concatenated data: exact for "
    "min/max/any/all/arg*/topk/median/quantile and integer data, summation-order tolerance (vf.arrays.sum_tolerance; "
    "squared scale for var/moment, std compared through its square) for float sums/means/variances/products/scans; same "
    "dtype and shape; lazy shape/dtype equal the computed ones; arg*: the returned index must be NumPy's (first occurrence "
    "in C order); argtopk: values at the returned indices; if NumPy raises (all-NaN slice) dask must raise too. "
    "Non-trivial: a reduced/scanned axis is split into >=3 chunks of unequal sizes including a chunk of size 0 or 1 and "
    "split_every=2 (or {axis: 2}) forces >=2 tree levels."
)
ASSUMPTIONS = [
    "integer contents are small; integer sums/products wrap modulo 2**64 identically in any association order",
    "float products use small magnitudes so that no intermediate overflows (inf*0 would be order dependent)",
    "ddof with N - ddof <= 0 (NumPy warns 'Degrees of freedom <= 0' and clips) is outside the property",
    "topk/argtopk are checked for |k| <= axis length against sort-based references; argtopk through the values it selects "
    "(ties make the index itself ambiguous)",
    "median/nanmedian need an axis, quantile axis=None only for single-block arrays (dask refuses otherwise: counted as "
    "out-of-domain)",
    "length-1 axes split into several blocks by an explicit zero-size chunk are not generated (C19's listed finding)",
    "zero-length axes (empty arrays) are not explored: a probe over shapes (0,), (0,2), (2,0), (0,0), (2,0,2) showed at "
    "least six unrelated deviations confined to them (min/max over a non-empty axis of an empty array raise or return the "
    "wrong shape, min/max over the empty axis return [] where NumPy raises, nanmin/nanmax refuse every empty array, "
    "nanmedian TypeError, median ZeroDivisionError in the auto-rechunk, cumsum(axis=None) TypeError in reshape, topk with "
    "k > 0 reports a lazy length k); explicit zero-size chunks of non-empty arrays remain a ~10% stratum of the random "
    "sub-check with their own sig flags (zero_chunk, zero_chunk_on_reduced_axis)",
]
TECHNIQUE = "differential testing against NumPy over exhaustive chunkings x ops x axes x keepdims x split_every and Hypothesis-generated arrays"

REDUCE = ["sum", "prod", "min", "max", "any", "all", "mean", "var", "std", "nansum", "nanprod", "nanmin", "nanmax", "nanmean", "nanvar", "nanstd", "moment"]
ARG = ["argmin", "argmax", "nanargmin", "nanargmax"]
SCAN = ["cumsum", "cumprod", "nancumsum", "nancumprod"]
TOPK = ["topk", "argtopk"]
ORDER = ["median", "nanmedian", "quantile"]
EXACT = {"min", "max", "any", "all", "nanmin", "nanmax", "argmin", "argmax", "nanargmin", "nanargmax", "topk", "argtopk", "median", "nanmedian", "quantile"}
SPLITS = [None, 2, 3, "dict"]


def norm_axes(axis, ndim):
    if axis is None:
        return list(range(ndim))
    if isinstance(axis, int):
        return [axis % ndim] if ndim else []
    return [a % ndim for a in axis]


def split_arg(se, axes):
    if se == "dict":
        return {a: 2 for a in axes}
    return se


# --------------------------------------------------------------------------
# references


def np_reference(case, x):
    op = case["op"]
    axis = case["axis"]
    axis = tuple(axis) if isinstance(axis, list) else axis
    kd = case.get("keepdims", False)
    if op in ("var", "std", "nanvar", "nanstd"):
        return getattr(np, op)(x, axis=axis, keepdims=kd, ddof=case.get("ddof", 0))
    if op == "moment":
        order = case["order"]
        m = x.mean(axis=axis, keepdims=True)
        n = x.size // max(m.size, 1) if m.size else 0
        dev = (x - m) ** order
        return dev.sum(axis=axis, keepdims=kd) / (n - case.get("ddof", 0))
    if op in REDUCE or op in ARG:
        return getattr(np, op)(x, axis=axis, keepdims=kd)
    if op in SCAN:
        return getattr(np, op)(x, axis=axis, **({"dtype": case["dtype"]} if case.get("dtype") else {}))
    if op in TOPK:
        k = case["k"]
        ax = axis
        if op == "topk":
            s = np.sort(x, axis=ax)
            sl = [slice(None)] * x.ndim
            sl[ax] = slice(None, None, -1) if k > 0 else slice(None)
            s = s[tuple(sl)]
            sl[ax] = slice(0, abs(k))
            return s[tuple(sl)]
        return np_reference(dict(case, op="topk"), x)  # argtopk: compared through the selected values
    if op in ("median", "nanmedian"):
        return getattr(np, op)(x, axis=axis, keepdims=kd)
    if op == "quantile":
        q = case["q"]
        return np.quantile(x, q if isinstance(q, float) else np.asarray(q), axis=axis, keepdims=kd, method="linear")
    raise ValueError(op)


def da_apply(case, d, se):
    import dask.array as da

    op = case["op"]
    axis = case["axis"]
    axis = tuple(axis) if isinstance(axis, list) else axis
    kd = case.get("keepdims", False)
    sev = split_arg(se, norm_axes(axis, d.ndim))
    if op in ("var", "std", "nanvar", "nanstd"):
        return getattr(da, op)(d, axis=axis, keepdims=kd, ddof=case.get("ddof", 0), split_every=sev)
    if op == "moment":
        return da.moment(d, case["order"], axis=axis, keepdims=kd, ddof=case.get("ddof", 0), split_every=sev)
    if op in REDUCE or op in ARG:
        return getattr(da, op)(d, axis=axis, keepdims=kd, split_every=sev)
    if op in SCAN:
        return getattr(da, op)(d, axis=axis, method=case.get("method", "sequential"), **({"dtype": case["dtype"]} if case.get("dtype") else {}))
    if op in TOPK:
        return getattr(da, op)(d, case["k"], axis=axis, split_every=sev)
    if op in ("median", "nanmedian"):
        return getattr(da, op)(d, axis=axis, keepdims=kd)
    if op == "quantile":
        q = case["q"]
        return da.quantile(d, q if isinstance(q, float) else np.asarray(q), axis=axis, keepdims=kd)
    raise ValueError(op)


def uses_split(op):
    return op in REDUCE or op in ARG or op in TOPK


# --------------------------------------------------------------------------
# comparison


def tolerances(op, x, axes, case):
    """(rtol, atol) implied by the association order of the operation on data x (integer data: the float64 result of
    mean/var/... is rounded differently for a different order of the same exact partial sums)."""
    xf = x if x.dtype.kind in "fc" else x.astype("f8")
    n = 1
    for a in axes:
        n *= x.shape[a]
    n = max(n, 1)
    eps = np.finfo(xf.dtype).eps
    finite = np.abs(xf[np.isfinite(xf)]) if xf.size else np.zeros(0)
    mx = float(finite.max()) if finite.size else 0.0
    if op in ("sum", "nansum", "mean", "nanmean", "cumsum", "nancumsum"):
        return A.sum_tolerance(xf, n)
    if op in ("prod", "nanprod", "cumprod", "nancumprod"):
        return 32 * eps * n, 1e-300
    if op in ("var", "nanvar", "std", "nanstd", "moment"):
        order = case.get("order", 2) if op == "moment" else 2
        return 64 * eps * n, 64 * eps * n * (2 * mx + 1.0) ** order
    return 0.0, 0.0


def close(op, got, want, x, axes, case, slack=1.0):
    """Exact for exact operations and non-float results, otherwise within the summation-order tolerance; std is compared
    through its square (sqrt amplifies the rounding of a variance near zero without bound)."""
    if op in EXACT or got.dtype.kind not in "fc":
        return np.array_equal(got, want, equal_nan=got.dtype.kind in "fc")
    rtol, atol = tolerances(op, x, axes, case)
    g, w = (got.astype("f8") ** 2, want.astype("f8") ** 2) if op in ("std", "nanstd") else (got, want)
    with np.errstate(all="ignore"):
        return np.allclose(g, w, rtol=slack * rtol, atol=slack * atol, equal_nan=True)


def compare(op, got, want, x, axes, case, sig, what):
    got = np.asarray(got)
    want = np.asarray(want)
    if got.shape != want.shape:
        raise Violation(f"{what}: shape {got.shape} != numpy {want.shape}", "shape-mismatch", **sig)
    if got.dtype != want.dtype:
        raise Violation(f"{what}: dtype {got.dtype} != numpy {want.dtype}", "dtype-mismatch", **sig)
    if got.size == 0:
        return
    if not close(op, got, want, x, axes, case):
        raise Violation(f"{what}: dask {A.describe(got)} != numpy {A.describe(want)}", "value-mismatch", **sig)


# --------------------------------------------------------------------------
# structural facts


def reduced_axes(case):
    nd = len(case["array"]["shape"])
    if case["op"] in SCAN:
        return list(range(nd)) if case["axis"] is None else norm_axes(case["axis"], nd)
    return norm_axes(case["axis"], nd)


def zero_chunk_on_reduced_axis(case):
    ch = case["array"]["chunks"]
    return any(len(ch[a]) > 1 and 0 in ch[a] for a in reduced_axes(case))


def arg_axis_none_multichunk(case):
    """arg-reduction over the flattened array (axis=None) of a >=2-d array that is chunked along an axis other than the
    first: the chunk-grid order then differs from the C order of the elements."""
    ch = case["array"]["chunks"]
    return case["op"] in ARG and case["axis"] is None and len(ch) >= 2 and any(len(c) > 1 for c in ch[1:])


def k_ge_axis_len(case):
    if case["op"] not in TOPK:
        return False
    shape = case["array"]["shape"]
    return abs(case["k"]) >= shape[case["axis"] % len(shape)]


def topk_partials_fit_k(case):
    """The final aggregation step of the tree receives >= 2 partial results that together hold no more than |k| elements,
    so that no partition step is needed there: always when |k| >= the axis length (>= 2 blocks); with explicit zero-size
    chunks also for smaller |k|, depending on how split_every groups the blocks (the tree of dask.array's _tree_reduce is
    simulated: each block / group contributes min(|k|, its length) elements).  True if it holds for one of the case's
    split_every values."""
    if case["op"] not in TOPK:
        return False
    ch = case["array"]["chunks"]
    c = ch[case["axis"] % len(ch)]
    k = abs(case["k"])
    if len(c) < 2:
        return False
    for se in case.get("splits", [None]):
        se = {None: 4, "dict": 2}.get(se, se)
        lens = [min(k, n) for n in c]
        while len(lens) > se:
            lens = [min(k, sum(lens[i : i + se])) for i in range(0, len(lens), se)]
        if len(lens) >= 2 and sum(lens) <= k:
            return True
    return False


def tied_extremum(case, x):
    """The extremum the arg-reduction looks for occurs more than once (NaN counts as the extremum for the non-nan
    variants, as in NumPy) in at least one reduced slice."""
    op = case["op"]
    if op not in ARG or x.size == 0:
        return False
    axis = case["axis"]
    with warnings.catch_warnings(), np.errstate(all="ignore"):
        warnings.simplefilter("ignore")
        try:
            if x.dtype.kind == "f" and not op.startswith("nan"):
                nan = np.isnan(x)
                if (nan.sum(axis=axis) >= 2).any():
                    return True
            f = {"argmin": np.min, "argmax": np.max, "nanargmin": np.nanmin, "nanargmax": np.nanmax}[op]
            ext = f(x, axis=axis, keepdims=True)
            return bool(((x == ext).sum(axis=axis) >= 2).any())
        except ValueError:
            return False


FAMILY = {}
for _f, _ops in {
    "minmax": ["min", "max", "nanmin", "nanmax"],
    "moment": ["var", "std", "nanvar", "nanstd", "moment"],
    "sum": ["sum", "prod", "any", "all", "mean", "nansum", "nanprod", "nanmean"],
    "arg": ARG,
    "scan": SCAN,
    "topk": TOPK,
    "order": ORDER,
}.items():
    for _o in _ops:
        FAMILY[_o] = _f


def sig_of(case, x=None):
    sig = dict(
        op=case["op"],
        family=FAMILY[case["op"]],
        zero_chunk_on_reduced_axis=zero_chunk_on_reduced_axis(case),
        axis_none=case["axis"] is None,
        multi_axis=isinstance(case["axis"], list),
        arg_axis_none_multichunk=arg_axis_none_multichunk(case),
        # stratum: an explicit zero-size chunk on any axis (an empty block exists)
        zero_chunk=A.has_zero_chunk(case["array"]["chunks"]),
        # True when the failure is an exception escaping dask (set in check); the exception type is in the symptom
        raised=False,
    )
    if case["op"] in TOPK:
        sig["k_ge_axis_len"] = k_ge_axis_len(case)
        sig["topk_partials_fit_k"] = topk_partials_fit_k(case)
    if case["op"] in SCAN:
        sig["method"] = case.get("method", "sequential")
        sig["scan_dtype"] = case.get("dtype")
        # axis=None on a >= 2-d array: dask flattens (reshape + rechunk) first and scans the 1-d result
        sig["scan_flattens"] = case["axis"] is None and len(case["array"]["shape"]) >= 2
    if x is not None and case["op"] in ARG:
        sig["tied_extremum"] = tied_extremum(case, x)
    return sig


# --------------------------------------------------------------------------
# check


def build_x(case):
    """The array of the case; ``nan_plane=[b, i]`` (float data) fills the hyperplane ``index i on axis b`` with NaN, so
    that every slice along another axis that lies in it is all-NaN while the array as a whole is not: NumPy's nanarg*
    raise there (and dask must too), nanmin/nanmax/nanmean/nanmedian return NaN, nansum/nanprod the identity."""
    x = A.build_np(case["array"])
    if case.get("nan_plane") and x.dtype.kind == "f":
        b, i = case["nan_plane"]
        x[(slice(None),) * b + (i,)] = np.nan
    return x


def check(case):
    op = case["op"]
    arr = case["array"]
    x = build_x(case)
    d = A.build_da(arr, x)
    axes = reduced_axes(case)
    sig = sig_of(case, x)
    what0 = f"{op}(x{arr['shape']} {arr['dtype']} chunks={arr['chunks']}, axis={case['axis']}, keepdims={case.get('keepdims', False)}" + "".join(
        f", {k}={case[k]}" for k in ("ddof", "order", "k", "q", "method", "dtype", "nan_plane") if k in case
    )
    if op in ("var", "std", "nanvar", "nanstd", "moment"):
        # N - ddof <= 0 is outside the property (NumPy clips the divisor and warns)
        cnt = ~np.isnan(x) if (op.startswith("nan") and x.dtype.kind == "f") else np.ones(x.shape, bool)
        n = cnt.sum(axis=tuple(axes))
        if (np.asarray(n) - case.get("ddof", 0) <= 0).any():
            raise Reject("degrees of freedom <= 0")
    with warnings.catch_warnings(), np.errstate(all="ignore"):
        warnings.simplefilter("ignore")
        status, want = reference(np_reference, case, x)
        splits = case.get("splits", [None]) if uses_split(op) else [None]
        results = []
        for se in splits:
            what = what0 + (f", split_every={se})" if uses_split(op) else ")")
            if status == "err":
                # NumPy raises (zero-size array without identity, all-NaN slice, ...): dask must refuse too
                try:
                    r = da_apply(case, d, se)
                    got = A.compute(r)
                except NotImplementedError as e:
                    raise Reject(str(e))
                except Exception:  # noqa: BLE001
                    continue
                raise Violation(f"{what}: NumPy raises {type(want).__name__}: {want}; dask returned {short(got)}", "accepts-what-numpy-rejects", **sig)
            with impl(what, **dict(sig, raised=True)):
                try:
                    r = da_apply(case, d, se)
                except NotImplementedError as e:
                    count("rejected-notimplemented")
                    raise Reject(str(e))
                got = A.compute(r)
            if op == "argtopk":
                idx = np.asarray(got)
                ax = case["axis"] % x.ndim
                ensure(idx.shape == np.asarray(want).shape, f"{what}: shape {idx.shape} != {np.asarray(want).shape}", "shape-mismatch", **sig)
                ensure(idx.dtype == np.intp, f"{what}: dtype {idx.dtype} is not intp", "dtype-mismatch", **sig)
                ensure(bool(((idx >= 0) & (idx < max(x.shape[ax], 1))).all()) or idx.size == 0, f"{what}: index out of range: {short(idx)}", "value-mismatch", **sig)
                if idx.size:
                    srt = np.sort(idx, axis=ax)
                    ensure(bool((np.diff(srt, axis=ax) > 0).all()), f"{what}: repeated indices {short(idx)}", "value-mismatch", **sig)
                    vals = np.take_along_axis(x, idx, axis=ax)
                    compare("topk", vals, want, x, axes, case, sig, what + " [values at the returned indices]")
            else:
                compare(op, got, want, x, axes, case, sig, what)
            # lazy metadata
            g = np.asarray(got)
            ensure(
                not any(np.isnan(s) for s in r.shape) and tuple(r.shape) == g.shape,
                f"{what}: lazy shape {r.shape} != computed {g.shape}",
                "lazy-shape-mismatch",
                **sig,
            )
            ensure(r.dtype == g.dtype, f"{what}: lazy dtype {r.dtype} != computed {g.dtype}", "lazy-dtype-mismatch", **sig)
            results.append((se, g))
        # results for different split_every agree (exactly for exact operations / integer data)
        if len(results) >= 2 and op != "argtopk":
            base_se, base = results[0]
            for se, g in results[1:]:
                ensure(
                    close(op, g, base, x, axes, case, slack=2.0),
                    f"{what0}): split_every={base_se} gives {A.describe(base)} but split_every={se} gives {A.describe(g)}",
                    "split-every-dependent",
                    **sig,
                )


# --------------------------------------------------------------------------
# non-triviality, classes


def nontrivial(case):
    ch = case["array"]["chunks"]
    op = case["op"]
    if uses_split(op):
        if not any(se in (2, "dict") for se in case.get("splits", [None])):
            return False
    elif op in ORDER:
        return False
    for a in reduced_axes(case):
        c = ch[a]
        if len(c) >= 3 and len(set(c)) > 1 and (0 in c or 1 in c):
            return True
    return False


def classes(case):
    arr = case["array"]
    yield "op-" + case["op"]
    yield "dtype-" + arr["dtype"]
    yield f"ndim-{len(arr['shape'])}"
    ax = case["axis"]
    yield "axis-none" if ax is None else ("axis-tuple" if isinstance(ax, list) else "axis-int")
    if case.get("keepdims"):
        yield "keepdims"
    if zero_chunk_on_reduced_axis(case):
        yield "zero-chunk-on-reduced-axis"
    elif A.has_zero_chunk(arr["chunks"]):
        yield "zero-chunk-elsewhere"
    if arr.get("special"):
        for s in set(arr["special"]):
            yield "special-" + s
    if case["op"] in SCAN:
        yield "method-" + case.get("method", "sequential")
    if arg_axis_none_multichunk(case):
        yield "arg-axis-none-multichunk"
    if case.get("nan_plane"):
        yield "all-nan-slices"
    for se in case.get("splits", []):
        yield f"split-{se}"


# --------------------------------------------------------------------------
# exhaustive sub-check


def axis_options(op, nd):
    ints = list(range(nd))
    tuples = [list(t) for r in range(2, nd + 1) for t in itertools.combinations(ints, r)]
    if op in ARG or op in SCAN:
        return [None] + ints
    if op in TOPK:
        return ints
    if op in ("median", "nanmedian", "quantile"):
        return ints + tuples
    return [None] + ints + tuples


def enum_cases(tier):
    shapes = [[4], [5], [3, 2]] if tier == "quick" else [[4], [5], [6], [3, 2], [4, 3], [2, 2, 3]]
    datasets = [
        {"dtype": "i8", "fill": "dups", "seed": 3},  # values 0..3: many ties
        {"dtype": "f8", "fill": "normal", "seed": 5, "special": ["nan"]},
    ]
    for shape in shapes:
        nd = len(shape)
        for ch in A.all_chunkings(shape):
            for di, ds in enumerate(datasets):
                arr = dict(ds, shape=shape, chunks=ch)
                for op in REDUCE + ARG:
                    for axis in axis_options(op, nd):
                        for kd in (False, True):
                            case = {"array": arr, "op": op, "axis": axis, "keepdims": kd, "splits": list(SPLITS)}
                            if op in ("var", "std", "nanvar", "nanstd", "moment"):
                                case["ddof"] = 1 if (kd and nd == 1) else 0
                            if op == "moment":
                                case["order"] = 3 if kd else 2
                            yield case
                            if di == 1 and nd >= 2 and op in ("nanargmin", "nanargmax", "nanmin", "nanmax", "nanmean", "nansum"):
                                # column 0 all-NaN: reducing over axis 0 meets an all-NaN slice next to ordinary ones
                                yield dict(case, nan_plane=[1, 0])
                for op in SCAN:
                    for axis in axis_options(op, nd):
                        for method in ("sequential", "blelloch"):
                            yield {"array": arr, "op": op, "axis": axis, "method": method}
                            # dtype= : every element is converted BEFORE it is accumulated (float data into an integer
                            # accumulator truncates each term; int data into float32/float64)
                            if op in ("cumsum", "cumprod") and axis is not None:
                                yield {"array": arr, "op": op, "axis": axis, "method": method, "dtype": "i8" if arr["dtype"].startswith("f") else "f8"}
                for op in TOPK:
                    if di == 1:
                        continue  # (NaN has no defined rank for topk: integer data set only)
                    for axis in axis_options(op, nd):
                        for k in (1, -2, shape[axis]):
                            yield {"array": arr, "op": op, "axis": axis, "k": k, "splits": [None, 2]}
                for op in ORDER:
                    for axis in axis_options(op, nd):
                        case = {"array": arr, "op": op, "axis": axis, "keepdims": bool(len(ch[0]) % 2)}
                        if op == "quantile":
                            case["q"] = [0.25, 1.0] if nd == 1 else 0.5
                        yield case


# --------------------------------------------------------------------------
# random sub-check


@st.composite
def random_case(draw):
    op = draw(st.sampled_from(REDUCE * 3 + ARG * 4 + SCAN * 3 + TOPK * 2 + ORDER))
    dtypes = {
        "any": ("bool", "i8", "f8"),
        "all": ("bool", "i8", "f8"),
    }.get(op, ("i8", "f8", "f8", "f8", "i4", "u1", "f4", "bool") if op in ("sum", "min", "max", "mean", "argmin", "argmax", "cumsum") else ("i8", "f8", "f8"))
    fills = ("small", "dups") if op in ("prod", "nanprod", "cumprod", "nancumprod") else ("small", "normal", "dups", "dups")
    max_side = 5 if op in ("prod", "nanprod", "cumprod", "nancumprod") else 7
    arr = draw(
        C.array_st(
            zero_chunk_pct=18,  # (zero-extended completions never take the branch: ~10% of the evaluated cases)
            min_dims=1,
            max_dims=3,
            # zero-length axes are not explored (see ASSUMPTIONS)
            min_side=draw(st.sampled_from([1, 2, 2, 3])),
            max_side=max_side,
            dtypes=dtypes,
            fills=fills,
        )
    )
    if np.dtype(arr["dtype"]).kind == "f" and op not in TOPK and C.chance(draw, 45):
        pool = ["nan", "nan", "-0"] if op in ("var", "std", "nanvar", "nanstd", "moment", "prod", "nanprod", "cumprod", "nancumprod", "mean", "nanmean") else ["nan", "nan", "inf", "-inf", "-0"]
        arr["special"] = draw(st.lists(st.sampled_from(pool), min_size=1, max_size=3))
    nd = len(arr["shape"])
    axis = draw(st.sampled_from(axis_options(op, nd)))
    if isinstance(axis, int) and C.chance(draw, 25):
        axis = axis - nd  # negative spelling
    case = {"array": arr, "op": op, "axis": axis}
    if np.dtype(arr["dtype"]).kind == "f" and op.startswith("nan") and nd >= 2 and C.chance(draw, 20):
        b = draw(st.integers(0, nd - 1))
        case["nan_plane"] = [b, draw(st.integers(0, arr["shape"][b] - 1))]
    if op in REDUCE or op in ARG or op in ORDER:
        case["keepdims"] = draw(st.booleans())
    if uses_split(op):
        a, b = draw(st.sampled_from([(None, 2), (2, 3), (2, "dict"), (3, None), ("dict", None), (2, None)]))
        case["splits"] = [a, b]
    if op in ("var", "std", "nanvar", "nanstd", "moment"):
        case["ddof"] = draw(st.sampled_from([0, 0, 1, 2]))
    if op == "moment":
        case["order"] = draw(st.sampled_from([2, 3, 4]))
    if op in SCAN:
        case["method"] = draw(st.sampled_from(["sequential", "blelloch"]))
    if op in TOPK:
        n = arr["shape"][axis]
        k = draw(st.integers(1, max(n, 1)))
        case["k"] = k if draw(st.booleans()) else -k
    if op == "quantile":
        case["q"] = draw(st.one_of(st.sampled_from([0.0, 0.5, 0.3, 1.0]), st.lists(st.sampled_from([0.0, 0.25, 0.5, 0.9, 1.0]), min_size=1, max_size=3)))
    return case


SUBCHECKS = [
    Sub(
        "enum",
        check,
        kind="enum",
        cases=enum_cases,
        nontrivial=nontrivial,
        classes=classes,
        exhaustive=True,
        budget_s={"quick": 150, "thorough": 900},  # ~8k cases x 4 split_every values: ~20 s on 16 idle cores
        doc="all chunkings of small shapes x two data sets x every op x every accepted axis selection x keepdims, each for split_every in {None,2,3,{axis:2}}",
    ),
    Sub(
        "random",
        check,
        strategy=lambda tier: random_case(),
        n={"quick": 5000, "thorough": 120000},
        nontrivial=nontrivial,
        classes=classes,
        doc="random arrays/dtypes/special values/chunkings (10% explicit zero-size chunks), op, axis, keepdims, ddof, order, k, q, method, two split_every values",
    ),
]
