"""C12 — tokens are deterministic and distinct values get distinct tokens."""
from __future__ import annotations

import atexit
import copy
import json
import os
import pickle
import subprocess
import sys

import numpy as np
from hypothesis import strategies as st

from vf import values as V
from vf.core import Reject, Sub, Violation, ensure, impl, short

PROPERTY = "C12"
LEVEL = "exploration"
PRELOAD = ["pandas", "dask.tokenize"]
RULE = (
    "pairs (v, w) of values built from JSON value specs with a KNOWN relation, decided by an independent structural "
    "canonical form canon() (type-tagged nested tuples; ndarray = dtype, shape and elements in logical C order — memory "
    "layout is deliberately not part of it). Equal arm: w = rebuild from the same spec / deepcopy / pickle round trip / "
    "cloudpickle round trip / same array content in another memory layout (C, F, transposed view, strided, negative "
    "strides, offset view) => tokens must be equal. Unequal arm: w = v with one minimal observable change (one element, "
    "int<->float<->bool<->str<->bytes of the same printed form, list<->tuple, re-nesting, element swap, strings split "
    "differently with the same joined text, dtype change with identical bytes, reshape with identical bytes, transposed "
    "data with an identical memory buffer, dict key 1 vs '1', swapped dict values, pandas name/index/dtype/category/"
    "column-swap changes, dataclass field/class, partial arg/kw/func, different lambda code or closure) or an independent "
    "value => canon differs => tokens must differ. Also: tokenize is repeatable, ensure_deterministic=True does not raise "
    "for plain data, memmaps of one file with different dtype/shape/offset, and (sub-check xproc) plain data gets the same "
    "token in fresh interpreters started with PYTHONHASHSEED=1 and 2. Non-trivial: unequal pairs whose raw buffers / "
    "joined strings coincide, and equal pairs whose memory layout differs."
)
ASSUMPTIONS = [
    "canon() in vf/values.py decides observable equality; it uses only public NumPy/pandas accessors",
    "all NaNs are one value; 0.0 and -0.0 are different values",
]
TECHNIQUE = "Hypothesis-generated value pairs with a known equal/unequal relation (metamorphic: copies/round trips keep the token, minimal observable mutations change it), oracle = independent canonical form"

PLAIN_TYPES = {"int", "float", "bool", "none", "str", "bytes", "complex", "list", "tuple", "dict", "np", "npobj", "series", "index", "frame", "cat", "multiindex", "nullable"}


# --------------------------------------------------------------------------
# strategies for value specs

_ints = st.integers(-3, 300).map(lambda v: {"t": "int", "v": v})
_floats = st.sampled_from([0.0, -0.0, 1.0, 1.5, -2.25, 1e300, float("nan"), float("inf")]).map(
    lambda v: {"t": "float", "v": "nan" if v != v else ("inf" if v == float("inf") else v.hex())}
)
_strs = st.sampled_from(["", "a", "b", "ab", "a-b", "b-c", "c", "1", "True", "None", "é", "x" * 40]).map(lambda v: {"t": "str", "v": v})
_bytes = st.sampled_from([b"", b"a", b"ab", b"a-b", b"1", b"\x00\x01"]).map(lambda v: {"t": "bytes", "v": v.hex()})
_scalars = st.one_of(_ints, _floats, _strs, _bytes, st.booleans().map(lambda v: {"t": "bool", "v": v}), st.just({"t": "none"}))
_hashable = st.one_of(_ints, _strs, st.booleans().map(lambda v: {"t": "bool", "v": v}))


def _containers(children):
    return st.one_of(
        st.lists(children, max_size=4).map(lambda v: {"t": "list", "v": v}),
        st.lists(children, max_size=4).map(lambda v: {"t": "tuple", "v": v}),
        st.lists(st.tuples(_hashable, children), max_size=3, unique_by=lambda kv: json.dumps(kv[0], sort_keys=True)).map(
            lambda kv: {"t": "dict", "v": [[k, v] for k, v in kv]}
        ),
    )


plain_nested = st.recursive(_scalars, _containers, max_leaves=8)

NP_DTYPES = ["<i8", "<i4", "<u8", "<f8", "<f4", "|b1", "<c16", "<M8[ns]", "<m8[ns]", "<i2", "|u1"]


@st.composite
def np_spec(draw, dtype=None, min_dims=1):
    dt = dtype or draw(st.sampled_from(NP_DTYPES))
    nd = draw(st.integers(min_dims, 3))
    shape = [draw(st.integers(1, 4)) for _ in range(nd)]
    n = int(np.prod(shape))
    kind = np.dtype(dt).kind
    if kind in "fc":
        vals = draw(st.lists(st.sampled_from([0.0, -0.0, 1.0, 2.5, -1.0, float("nan"), 3.0, 4.0, 5.0]), min_size=n, max_size=n))
        data = ["nan" if v != v else v.hex() for v in vals]
    elif kind == "b":
        data = draw(st.lists(st.booleans(), min_size=n, max_size=n))
    else:
        data = draw(st.lists(st.integers(0, 100), min_size=n, max_size=n))
    lay = draw(st.sampled_from(["C", "C", "F", "T", "strided", "neg", "offset", "Tstrided"]))
    return {"t": "np", "dtype": dt, "shape": shape, "data": data, "layout": lay}


@st.composite
def npobj_spec(draw):
    n = draw(st.integers(1, 4))
    if draw(st.booleans()):
        elems = draw(st.lists(_strs, min_size=n, max_size=n))
    else:
        elems = draw(st.lists(_bytes, min_size=n, max_size=n))
    return {"t": "npobj", "shape": [n], "data": elems}


@st.composite
def pd_spec(draw):
    t = draw(st.sampled_from(["series", "series", "frame", "frame", "index", "cat", "multiindex", "nullable"]))
    n = draw(st.integers(0, 4))
    ints = lambda: draw(st.lists(st.integers(0, 9), min_size=n, max_size=n))  # noqa: E731
    strs = lambda: draw(st.lists(st.sampled_from(["a", "b", "a-b", "b-c", "c"]), min_size=n, max_size=n))  # noqa: E731
    if t == "index":
        return {"t": "index", "data": ints() if draw(st.booleans()) else strs(), "name": draw(st.sampled_from([None, "i", "j"]))}
    if t == "multiindex":
        return {"t": "multiindex", "a": ints(), "b": strs(), "names": draw(st.sampled_from([[None, None], ["x", "y"], ["y", "x"]]))}
    if t == "cat":
        cats = draw(st.sampled_from([["u", "v"], ["v", "u"], ["u", "v", "w"]]))
        return {"t": "cat", "codes": draw(st.lists(st.integers(-1, len(cats) - 1), min_size=n, max_size=n)), "categories": cats, "ordered": draw(st.booleans())}
    if t == "nullable":
        dt = draw(st.sampled_from(["Int64", "boolean", "Float64"]))
        if dt == "boolean":
            data = draw(st.lists(st.sampled_from([True, False, None]), min_size=n, max_size=n))
        elif dt == "Int64":
            data = draw(st.lists(st.sampled_from([0, 1, 2, None]), min_size=n, max_size=n))
        else:
            data = draw(st.lists(st.sampled_from([0.5, 1.0, None]), min_size=n, max_size=n))
        return {"t": "nullable", "dtype": dt, "data": data}
    if t == "series":
        dt = draw(st.sampled_from(["i8", "f8", "object", "str", "Int64"]))
        if dt in ("i8",):
            data = ints()
        elif dt == "f8":
            data = draw(st.lists(st.sampled_from([0.5, 1.0, 2.0, None]), min_size=n, max_size=n))
        elif dt == "Int64":
            data = draw(st.lists(st.sampled_from([0, 1, 2, None]), min_size=n, max_size=n))
        else:
            data = strs()
        return {"t": "series", "data": data, "dtype": dt, "name": draw(st.sampled_from([None, "s", "t"])), "index": draw(st.sampled_from([None, list(range(10, 10 + n))]))}
    ncol = draw(st.integers(1, 4))
    cols = []
    for c in range(ncol):
        dt = draw(st.sampled_from(["i8", "f8", "object", "bool", "Int64", "str"]))
        if dt == "i8":
            data = ints()
        elif dt == "f8":
            data = draw(st.lists(st.sampled_from([0.5, 1.0, 2.0]), min_size=n, max_size=n))
        elif dt == "bool":
            data = draw(st.lists(st.booleans(), min_size=n, max_size=n))
        elif dt == "Int64":
            data = draw(st.lists(st.sampled_from([0, 1, 2, None]), min_size=n, max_size=n))
        else:
            data = strs()
        cols.append({"name": "abcd"[c], "dtype": dt, "data": data})
    return {"t": "frame", "columns": cols, "index": draw(st.sampled_from([None, list(range(5, 5 + n))]))}


@st.composite
def code_spec(draw):
    k = draw(st.sampled_from(["dc", "partial", "fn"]))
    if k == "dc":
        return {"t": "dc", "cls": draw(st.sampled_from(["P", "Q"])), "fields": [draw(plain_nested), draw(_scalars)]}
    if k == "partial":
        return {
            "t": "partial",
            "fn": draw(st.sampled_from(["f", "g"])),
            "args": draw(st.lists(_scalars, max_size=2)),
            "kw": [[n, draw(_scalars)] for n in draw(st.lists(st.sampled_from(["p", "q"]), max_size=2, unique=True))],
        }
    n = draw(st.sampled_from(["f", "g", "lam0", "lam1", "clo"]))
    s = {"t": "fn", "name": n}
    if n == "clo":
        s["closure"] = draw(_ints)
    return s


@st.composite
def other_spec(draw):
    k = draw(st.sampled_from(["set", "frozenset", "odict", "rec"]))
    if k in ("set", "frozenset"):
        return {"t": k, "v": draw(st.lists(_hashable, max_size=4, unique_by=lambda s: json.dumps(s, sort_keys=True)))}
    if k == "odict":
        return {"t": "odict", "v": [[kk, draw(_scalars)] for kk in draw(st.lists(_hashable, max_size=3, unique_by=lambda s: json.dumps(s, sort_keys=True)))]}
    return {"t": "rec", "kind": draw(st.sampled_from(["list", "dict"])), "v": draw(st.lists(_scalars, max_size=3))}


any_spec = st.one_of(plain_nested, np_spec(), np_spec(), npobj_spec(), pd_spec(), pd_spec(), code_spec(), other_spec())


# --------------------------------------------------------------------------
# mutations: minimal observable changes (by spec type)


def mutations_for(spec):
    t = spec["t"]
    m = ["independent"]
    if t == "int":
        m += ["int+1", "int->float", "int->str", "int->bool"]
    elif t == "float":
        m += ["float-next", "float-sign"]
    elif t == "str":
        m += ["str+x", "str->bytes"]
    elif t == "bytes":
        m += ["bytes->str", "bytes+0"]
    elif t == "bool":
        m += ["bool->int", "bool-not"]
    elif t == "none":
        m += ["none->0", "none->str"]
    elif t in ("list", "tuple"):
        m += ["seq-type", "seq-nest", "seq-append"]
        if len(spec["v"]) >= 2:
            m += ["seq-swap", "seq-drop"]
        if spec["v"]:
            m += ["seq-elem"]
    elif t == "dict":
        m += ["dict-add"]
        if spec["v"]:
            m += ["dict-value", "dict-keytype"]
        if len(spec["v"]) >= 2:
            m += ["dict-swap-values"]
    elif t == "np":
        m += ["np-elem", "np-dtype-same-bytes", "np-reshape", "np-transposed-buffer", "np-flatten"]
    elif t == "npobj":
        m += ["npobj-resplit", "npobj-elem", "npobj-strbytes"]
    elif t in ("series", "index", "multiindex"):
        m += ["pd-name", "pd-elem"]
        if t == "series":
            m += ["pd-index", "pd-dtype"]
    elif t == "frame":
        m += ["frame-swap-data", "frame-rename", "frame-elem", "frame-index", "frame-swap-dtypes", "frame-nullable-dtype"]
    elif t == "cat":
        m += ["cat-ordered", "cat-categories", "cat-code"]
    elif t == "nullable":
        m += ["nullable-elem", "nullable-mask", "nullable-dtype"]
    elif t == "dc":
        m += ["dc-cls", "dc-field"]
    elif t == "partial":
        m += ["partial-fn", "partial-arg", "partial-kw"]
    elif t == "fn":
        m += ["fn-other"]
    elif t in ("set", "frozenset"):
        m += ["set-add", "set-type"]
    elif t == "odict":
        m += ["odict-reverse", "odict->dict"]
    elif t == "rec":
        m += ["rec-elem"]
    return m


def apply_mutation(spec, name, pick):
    """pick(n) -> int in [0, n) (drawn by Hypothesis).  Returns a new spec, or None if not applicable."""
    s = copy.deepcopy(spec)
    t = s["t"]
    if name == "int+1":
        s["v"] += 1
    elif name == "int->float":
        return {"t": "float", "v": float(s["v"]).hex()}
    elif name == "int->str":
        return {"t": "str", "v": str(s["v"])}
    elif name == "int->bool":
        if s["v"] not in (0, 1):
            return None
        return {"t": "bool", "v": bool(s["v"])}
    elif name == "float-next":
        x = V._float(s["v"])
        if x != x or x in (float("inf"), float("-inf")):
            return {"t": "float", "v": (1.0).hex()}
        return {"t": "float", "v": float(np.nextafter(x, np.inf)).hex()}
    elif name == "float-sign":
        x = V._float(s["v"])
        if x != x:
            return None
        return {"t": "float", "v": (-x).hex()}
    elif name == "str+x":
        s["v"] += "x"
    elif name == "str->bytes":
        try:
            return {"t": "bytes", "v": s["v"].encode("ascii").hex()}
        except UnicodeEncodeError:
            return None
    elif name == "bytes->str":
        try:
            return {"t": "str", "v": bytes.fromhex(s["v"]).decode("ascii")}
        except UnicodeDecodeError:
            return None
    elif name == "bytes+0":
        s["v"] += "00"
    elif name == "bool->int":
        return {"t": "int", "v": int(s["v"])}
    elif name == "bool-not":
        s["v"] = not s["v"]
    elif name == "none->0":
        return {"t": "int", "v": 0}
    elif name == "none->str":
        return {"t": "str", "v": "None"}
    elif name == "seq-type":
        s["t"] = "tuple" if t == "list" else "list"
    elif name == "seq-nest":
        return {"t": t, "v": [s]}
    elif name == "seq-append":
        s["v"].append({"t": "none"})
    elif name == "seq-swap":
        i = pick(len(s["v"]) - 1)
        if s["v"][i] == s["v"][i + 1]:
            return None
        s["v"][i], s["v"][i + 1] = s["v"][i + 1], s["v"][i]
    elif name == "seq-drop":
        s["v"].pop()
    elif name == "seq-elem":
        i = pick(len(s["v"]))
        ms = mutations_for(s["v"][i])
        sub = apply_mutation(s["v"][i], ms[1 + pick(len(ms) - 1)] if len(ms) > 1 else "independent", pick)
        if sub is None:
            return None
        s["v"][i] = sub
    elif name == "dict-add":
        s["v"].append([{"t": "str", "v": "zz-new"}, {"t": "none"}])
    elif name == "dict-value":
        i = pick(len(s["v"]))
        s["v"][i][1] = {"t": "tuple", "v": [s["v"][i][1]]}
    elif name == "dict-keytype":
        i = pick(len(s["v"]))
        k = s["v"][i][0]
        if k["t"] == "int":
            nk = {"t": "str", "v": str(k["v"])}
        elif k["t"] == "str":
            nk = {"t": "bytes", "v": k["v"].encode("utf-8").hex()}
        else:
            nk = {"t": "int", "v": int(k["v"])}
        if any(kk == nk for kk, _ in s["v"]):
            return None
        s["v"][i][0] = nk
    elif name == "dict-swap-values":
        i = pick(len(s["v"]) - 1)
        if s["v"][i][1] == s["v"][i + 1][1]:
            return None
        s["v"][i][1], s["v"][i + 1][1] = s["v"][i + 1][1], s["v"][i][1]
    elif name == "np-elem":
        i = pick(len(s["data"]))
        d = s["data"][i]
        kind = np.dtype(s["dtype"]).kind
        if kind == "b":
            s["data"][i] = not d
        elif kind in "fc":
            s["data"][i] = (7.0).hex() if d != (7.0).hex() else (8.0).hex()
        else:
            s["data"][i] = (d + 1) % 101
    elif name == "np-dtype-same-bytes":
        a = V.build_np(dict(s, layout="C"))
        target = {8: ["<i8", "<u8", "<f8", "<M8[ns]", "<m8[ns]"], 4: ["<i4", "<f4", "<u4"], 2: ["<i2", "<u2"], 1: ["|u1", "|i1", "|b1"], 16: ["<c16"]}[a.dtype.itemsize]
        target = [x for x in target if np.dtype(x) != a.dtype]
        if not target:
            return None
        nd = target[pick(len(target))]
        if a.dtype.kind == "b" or np.dtype(nd).kind == "b":
            return None
        b = a.view(nd)
        return _np_to_spec(b, s["layout"])
    elif name == "np-reshape":
        shp = s["shape"]
        if len(shp) == 1:
            if shp[0] < 2:
                s["shape"] = [1, shp[0]]
            else:
                s["shape"] = [shp[0], 1]
        else:
            s["shape"] = [int(np.prod(shp))]
    elif name == "np-flatten":
        s["shape"] = [1] + s["shape"]
    elif name == "np-transposed-buffer":
        shp = s["shape"]
        if len(shp) != 2 or shp[0] == 1 or shp[1] == 1:
            return None
        a = V.build_np(dict(s, layout="C"))
        # array of the same shape whose *memory buffer* equals a's C buffer but is read in F order
        b = a.ravel().reshape(shp[1], shp[0]).T
        out = _np_to_spec(np.ascontiguousarray(b), "T")
        return out
    elif name == "npobj-resplit":
        strs = [x for x in s["data"]]
        if len(strs) < 2 or strs[0]["t"] != strs[1]["t"]:
            return None
        if strs[0]["t"] == "str":
            a, b = strs[0]["v"], strs[1]["v"]
            joined = a + "-" + b
            cut = [i for i, ch in enumerate(joined) if ch == "-" and i != len(a)]
            if not cut:
                return None
            c = cut[pick(len(cut))]
            s["data"][0] = {"t": "str", "v": joined[:c]}
            s["data"][1] = {"t": "str", "v": joined[c + 1 :]}
        else:
            a, b = bytes.fromhex(strs[0]["v"]), bytes.fromhex(strs[1]["v"])
            joined = a + b"-" + b
            cut = [i for i in range(len(joined)) if joined[i : i + 1] == b"-" and i != len(a)]
            if not cut:
                return None
            c = cut[pick(len(cut))]
            s["data"][0] = {"t": "bytes", "v": joined[:c].hex()}
            s["data"][1] = {"t": "bytes", "v": joined[c + 1 :].hex()}
    elif name == "npobj-elem":
        i = pick(len(s["data"]))
        d = s["data"][i]
        s["data"][i] = {"t": d["t"], "v": d["v"] + ("78" if d["t"] == "bytes" else "x")}
    elif name == "npobj-strbytes":
        i = pick(len(s["data"]))
        sub = apply_mutation(s["data"][i], "str->bytes" if s["data"][i]["t"] == "str" else "bytes->str", pick)
        if sub is None:
            return None
        s["data"][i] = sub
    elif name == "pd-name":
        if t == "multiindex":
            s["names"] = ["x", "z"] if s["names"] != ["x", "z"] else ["x", "y"]
        else:
            s["name"] = "renamed" if s.get("name") != "renamed" else None
    elif name == "pd-elem":
        key = "a" if t == "multiindex" else "data"
        if not s[key]:
            return None
        i = pick(len(s[key]))
        d = s[key][i]
        dt = s.get("dtype")
        if dt in ("i8", "Int64") or (isinstance(d, int) and not isinstance(d, bool)):
            s[key][i] = 77 if d != 77 else 78
        elif isinstance(d, str) or dt in ("object", "str"):
            s[key][i] = "zz" if d != "zz" else "yy"
        else:
            s[key][i] = 3.25 if d != 3.25 else 4.5
    elif name == "pd-index":
        n = len(s["data"])
        s["index"] = list(range(100, 100 + n)) if s.get("index") is None else None
        if n == 0:
            return None
    elif name == "pd-dtype":
        if s["dtype"] == "i8":
            s["dtype"] = "Int64"
        elif s["dtype"] == "object":
            s["dtype"] = "str"
        elif s["dtype"] == "str":
            s["dtype"] = "object"
        else:
            return None
    elif name == "frame-swap-data":
        cols = s["columns"]
        if len(cols) < 2:
            return None
        i = pick(len(cols) - 1)
        a, b = cols[i], cols[i + 1]
        if a["data"] == b["data"] and a["dtype"] == b["dtype"]:
            return None
        a["data"], b["data"] = b["data"], a["data"]
        a["dtype"], b["dtype"] = b["dtype"], a["dtype"]
    elif name == "frame-swap-dtypes":
        cols = s["columns"]
        # two columns whose data is valid under both dtypes: i8 <-> f8 of integral values
        idx = [i for i, c in enumerate(cols) if c["dtype"] in ("i8", "f8") and all(float(v).is_integer() for v in c["data"])]
        if len(idx) < 2 or cols[idx[0]]["dtype"] == cols[idx[1]]["dtype"]:
            return None
        a, b = cols[idx[0]], cols[idx[1]]
        a["dtype"], b["dtype"] = b["dtype"], a["dtype"]
        a["data"] = [float(v) if a["dtype"] == "f8" else int(v) for v in a["data"]]
        b["data"] = [float(v) if b["dtype"] == "f8" else int(v) for v in b["data"]]
    elif name == "frame-rename":
        i = pick(len(s["columns"]))
        s["columns"][i]["name"] = s["columns"][i]["name"] + "_r"
    elif name == "frame-elem":
        i = pick(len(s["columns"]))
        c = s["columns"][i]
        if not c["data"]:
            return None
        j = pick(len(c["data"]))
        d = c["data"][j]
        if c["dtype"] == "bool":
            c["data"][j] = not d
        elif c["dtype"] in ("i8",):
            c["data"][j] = d + 1
        elif c["dtype"] == "Int64":
            c["data"][j] = 7 if d != 7 else 8
        elif c["dtype"] == "f8":
            c["data"][j] = 9.5 if d != 9.5 else 10.5
        else:
            c["data"][j] = "zz" if d != "zz" else "yy"
    elif name == "frame-index":
        n = len(s["columns"][0]["data"])
        if n == 0:
            return None
        s["index"] = list(range(50, 50 + n)) if s.get("index") is None else None
    elif name == "cat-ordered":
        s["ordered"] = not s.get("ordered")
    elif name == "cat-categories":
        s["categories"] = s["categories"] + ["extra"]
    elif name == "cat-code":
        if not s["codes"]:
            return None
        i = pick(len(s["codes"]))
        s["codes"][i] = (s["codes"][i] + 2) % len(s["categories"]) - 1 if len(s["categories"]) > 1 else -1 - s["codes"][i] * 0 - (0 if s["codes"][i] == -1 else 1) + (1 if s["codes"][i] == -1 else 0)
        if s["codes"][i] == spec["codes"][i]:
            return None
    elif name == "nullable-elem":
        if not s["data"]:
            return None
        i = pick(len(s["data"]))
        d = s["data"][i]
        if s["dtype"] == "boolean":
            s["data"][i] = (not d) if d is not None else True
        elif s["dtype"] == "Int64":
            s["data"][i] = 5 if d != 5 else 6
        else:
            s["data"][i] = 7.5 if d != 7.5 else 8.5
    elif name == "nullable-mask":
        if not s["data"]:
            return None
        i = pick(len(s["data"]))
        d = s["data"][i]
        zero = {"boolean": False, "Int64": 0, "Float64": 0.0}[s["dtype"]]
        if d is None:
            s["data"][i] = zero
        elif d == zero:
            s["data"][i] = None
        else:
            return None
    elif name == "nullable-dtype":
        # same values (possibly all missing) under another nullable dtype
        ok = all(v is None or (isinstance(v, (int, float)) and not isinstance(v, bool) and float(v).is_integer()) for v in s["data"])
        if s["dtype"] == "boolean":
            if any(v is not None for v in s["data"]):
                return None
            s["dtype"] = ["Int64", "Float64"][pick(2)]
        elif not ok:
            return None
        else:
            s["dtype"] = "Float64" if s["dtype"] == "Int64" else "Int64"
            s["data"] = [None if v is None else (float(v) if s["dtype"] == "Float64" else int(v)) for v in s["data"]]
    elif name == "frame-nullable-dtype":
        idx = [i for i, c in enumerate(s["columns"]) if c["dtype"] == "Int64"]
        if not idx:
            return None
        c = s["columns"][idx[pick(len(idx))]]
        c["dtype"] = "Float64"
        c["data"] = [None if v is None else float(v) for v in c["data"]]
    elif name == "dc-cls":
        s["cls"] = "Q" if s["cls"] == "P" else "P"
    elif name == "dc-field":
        s["fields"][1] = {"t": "tuple", "v": [s["fields"][1]]}
    elif name == "partial-fn":
        s["fn"] = "g" if s["fn"] == "f" else "f"
    elif name == "partial-arg":
        s["args"].append({"t": "int", "v": 12345})
    elif name == "partial-kw":
        s["kw"] = [kv for kv in s["kw"] if kv[0] != "r"] + [["r", {"t": "int", "v": 1}]]
    elif name == "fn-other":
        order = ["f", "g", "lam0", "lam1", "clo"]
        if s["name"] == "clo":
            s["closure"] = {"t": "int", "v": s["closure"]["v"] + 1}
        else:
            s["name"] = order[(order.index(s["name"]) + 1) % 4]
    elif name == "set-add":
        s["v"].append({"t": "str", "v": "zz-new"})
    elif name == "set-type":
        s["t"] = "frozenset" if t == "set" else "set"
    elif name == "odict-reverse":
        if len(s["v"]) < 2:
            return None
        s["v"] = s["v"][::-1]
    elif name == "odict->dict":
        s["t"] = "dict"
    elif name == "rec-elem":
        s["v"].append({"t": "int", "v": 99})
    else:
        raise ValueError(name)
    return s


def _np_to_spec(a, layout):
    dt = a.dtype
    flat = np.ascontiguousarray(a).ravel()
    if dt.kind in "f":
        data = ["nan" if v != v else float(v).hex() for v in flat.tolist()]
    elif dt.kind == "c":
        return None
    elif dt.kind in "mM":
        data = [int(v) for v in flat.view("i8").tolist()]
    elif dt.kind == "b":
        data = [bool(v) for v in flat.tolist()]
    else:
        data = [int(v) for v in flat.tolist()]
    return {"t": "np", "dtype": dt.str, "shape": list(a.shape), "data": data, "layout": layout}


@st.composite
def pair_case(draw):
    a = draw(any_spec)
    arm = draw(st.sampled_from(["equal", "mutate", "mutate", "mutate"]))
    if arm == "equal":
        how = draw(st.sampled_from(["rebuild", "deepcopy", "pickle", "cloudpickle", "layout"]))
        case = {"a": a, "b": a, "arm": how}
        if how == "layout":
            if a["t"] != "np":
                case["arm"] = "rebuild"
            else:
                case["b"] = dict(a, layout=draw(st.sampled_from(["C", "F", "T", "strided", "neg", "offset", "Tstrided"])))
        return case
    ms = mutations_for(a)
    name = draw(st.sampled_from(ms))
    if name == "independent":
        b = draw(any_spec)
        return {"a": a, "b": b, "arm": "rebuild", "mut": "independent"}
    picks = draw(st.lists(st.integers(0, 1000), min_size=6, max_size=6))
    it = iter(picks)

    def pick(n):
        try:
            return next(it) % max(n, 1)
        except StopIteration:
            return 0

    b = apply_mutation(a, name, pick)
    if b is None:
        b = a
        name = "none"
    return {"a": a, "b": b, "arm": draw(st.sampled_from(["rebuild", "rebuild", "pickle"])), "mut": name}


def transform(v, arm):
    import cloudpickle

    if arm in ("rebuild", "layout"):
        return v
    if arm == "deepcopy":
        return copy.deepcopy(v)
    if arm == "pickle":
        return pickle.loads(pickle.dumps(v))
    if arm == "cloudpickle":
        return cloudpickle.loads(cloudpickle.dumps(v))
    raise ValueError(arm)


def is_plain(spec):
    t = spec["t"]
    if t not in PLAIN_TYPES:
        return False
    if t in ("list", "tuple"):
        return all(is_plain(x) for x in spec["v"])
    if t == "dict":
        return all(is_plain(k) and is_plain(v) for k, v in spec["v"])
    if t == "npobj":
        return True
    return True


def check(case):
    from dask.tokenize import tokenize

    a, b, arm = case["a"], case["b"], case["arm"]
    kind = a["t"]
    sig = dict(kind=kind, mut=case.get("mut", "-"), arm=arm)
    v = V.build(a)
    try:
        w = transform(V.build(b), arm)
    except (pickle.PicklingError, AttributeError, TypeError) as e:
        if a["t"] in ("fn", "partial") or b["t"] in ("fn", "partial"):
            raise Reject(f"value cannot be pickled: {e}")  # lambdas / closures with plain pickle
        raise
    cv, cw = V.canon(v), V.canon(w)
    with impl("tokenize", **sig):
        tv = tokenize(v)
        tv2 = tokenize(v)
        tw = tokenize(w)
    ensure(tv == tv2, f"tokenize is not repeatable for {short(v)}", "not-repeatable", **sig)
    if cv == cw:
        ensure(tv == tw, f"equal values, different tokens: {short(v)} vs {short(w)} (arm={arm}, spec a={short(a, 400)}, b={short(b, 400)})", "equal-values-different-token", **sig)
    else:
        ensure(tv != tw, f"token collision: {short(v)} vs {short(w)} (mutation={case.get('mut')}; a={short(a, 400)} b={short(b, 400)})", "collision", **sig)
    if is_plain(a):
        with impl("tokenize(ensure_deterministic=True)", **sig):
            td = tokenize(v, ensure_deterministic=True)
        ensure(td == tv, "ensure_deterministic changes the token", "ensure-deterministic-differs", **sig)


def nontrivial(case):
    a, b = case["a"], case["b"]
    if case["arm"] == "layout" and a.get("layout") != b.get("layout"):
        return True
    if a["t"] == "np" and case["arm"] in ("pickle", "deepcopy", "cloudpickle") and a.get("layout") in ("T", "strided", "neg", "F", "offset", "Tstrided") and a == b:
        return True
    return case.get("mut") in (
        "np-dtype-same-bytes", "np-reshape", "np-transposed-buffer", "npobj-resplit", "npobj-strbytes", "frame-swap-data",
        "frame-swap-dtypes", "int->float", "int->str", "int->bool", "bool->int", "str->bytes", "bytes->str", "seq-type",
        "seq-nest", "dict-keytype", "dict-swap-values", "float-sign", "none->str", "cat-categories", "pd-dtype", "nullable-mask", "nullable-dtype", "frame-nullable-dtype",
    )


def classes(case):
    yield "kind-" + case["a"]["t"]
    yield "arm-" + case["arm"]
    if case.get("mut"):
        yield "mut-" + case["mut"]


# --------------------------------------------------------------------------
# memmaps of one file


def check_memmap(case):
    import tempfile

    from dask.tokenize import tokenize

    d = tempfile.mkdtemp(prefix="vf-c12-", dir="/var/tmp")
    path = os.path.join(d, "m.bin")
    try:
        raw = np.arange(case["nbytes"], dtype="u1")
        raw = (raw * case["mult"] % 251).astype("u1")
        raw.tofile(path)

        def mm(view):
            dt = np.dtype(view["dtype"])
            count = int(np.prod(view["shape"]))
            need = view["offset"] + count * dt.itemsize
            if need > case["nbytes"]:
                raise Reject("view beyond file")
            return np.memmap(path, dtype=dt, mode="r", offset=view["offset"], shape=tuple(view["shape"]))

        m1, m2 = mm(case["v1"]), mm(case["v2"])
        sig = dict(kind="memmap", mut="view", arm="rebuild")
        c1, c2 = V.canon(np.asarray(m1)), V.canon(np.asarray(m2))
        with impl("tokenize(memmap)", **sig):
            t1, t2, t1b = tokenize(m1), tokenize(m2), tokenize(mm(case["v1"]))
        ensure(t1 == t1b, "memmap token not repeatable", "not-repeatable", **sig)
        if c1 == c2:
            ensure(t1 == t2, f"equal memmaps, different tokens {case}", "equal-values-different-token", **sig)
        else:
            ensure(t1 != t2, f"memmap token collision: {case['v1']} vs {case['v2']} on the same file", "collision", **sig)
    finally:
        import shutil

        shutil.rmtree(d, ignore_errors=True)


@st.composite
def memmap_case(draw):
    def view():
        dt = draw(st.sampled_from(["u1", "<i2", "<i4", "<f4", "<i8", "<f8"]))
        nd = draw(st.integers(1, 2))
        return {"dtype": dt, "shape": [draw(st.integers(1, 4)) for _ in range(nd)], "offset": draw(st.sampled_from([0, 0, 8, 16]))}

    v1 = view()
    v2 = draw(st.one_of(st.just(v1), st.builds(lambda: view())))
    mode = draw(st.integers(0, 2))
    if mode == 0:
        # same bytes, other dtype of the same item size
        same = {1: ["u1", "|i1"], 2: ["<i2", "<u2"], 4: ["<i4", "<f4"], 8: ["<i8", "<f8"]}[np.dtype(v1["dtype"]).itemsize]
        v2 = dict(v1, dtype=[x for x in same if np.dtype(x) != np.dtype(v1["dtype"])][0])
    elif mode == 1 and len(v1["shape"]) == 2:
        v2 = dict(v1, shape=v1["shape"][::-1])
    return {"nbytes": 160, "mult": draw(st.integers(1, 7)), "v1": v1, "v2": v2}


# --------------------------------------------------------------------------
# fresh interpreters with another hash seed

_WORKERS = {}


def _worker(seed):
    if seed not in _WORKERS:
        env = dict(os.environ, PYTHONHASHSEED=str(seed))
        p = subprocess.Popen([sys.executable, "-W", "ignore", "-m", "vf.props._c12_worker"], stdin=subprocess.PIPE, stdout=subprocess.PIPE, env=env, text=True)
        _WORKERS[seed] = p
        atexit.register(_kill, p)
    return _WORKERS[seed]


def _kill(p):
    try:
        p.stdin.close()
        p.kill()
    except Exception:  # noqa: BLE001
        pass


def check_xproc(case):
    from dask.tokenize import tokenize

    spec = case["a"]
    v = V.build(spec)
    with impl("tokenize"):
        here = tokenize(v)
    for seed in (1, 2):
        p = _worker(seed)
        p.stdin.write(json.dumps(spec) + "\n")
        p.stdin.flush()
        line = p.stdout.readline()
        if not line:
            raise RuntimeError("token worker died")
        there = json.loads(line)
        if "error" in there:
            raise RuntimeError("token worker: " + there["error"])
        ensure(
            there["token"] == here,
            f"token differs in a fresh interpreter with PYTHONHASHSEED={seed}: {short(v)}",
            "cross-interpreter-token-differs",
            kind=spec["t"],
        )


SUBCHECKS = [
    Sub(
        "pairs",
        check,
        strategy=lambda tier: pair_case(),
        n={"quick": 6000, "thorough": 150000},
        nontrivial=nontrivial,
        classes=classes,
        doc="value pairs with a known equal/unequal relation",
    ),
    Sub(
        "memmap",
        check_memmap,
        strategy=lambda tier: memmap_case(),
        n={"quick": 300, "thorough": 5000},
        nontrivial=lambda c: c["v1"] != c["v2"],
        classes=lambda c: ["same-view" if c["v1"] == c["v2"] else "different-view"],
        doc="memmaps of one file with different dtype / shape / offset",
    ),
    Sub(
        "xproc",
        check_xproc,
        strategy=lambda tier: st.one_of(plain_nested, np_spec(), npobj_spec(), pd_spec()).map(lambda s: {"a": s}),
        n={"quick": 400, "thorough": 6000},
        nontrivial=lambda c: c["a"]["t"] in ("dict", "np", "npobj", "series", "frame", "index", "list", "tuple"),
        classes=lambda c: ["kind-" + c["a"]["t"]],
        shards=4,
        doc="plain data: same token in fresh interpreters with PYTHONHASHSEED=1 and 2",
    ),
]
