"""Shared machinery of the dataframe properties C36, C37, C38 and C42.

* ``build_case(frame_spec, clear_div)``: pandas frame, dask frame, the *reference
  input* (``ddf.compute()`` of the untouched frame, checked to be the pandas frame
  - exactly, or as a permutation when ``from_pandas(sort=True)`` had to sort an
  unsorted index) and the measured partition sizes.
* a small typed *expression language* over the columns of a frame (JSON) with one
  evaluator ``ev(df, e, env)`` that runs unchanged on a pandas frame and on a dask
  frame, and frame-level operations ``apply_op(obj, op, env)``; so the oracle is
  literally "the same program on pandas".
* Hypothesis generators for these programs that track a coarse column schema so
  that most generated programs are valid pandas (the rest is ``Reject``-ed).
* comparison helpers (value_counts as a mapping, lazy-meta agreement).
"""
from __future__ import annotations

import operator
import warnings

import numpy as np
import pandas as pd
from hypothesis import strategies as st

from vf import frames as F
from vf.core import Reject, Violation, canon_json, count, ensure

# --------------------------------------------------------------------------
# cases


class Case:
    pass


_CACHE: dict = {}


def is_dask(x):
    return hasattr(x, "__dask_graph__")


def build_case(fspec, clear_div=False):
    """Build (and memoise for the immediately following call) the frames of a spec.

    Raises Violation if the untouched dask frame does not compute to the pandas
    frame (that is the identity program of C36)."""
    key = canon_json([fspec, clear_div])
    hit = _CACHE.get("case")
    if hit is not None and hit[0] == key:
        if isinstance(hit[1], Exception):
            raise hit[1]
        return hit[1]
    try:
        c = _build_case(fspec, clear_div)
    except Violation as v:
        _CACHE["case"] = (key, v)
        raise
    _CACHE["case"] = (key, c)
    return c


def _len_series(df):
    return pd.Series([len(df)], dtype="int64")


def _stale_twin(ddf):
    """True if a column selection of ``ddf`` hangs on ANOTHER, earlier collection.

    Harness artefact, not a case of the properties: hand-cut frames are built with ``dd.from_map(vf.frames._Piece(...))``.
    ``FromMap._name`` is ``funcname(func) + token`` and funcname of a callable INSTANCE is its repr (memory address), while
    every derived expression is named by the content token alone.  When hypothesis generates the same frame spec a second
    time and expressions of the first build are still alive (reference cycles waiting for the garbage collector; dask keeps
    live expressions in a weak cache by name), ``ddf['d']`` of the new frame (any column whose selection is still alive) is the cached Projection of the OLD FromMap:
    dask then sees two unrelated collections, aligns them by a hash shuffle and (duplicate index) fails with 'cannot
    reindex on an axis with duplicate labels' - depending on what else is alive in the process, so the case does not
    replay.  The quantifier of the properties ranges over frames, partitionings and programs, not over garbage."""
    return any(ddf[c].expr.frame is not ddf.expr for c in ddf.columns)


def _build_case(fspec, clear_div):
    c = Case()
    c.spec = fspec
    c.pdf = F.build_pdf(fspec)
    ddf = F.build_ddf(fspec, c.pdf)
    if _stale_twin(ddf):
        import gc

        del ddf
        _CACHE.pop("case", None)
        gc.collect()
        count("stale-twin-collected")
        ddf = F.build_ddf(fspec, c.pdf)
        if _stale_twin(ddf):
            raise Reject("an equal from_map collection of an earlier case is still alive in this process")
    if clear_div:
        ddf = ddf.clear_divisions()
    c.ddf = ddf
    sig = dict(op="identity", how=fspec.get("partition", {}).get("how"), zero_rows=len(c.pdf) == 0)
    if list(ddf.dtypes) != list(c.pdf.dtypes):
        # dask defect outside these properties (tokens, C12): tokenize(DataFrame) ignores which column lives
        # in which consolidated block, so two frames with equal block arrays but different per-column dtypes
        # (always the case for zero rows) collide and from_pandas/from_map hands back the still-alive
        # expression - i.e. the DATA - of the earlier frame.  Reported with its own symptom.
        raise Violation(
            f"from_pandas returned the expression of another frame (token collision): lazy dtypes {list(ddf.dtypes)} vs pandas {list(c.pdf.dtypes)}",
            "from_pandas-token-collision",
            **sig,
        )
    try:
        base = F.compute(ddf)
        sizes = [int(x) for x in F.compute(ddf.map_partitions(_len_series, meta=(None, "int64"), enforce_metadata=False))]
    except Exception as e:  # noqa: BLE001
        raise Violation(f"computing the untouched frame raised {type(e).__name__}: {e}", "raises:" + type(e).__name__, **sig) from e
    p = fspec.get("partition", {})
    sorted_by_dask = p.get("how") in ("npartitions", "chunksize") and p.get("sort", True) and not c.pdf.index.is_monotonic_increasing
    if sorted_by_dask:
        # from_pandas(sort=True) sorts an unsorted index; the order among equal
        # labels is not promised, so the reference input is what dask holds,
        # provided it is a permutation of the pandas frame with a sorted index
        ensure(base.index.is_monotonic_increasing, "from_pandas(sort=True) result index is not sorted", "from_pandas-not-sorted", **sig)
        F.assert_eq(base, c.pdf, what="from_pandas(sort=True) roundtrip (as multiset)", check_order=False, sig=sig)
    else:
        F.assert_eq(base, c.pdf, what="from_pandas/from_map roundtrip", sig=sig)
    c.base = base
    c.sizes = sizes
    c.nparts = len(sizes)
    c.has_empty = any(s == 0 for s in sizes)
    c.known_div = bool(ddf.known_divisions)
    c.unique_index = bool(base.index.is_unique)
    c.monotonic = bool(base.index.is_monotonic_increasing)
    ensure(ddf.npartitions == len(sizes), "npartitions != number of computed partitions", "npartitions-mismatch", **sig)
    ensure(sum(sizes) == len(c.pdf), f"partition sizes {sizes} do not add up to {len(c.pdf)} rows", "rows-lost", **sig)
    return c


def case_info(fspec, clear_div=False):
    """Case for nontrivial()/classes(): never raises."""
    try:
        return build_case(fspec, clear_div)
    except Exception:  # noqa: BLE001
        return None


def frame_classes(spec):
    c = case_info(spec["frame"], spec.get("clear_div", False))
    if c is None:
        return
    yield "nparts-%s" % ("1" if c.nparts == 1 else "2" if c.nparts == 2 else "3+")
    if c.has_empty:
        yield "empty-partition"
    yield "known-div" if c.known_div else "unknown-div"
    if not c.unique_index:
        yield "dup-index"
    if len(c.pdf) == 0:
        yield "zero-rows"
    yield "index-" + spec["frame"].get("index", {}).get("kind", "range")
    yield "part-" + spec["frame"]["partition"]["how"]


# --------------------------------------------------------------------------
# schema classes

KIND2CLS = {
    "int": "int", "key": "int", "float": "float", "keyna": "float", "bool": "bool", "str": "str", "obj": "obj",
    "datetime": "dt", "cat": "cat", "Int64": "Int64", "Float64": "Float64", "boolean": "boolean",
}
NUMPY_NUM = ("int", "float")
NUM = ("int", "float", "Int64", "Float64")
BOOLS = ("bool", "boolean")
STRS = ("str", "obj")


def schema_of(fspec):
    return [[c["name"], KIND2CLS[c["kind"]]] for c in fspec["columns"]]


def cols_of(schema, classes):
    return [n for n, c in schema if c in classes]


# --------------------------------------------------------------------------
# named functions for map/apply (specs carry the name)


def _inc(x):
    return x + 1


def _double(x):
    return x * 2


def _sq(x):
    return x * x


def _nanzero(x):
    return 0.0 if x != x else float(x)


def _slen(s):
    return len(s) if isinstance(s, str) else -1


def _tag(x):
    return f"<{x}>"


def _rowsum(r):
    return r.sum()


def _rowmax(r):
    return r.max()


def _rowspan(r):
    return r.max() - r.min()


def _center(s):
    return s - s.mean()


def _rank_first(s):
    return s.rank(method="first")


def _cummax(s):
    return s.cummax()


FUNCS = {
    "inc": _inc, "double": _double, "sq": _sq, "nanzero": _nanzero, "slen": _slen, "tag": _tag, "rowsum": _rowsum,
    "rowmax": _rowmax, "rowspan": _rowspan, "center": _center, "rank_first": _rank_first, "cummax": _cummax,
}

# --------------------------------------------------------------------------
# expression language

BINOPS = {
    "add": operator.add, "sub": operator.sub, "mul": operator.mul, "truediv": operator.truediv,
    "floordiv": operator.floordiv, "mod": operator.mod, "pow": operator.pow,
    "lt": operator.lt, "le": operator.le, "gt": operator.gt, "ge": operator.ge, "eq": operator.eq, "ne": operator.ne,
    "and": operator.and_, "or": operator.or_, "xor": operator.xor,
}
ARITH = ["add", "sub", "mul", "truediv", "floordiv", "mod"]
CMP = ["lt", "le", "gt", "ge", "eq", "ne"]


def lit(v):
    if isinstance(v, dict):
        if "ts" in v:
            return pd.Timestamp(v["ts"])
        if "td" in v:
            return pd.Timedelta(v["td"])
        if "nan" in v:
            return np.nan
        if "dict" in v:
            return {k: lit(x) for k, x in v["dict"]}
        if "catdtype" in v:
            # a CategoricalDtype INSTANCE without categories (same meaning as the string "category")
            return pd.CategoricalDtype(**v["catdtype"])
    if isinstance(v, list):
        return [lit(x) for x in v]
    return v


class Env:
    """Evaluation environment of one side (pandas or dask)."""

    def __init__(self, case, side):
        self.case = case
        self.side = side
        self.used_other = False
        self.used_root = False
        self.others = []
        self.root = case.base if side == "pd" else case.ddf

    def other(self, e):
        """A series/frame over the same index as the input frame but coming from
        *another* partitioning (dask side) / the plain pandas object (pandas side)."""
        self.used_other = True
        base = self.case.base
        obj = base[e["cols"]] if "cols" in e else base[e["col"]]
        if self.side == "pd":
            return obj
        import dask.dataframe as dd

        o = dd.from_pandas(obj, npartitions=e.get("n", 2), sort=True)
        if e.get("unknown"):
            o = o.clear_divisions()
        self.others.append((o.npartitions, bool(o.known_divisions)))
        return o


def ev(df, e, env):
    t = e["e"]
    if t == "col":
        return df[e["name"]]
    if t == "lit":
        return lit(e["v"])
    if t == "bin":
        return BINOPS[e["op"]](ev(df, e["l"], env), ev(df, e["r"], env))
    if t == "neg":
        return -ev(df, e["x"], env)
    if t == "inv":
        return ~ev(df, e["x"], env)
    if t == "meth":
        x = ev(df, e["x"], env)
        args = [ev(df, a, env) if isinstance(a, dict) and "e" in a else lit(a) for a in e.get("args", [])]
        kw = {k: lit(v) for k, v in e.get("kw", {}).items()}
        return getattr(x, e["m"])(*args, **kw)
    if t == "acc":
        x = ev(df, e["x"], env)
        a = getattr(x, e["acc"])
        m = e["m"]
        if m == "as_known":
            # dask-only spelling of the identity on a known categorical
            return a.as_known() if is_dask(x) else x
        if e.get("prop"):
            return getattr(a, m)
        if m == "getitem":
            return a[e["args"][0]]
        args = [ev(df, a_, env) if isinstance(a_, dict) and "e" in a_ else lit(a_) for a_ in e.get("args", [])]
        kw = {k: lit(v) for k, v in e.get("kw", {}).items()}
        return getattr(a, m)(*args, **kw)
    if t in ("where", "mask"):
        x = ev(df, e["x"], env)
        cond = ev(df, e["cond"], env)
        other = ev(df, e["other"], env)
        return getattr(x, t)(cond, other)
    if t == "map":
        x = ev(df, e["x"], env)
        kw = {"meta": (x.name, e["meta"])} if is_dask(x) else {}
        if e.get("na_action"):
            kw["na_action"] = e["na_action"]
        return x.map(FUNCS[e["fn"]], **kw)
    if t == "apply":
        x = ev(df, e["x"], env)
        kw = {"meta": (x.name, e["meta"])} if is_dask(x) else {}
        return x.apply(FUNCS[e["fn"]], **kw)
    if t == "red":
        x = ev(df, e["x"], env)
        return getattr(x, e["r"])()
    if t == "other":
        return env.other(e)
    if t == "root":
        # a column of the ORIGINAL (unfiltered, unprojected) input frame: co-aligned in dask
        env.used_root = True
        return env.root[e["name"]]
    raise ValueError(t)


def walk(e):
    """All nodes of an expression/op (dict) tree."""
    if isinstance(e, dict):
        yield e
        for v in e.values():
            yield from walk(v)
    elif isinstance(e, list):
        for v in e:
            yield from walk(v)


def features(ops):
    """Stable, low-cardinality labels of what a program uses."""
    out = set()
    for n in walk(ops):
        if "op" in n and "e" not in n and isinstance(n["op"], str):
            out.add("op:" + n["op"])
        t = n.get("e")
        if t is None:
            continue
        if t == "acc":
            out.add(f"{n['acc']}.{n['m']}")
        elif t == "meth":
            out.add("m:" + n["m"])
        elif t == "bin":
            out.add("arith" if n["op"] in ARITH or n["op"] == "pow" else "cmp" if n["op"] in CMP else "logic")
        elif t in ("where", "mask", "map", "apply", "red", "other", "root", "neg", "inv"):
            out.add(t)
    return sorted(out)


def uses(ops, t):
    return any(n.get("e") == t for n in walk(ops))


# --------------------------------------------------------------------------
# frame-level operations


def _frame_meta(sub, dtype):
    return {c: dtype for c in sub.columns}


def apply_op(obj, op, env):
    k = op["op"]
    if k == "project":
        return obj[list(op["cols"])]
    if k == "getcol":
        return obj[op["col"]]
    if k == "filter":
        pred = ev(obj, op["pred"], env)
        if not is_dask(pred) and getattr(pred, "dtype", None) == object:
            # e.g. object-column .str.contains with missing values, or on zero rows: whether pandas reads an
            # object-dtype key as a mask or as a list of labels depends on the data - outside the domain
            raise Reject("object-dtype filter predicate")
        return obj[pred]
    if k == "assign":
        # "more": further keyword arguments of the SAME assign call (pandas keeps keyword order)
        items = [(op["name"], op["value"])] + [tuple(x) for x in op.get("more", [])]
        return obj.assign(**{n: ev(obj, v, env) for n, v in items})
    if k == "expr":
        return ev(obj, op["value"], env)
    if k == "frame_bin":
        sub = obj[list(op["cols"])]
        other = ev(obj, op["other"], env)
        if op.get("method"):
            kw = {}
            if "axis" in op:
                kw["axis"] = op["axis"]
            if op.get("fill_value") is not None:
                kw["fill_value"] = op["fill_value"]
            name = op["fn"] if not op.get("reflected") else "r" + op["fn"]
            return getattr(sub, name)(other, **kw)
        if op.get("reflected"):
            return BINOPS[op["fn"]](other, sub)
        return BINOPS[op["fn"]](sub, other)
    if k == "frame_frame":
        l = obj[list(op["cols"])]
        r = ev(obj, op["other"], env) if "other" in op else obj[list(op["cols2"])]
        return BINOPS[op["fn"]](l, r)
    if k == "astype":
        return obj.astype(lit(op["dtypes"]))
    if k == "fillna":
        sub = obj[list(op["cols"])] if "cols" in op else obj
        v = op["value"]
        if isinstance(v, dict) and "red" in v:
            # df.fillna(df.max()): the fill values are a (lazy) Series labelled by the column names
            return sub.fillna(getattr(sub, v["red"])())
        return sub.fillna(lit(v))
    if k in ("where", "mask"):
        sub = obj[list(op["cols"])]
        cond = BINOPS[op["cmp"]](sub, lit(op["than"]))
        return getattr(sub, k)(cond, lit(op["other"]))
    if k == "isin":
        return obj[list(op["cols"])].isin(lit(op["values"]))
    if k == "clip":
        return obj[list(op["cols"])].clip(lower=op.get("lower"), upper=op.get("upper"))
    if k == "fmap":
        sub = obj[list(op["cols"])]
        kw = {"meta": _frame_meta(sub, op["meta"])} if is_dask(sub) else {}
        return sub.map(FUNCS[op["fn"]], **kw)
    if k == "apply_rows":
        sub = obj[list(op["cols"])]
        kw = {"meta": (None, op["meta"])} if is_dask(sub) else {}
        return sub.apply(FUNCS[op["fn"]], axis=1, **kw)
    if k == "rename":
        return obj.rename(columns=dict(op["columns"]))
    if k == "abs":
        return obj[list(op["cols"])].abs()
    if k == "round":
        return obj.round(op["decimals"])
    if k == "neg":
        return -obj[list(op["cols"])]
    raise ValueError(k)


def run_pipeline(obj, ops, env, apply=apply_op):
    for op in ops:
        obj = apply(obj, op, env)
    return obj


# --------------------------------------------------------------------------
# generators (plain functions taking hypothesis' ``draw``)

NUM_LITS = [-3, -1, 0, 1, 2, 5, 0.5, -1.5, 2.0]
NZ_LITS = [-3, -1, 1, 2, 5, 0.5, -1.5, 2.0]
STR_LITS = ["a", "b", "ab", "foo", "Bar", "", "zz"]
TS_LITS = ["2021-01-02", "2021-01-04 12:00:00", "2021-01-07"]


def _lit(v):
    return {"e": "lit", "v": v}


def _col(n):
    return {"e": "col", "name": n}


def _sample(draw, xs):
    return draw(st.sampled_from(list(xs)))


def gen_other(draw, schema0, classes=NUMPY_NUM):
    """A series from another partitioning; refers to the ORIGINAL columns."""
    cs = cols_of(schema0, classes)
    if not cs:
        return None
    return {"e": "other", "col": _sample(draw, cs), "n": draw(st.integers(1, 4)), "unknown": draw(st.integers(0, 5)) == 0}


def gen_num(draw, schema, ctx, depth=0):
    """-> (expr, cls) with cls in NUM, or None."""
    nums = cols_of(schema, NUM)
    choices = []
    if nums:
        choices += ["col", "col", "arith", "arith", "unary", "fillna", "clip", "where", "astype"]
        if cols_of(schema, NUMPY_NUM):
            choices += ["map"]
        if ctx.get("allow_other") and cols_of(ctx["schema0"], NUMPY_NUM):
            choices += ["other"]
    if ctx.get("allow_root") and ctx.get("pos", 0) > 0 and cols_of(ctx["schema0"], NUMPY_NUM):
        choices += ["root"]
    if cols_of(schema, STRS):
        choices += ["strlen", "strlen"]
    if cols_of(schema, ("dt",)):
        choices += ["dtprop", "dtprop", "dtprop"]
    if cols_of(schema, ("cat",)):
        choices += ["codes", "codes", "codes"]
    if not choices:
        return None
    if depth >= 2:
        choices = [c for c in choices if c in ("col", "strlen", "dtprop", "codes", "root")] or ["col"]
        if not nums and "col" in choices:
            return None
    k = _sample(draw, choices)
    if k == "col":
        n = _sample(draw, nums)
        return _col(n), dict(schema)[n]
    if k == "root":
        n = _sample(draw, cols_of(ctx["schema0"], NUMPY_NUM))
        return {"e": "root", "name": n}, dict(ctx["schema0"])[n]
    if k == "arith":
        l, lc = gen_num(draw, schema, ctx, depth + 1) if draw(st.booleans()) else (lambda n: (_col(n), dict(schema)[n]))(_sample(draw, nums))
        op = _sample(draw, ARITH + ["pow"])
        rk = _sample(draw, ["lit", "lit", "col", "expr"])
        if op == "pow":
            r, rc = _lit(2), "int"
            rk = "expr"
        elif op in ("floordiv", "mod") or (op == "truediv" and ctx.get("nonzero_div")):
            # integer // and % by zero: pandas' result dtype (int or float with inf) then depends on the data AND
            # on the internal block layout of the frame (probe: -3 // df[["a","c"]] gives int64/float64 or
            # float64/float64 for the same values) - only non-zero literal divisors are in the domain
            r, rc = _lit(_sample(draw, NZ_LITS)), "float"
            rk = "expr"
        elif rk == "lit":
            v = _sample(draw, NUM_LITS)
            r, rc = _lit(v), ("int" if isinstance(v, int) else "float")
        elif rk == "col":
            n = _sample(draw, nums)
            r, rc = _col(n), dict(schema)[n]
        else:
            r, rc = gen_num(draw, schema, ctx, depth + 1)
        if rk == "lit" and draw(st.integers(0, 3)) == 0:
            l, r = r, l  # reflected: literal on the left
        return {"e": "bin", "op": op, "l": l, "r": r}, _arith_cls(lc, rc, op)
    x, xc = (lambda n: (_col(n), dict(schema)[n]))(_sample(draw, nums)) if nums else (None, None)
    if k == "unary":
        m = _sample(draw, ["abs", "round", "neg"])
        if m == "neg":
            return {"e": "neg", "x": x}, xc
        if m == "round":
            return {"e": "meth", "x": x, "m": "round", "args": [draw(st.integers(0, 2))]}, xc
        return {"e": "meth", "x": x, "m": "abs"}, xc
    if k == "fillna":
        return {"e": "meth", "x": x, "m": "fillna", "args": [_sample(draw, [0, -1, 7])]}, xc
    if k == "clip":
        lo = draw(st.integers(-10, 3))
        kw = {"lower": lo, "upper": lo + draw(st.integers(0, 12))}
        drop = draw(st.integers(0, 3))
        if drop == 0:
            del kw["lower"]
        elif drop == 1:
            del kw["upper"]
        return {"e": "meth", "x": x, "m": "clip", "kw": kw}, xc
    if k == "where":
        cond = gen_bool(draw, schema, ctx, depth + 1, plain=True)
        if cond is None:
            return x, xc
        other = _lit(_sample(draw, [0, -1, {"nan": 1}])) if draw(st.booleans()) else _col(_sample(draw, nums))
        return {"e": _sample(draw, ["where", "mask"]), "x": x, "cond": cond, "other": other}, "float"
    if k == "astype":
        tgt = _sample(draw, [t for t in ASTYPE[xc] if not (ctx.get("no_float32") and t == "float32")])
        return {"e": "meth", "x": x, "m": "astype", "args": [tgt]}, DT2CLS.get(tgt, "other")
    if k == "map":
        n = _sample(draw, cols_of(schema, NUMPY_NUM))
        c = dict(schema)[n]
        fn = _sample(draw, ["inc", "double", "sq", "nanzero"])
        meta = "float64" if (c == "float" or fn == "nanzero") else "int64"
        kind = _sample(draw, ["map", "map", "apply"])
        e = {"e": kind, "x": _col(n), "fn": fn, "meta": meta}
        return e, ("float" if meta == "float64" else "int")
    if k == "other":
        return gen_other(draw, ctx["schema0"]), "float"
    if k == "strlen":
        return {"e": "acc", "x": _col(_sample(draw, cols_of(schema, STRS))), "acc": "str", "m": "len"}, "float"
    if k == "dtprop":
        return {"e": "acc", "x": _col(_sample(draw, cols_of(schema, ("dt",)))), "acc": "dt", "m": _sample(draw, ["year", "dayofweek", "hour", "day"]), "prop": True}, "float"
    if k == "codes":
        return {"e": "acc", "x": _col(_sample(draw, cols_of(schema, ("cat",)))), "acc": "cat", "m": "codes", "prop": True}, "int"
    raise AssertionError(k)


ASTYPE = {
    "int": ["float64", "int32", "Int64", "object", "float32"],
    "float": ["float32", "Float64", "object"],
    "Int64": ["Float64", "float64", "object"],
    "Float64": ["float64", "object"],
    "bool": ["int64", "float64", "boolean", "object"],
    "boolean": ["object", "Int64"],
    "str": ["object", "category"],
    "obj": ["str", "category"],
    "cat": ["object", "str"],
    "dt": ["datetime64[s]", "object"],
}
DT2CLS = {
    "float64": "float", "float32": "float", "int32": "int", "int64": "int", "Int64": "Int64", "Float64": "Float64",
    "boolean": "boolean", "object": "other", "str": "str", "category": "ucat", "datetime64[s]": "dt",
}


def _arith_cls(a, b, op):
    if "Float64" in (a, b) or ("Int64" in (a, b) and ("float" in (a, b) or op == "truediv")):
        return "Float64"
    if "Int64" in (a, b):
        return "Int64"
    if "float" in (a, b) or op == "truediv":
        return "float"
    return "int"


def gen_bool(draw, schema, ctx, depth=0, plain=False):
    """Boolean series expression (or None)."""
    nums = cols_of(schema, NUM)
    choices = []
    if nums:
        choices += ["cmp", "cmp", "cmp_col", "isin", "isna", "between"]
        if not plain:
            choices += ["cmp_red"]
        if ctx.get("ext") and not plain:
            # a predicate that is NOT row-wise: it depends on the neighbouring rows of the frame it is taken from
            # (f[f.b.shift(1) > 10] after an earlier filter must see the FILTERED neighbours)
            choices += ["seqcmp"]
    if cols_of(schema, BOOLS):
        choices += ["boolcol"]
    if cols_of(schema, STRS):
        choices += ["streq", "strpred", "strisin"]
    if cols_of(schema, ("dt",)):
        choices += ["dtcmp"]
    if cols_of(schema, ("cat",)):
        choices += ["cateq"]
    if not choices:
        return None
    if depth < 2 and draw(st.integers(0, 4)) == 0:
        a = gen_bool(draw, schema, ctx, depth + 1, plain)
        b = gen_bool(draw, schema, ctx, depth + 1, plain)
        k = _sample(draw, ["and", "or", "inv"])
        if k == "inv":
            return {"e": "inv", "x": a}
        return {"e": "bin", "op": k, "l": a, "r": b}
    k = _sample(draw, choices)
    if k in ("cmp", "cmp_col", "cmp_red", "isin", "isna", "between", "seqcmp"):
        n = _sample(draw, nums)
        x = _col(n)
        if k == "seqcmp":
            m = _sample(draw, ["shift", "shift", "diff", "ffill", "bfill"])
            args = [_sample(draw, [1, 1, -1, 2])] if m in ("shift", "diff") else []
            return {"e": "bin", "op": _sample(draw, CMP), "l": {"e": "meth", "x": x, "m": m, "args": args}, "r": _lit(_sample(draw, NUM_LITS))}
        if k == "cmp" and depth < 2 and draw(st.integers(0, 3)) == 0:
            g = gen_num(draw, schema, ctx, depth + 1)
            if g is not None:
                x = g[0]
        if k == "cmp":
            return {"e": "bin", "op": _sample(draw, CMP), "l": x, "r": _lit(_sample(draw, NUM_LITS))}
        if k == "cmp_col":
            return {"e": "bin", "op": _sample(draw, CMP), "l": x, "r": _col(_sample(draw, nums))}
        if k == "cmp_red":
            # df[df.a > df.a.mean()]: only reductions whose value does not depend on the
            # summation order (extrema always; mean/sum only for integer columns) - a last-bit
            # difference of a float mean could flip a comparison, which no one promises
            m = _sample(draw, nums)
            exact = dict(schema)[m] in ("int", "Int64")
            r = _sample(draw, ["max", "min", "mean", "sum"] if exact else ["max", "min"])
            return {"e": "bin", "op": _sample(draw, CMP), "l": x, "r": {"e": "red", "x": _col(m), "r": r}}
        if k == "isin":
            vals = draw(st.lists(st.sampled_from([-2, 0, 1, 2, 3, 10, 0.5, 2.0]), min_size=0, max_size=4))
            return {"e": "meth", "x": x, "m": "isin", "args": [vals]}
        if k == "isna":
            return {"e": "meth", "x": x, "m": _sample(draw, ["isna", "notnull"])}
        lo = draw(st.integers(-10, 5))
        return {"e": "meth", "x": x, "m": "between", "args": [lo, lo + draw(st.integers(0, 15))]}
    if k == "boolcol":
        return _col(_sample(draw, cols_of(schema, BOOLS)))
    if k == "streq":
        return {"e": "bin", "op": _sample(draw, ["eq", "ne"]), "l": _col(_sample(draw, cols_of(schema, STRS))), "r": _lit(_sample(draw, STR_LITS))}
    if k == "strpred":
        m = _sample(draw, ["contains", "startswith", "endswith", "isupper"])
        e = {"e": "acc", "x": _col(_sample(draw, cols_of(schema, STRS))), "acc": "str", "m": m}
        if m == "contains":
            e["args"] = [_sample(draw, ["a", "o", "z", "b"])]
            e["kw"] = {"regex": draw(st.booleans())}
        elif m != "isupper":
            e["args"] = [_sample(draw, ["a", "b", "f", "z"])]
        return e
    if k == "strisin":
        return {"e": "meth", "x": _col(_sample(draw, cols_of(schema, STRS))), "m": "isin", "args": [draw(st.lists(st.sampled_from(STR_LITS), max_size=3))]}
    if k == "dtcmp":
        return {"e": "bin", "op": _sample(draw, CMP), "l": _col(_sample(draw, cols_of(schema, ("dt",)))), "r": _lit({"ts": _sample(draw, TS_LITS)})}
    if k == "cateq":
        return {"e": "bin", "op": _sample(draw, ["eq", "ne"]), "l": _col(_sample(draw, cols_of(schema, ("cat",)))), "r": _lit(_sample(draw, ["u", "v", "w"]))}
    raise AssertionError(k)


def gen_str(draw, schema, ctx):
    cs = cols_of(schema, STRS)
    if not cs:
        return None
    x = _col(_sample(draw, cs))
    m = _sample(draw, ["upper", "lower", "slice", "cat", "catlit", "getitem", "replace", "strip", "zfill"])
    if m in ("upper", "lower", "strip"):
        return {"e": "acc", "x": x, "acc": "str", "m": m}
    if m == "slice":
        a = draw(st.integers(-2, 2))
        return {"e": "acc", "x": x, "acc": "str", "m": "slice", "args": [a, draw(st.sampled_from([None, 1, 2, 3, -1]))]}
    if m == "cat":
        kw = {"sep": _sample(draw, ["", "-", None])}
        if draw(st.booleans()):
            kw["na_rep"] = "?"
        return {"e": "acc", "x": x, "acc": "str", "m": "cat", "args": [_col(_sample(draw, cs))], "kw": kw}
    if m == "catlit":
        return {"e": "bin", "op": "add", "l": x, "r": _lit(_sample(draw, ["!", "_x"]))}
    if m == "getitem":
        return {"e": "acc", "x": x, "acc": "str", "m": "getitem", "args": [draw(st.integers(-1, 2))]}
    if m == "replace":
        return {"e": "acc", "x": x, "acc": "str", "m": "replace", "args": [_sample(draw, ["a", "o", "b"]), "#"], "kw": {"regex": False}}
    return {"e": "acc", "x": x, "acc": "str", "m": "zfill", "args": [draw(st.integers(0, 4))]}


def gen_dt(draw, schema, ctx):
    cs = cols_of(schema, ("dt",))
    if not cs:
        return None
    x = _col(_sample(draw, cs))
    m = _sample(draw, ["floor", "normalize", "addtd", "ceil"])
    if m in ("floor", "ceil"):
        return {"e": "acc", "x": x, "acc": "dt", "m": m, "args": [_sample(draw, ["D", "h", "6h"])]}
    if m == "normalize":
        return {"e": "acc", "x": x, "acc": "dt", "m": "normalize"}
    return {"e": "bin", "op": _sample(draw, ["add", "sub"]), "l": x, "r": _lit({"td": _sample(draw, ["1D", "90min"])})}


def gen_cat(draw, schema, ctx):
    # "ucat": categorical made by astype("category"), whose categories dask does not know lazily.  The
    # dask docs require .cat.as_known()/categorize() before category-dependent operations on those, so
    # only as_known is generated for them.
    cs = cols_of(schema, ("cat",))
    ucs = cols_of(schema, ("ucat",))
    if not cs and not ucs:
        return None
    if not cs or (ucs and draw(st.booleans())):
        return {"e": "acc", "x": _col(_sample(draw, ucs)), "acc": "cat", "m": "as_known"}
    x = _col(_sample(draw, cs))
    m = _sample(draw, ["as_known", "as_ordered", "add_categories", "rename_categories"])
    if m == "as_known":
        return {"e": "acc", "x": x, "acc": "cat", "m": "as_known"}
    if m == "as_ordered":
        return {"e": "acc", "x": x, "acc": "cat", "m": "as_ordered"}
    if m == "add_categories":
        return {"e": "acc", "x": x, "acc": "cat", "m": "add_categories", "args": [["extra"]]}
    return {"e": "acc", "x": x, "acc": "cat", "m": "rename_categories", "args": [{"dict": [["u", "U"]]}]}


def gen_any(draw, schema, ctx):
    """-> (expr, cls)"""
    kinds = ["num", "num", "bool"]
    if cols_of(schema, STRS):
        kinds += ["str", "str", "str", "str"]
    if cols_of(schema, ("dt",)):
        kinds += ["dt", "dt", "dt"]
    if cols_of(schema, ("cat", "ucat")):
        kinds += ["cat", "cat", "cat"]
    for _ in range(3):
        k = _sample(draw, kinds)
        if k == "num":
            g = gen_num(draw, schema, ctx)
            if g is not None:
                return g
        elif k == "bool":
            g = gen_bool(draw, schema, ctx)
            if g is not None:
                return g, "bool"
        elif k == "str":
            return gen_str(draw, schema, ctx), "str"
        elif k == "dt":
            return gen_dt(draw, schema, ctx), "dt"
        elif k == "cat":
            return gen_cat(draw, schema, ctx), "cat"
    n = _sample(draw, [n for n, _ in schema])
    return _col(n), dict(schema)[n]


FILL = {"int": 0, "float": -1.5, "Int64": 0, "Float64": 0.5, "str": "missing", "obj": "missing", "dt": {"ts": "2021-01-01"}, "cat": "u", "boolean": False, "bool": False}


def gen_frame_op(draw, schema, ctx, last):
    """-> (op, new_schema, is_series)"""
    names = [n for n, _ in schema]
    d = dict(schema)
    nums = cols_of(schema, NUM)
    npnums = cols_of(schema, NUMPY_NUM)
    choices = ["project", "filter", "filter", "assign", "assign", "assign", "assign", "rename", "round", "astype", "fillna", "isin"]
    if nums:
        choices += ["frame_bin", "frame_bin", "where", "clip", "abs", "frame_frame"]
    if npnums:
        choices += ["fmap"]
        if last:
            choices += ["apply_rows"]
    if last:
        choices += ["expr", "expr", "expr", "expr", "expr", "getcol"]
    k = _sample(draw, choices)

    def subset(cs, min_size=1):
        xs = draw(st.lists(st.sampled_from(cs), min_size=min_size, max_size=len(cs), unique=True))
        return xs

    if k == "project":
        cols = subset(names)
        return {"op": "project", "cols": cols}, [[n, d[n]] for n in cols], False
    if k == "getcol":
        return {"op": "getcol", "col": _sample(draw, names)}, schema, True
    if k == "filter":
        pred = gen_bool(draw, schema, ctx)
        if pred is None:
            return {"op": "project", "cols": names}, schema, False
        return {"op": "filter", "pred": pred}, schema, False
    if k == "assign":
        name = _sample(draw, names + ["z", "y"])
        if draw(st.integers(0, 6)) == 0:
            v = _sample(draw, [1, 2.5, "k"])
            val, cls = _lit(v), ("int" if isinstance(v, int) else "float" if isinstance(v, float) else "str")
        else:
            val, cls = gen_any(draw, schema, ctx)
        new = [[n, c] for n, c in schema]
        if name in d:
            new = [[n, (cls if n == name else c)] for n, c in schema]
        else:
            new.append([name, cls])
        op = {"op": "assign", "name": name, "value": val}
        if draw(st.integers(0, 2)) == 0:
            # several keyword arguments in one call, mixing literals, expressions of this frame and of other collections
            more, used = [], {name}
            for _ in range(draw(st.integers(1, 2))):
                n2 = _sample(draw, [x for x in names + ["z", "y", "w"] if x not in used])
                used.add(n2)
                how = draw(st.integers(0, 3))
                oth = gen_other(draw, ctx["schema0"]) if how == 1 and ctx.get("allow_other") else None
                if how == 0:
                    v = _sample(draw, [1, 2.5, "k"])
                    v2, c2 = _lit(v), ("int" if isinstance(v, int) else "float" if isinstance(v, float) else "str")
                elif oth is not None:
                    # a series of another partitioning after (or before) plain values in the same call
                    v2, c2 = oth, "float"
                else:
                    v2, c2 = gen_any(draw, schema, ctx)
                more.append([n2, v2])
                if n2 in dict(new):
                    new = [[n, (c2 if n == n2 else c)] for n, c in new]
                else:
                    new.append([n2, c2])
            op["more"] = more
        return op, new, False
    if k == "expr":
        val, cls = gen_any(draw, schema, ctx)
        return {"op": "expr", "value": val}, schema, True
    if k == "rename":
        cs = subset(names)
        # duplicate column labels are outside the quantifier of C36 (and of what dask supports):
        # new labels are always fresh
        pool = [x for x in ["A", "B", "C", "D", "E", "F", "G", "H", "I", "J", "K", "L"] if x not in names]
        mapping = [[c, pool[i]] for i, c in enumerate(cs)]
        if draw(st.integers(0, 3)) == 0:
            mapping.append(["nope", "N"])  # labels not present are ignored by pandas
        m = dict(mapping)
        return {"op": "rename", "columns": mapping}, [[m.get(n, n), c] for n, c in schema], False
    if k == "round":
        return {"op": "round", "decimals": draw(st.integers(0, 2))}, schema, False
    if k == "astype":
        cs = [n for n, c in schema if c in ASTYPE]
        if not cs:
            return {"op": "project", "cols": names}, schema, False
        chosen = subset(cs)[:2]
        dt = [[n, _sample(draw, [t for t in ASTYPE[d[n]] if not (ctx.get("no_float32") and t == "float32")])] for n in chosen]
        m = dict(dt)
        return {"op": "astype", "dtypes": {"dict": dt}}, [[n, (DT2CLS.get(m[n], "other") if n in m else c)] for n, c in schema], False
    if k == "fillna":
        cs = [n for n, c in schema if c in FILL]
        if ctx.get("ext") and nums and draw(st.integers(0, 3)) == 0:
            # fill with a reduction of the same columns, df.fillna(df.max()) (extrema: independent of summation order)
            cols = subset(nums)
            return {"op": "fillna", "cols": cols, "value": {"red": _sample(draw, ["max", "min"])}}, [[n, d[n]] for n in cols], False
        if nums and draw(st.booleans()):
            # scalar fill on a numeric projection
            cols = subset(nums)
            return {"op": "fillna", "cols": cols, "value": _sample(draw, [0, -1, 2.5])}, [[n, d[n]] for n in cols], False
        if not cs:
            return {"op": "project", "cols": names}, schema, False
        chosen = subset(cs)
        return {"op": "fillna", "value": {"dict": [[n, FILL[d[n]]] for n in chosen]}}, schema, False
    if k == "isin":
        cols = subset(names)
        pool = [0, 1, 2, -1, 0.5, "a", "foo", "u", True]
        if ctx.get("ext") and draw(st.integers(0, 2)) == 0:
            # values per column: df.isin({"a": [1, 2], "b": [...]}) (labels that are not columns are ignored by pandas)
            keys = subset(names) + (["nope"] if draw(st.integers(0, 4)) == 0 else [])
            vals = {"dict": [[c, draw(st.lists(st.sampled_from(pool), max_size=3))] for c in keys]}
            return {"op": "isin", "cols": cols, "values": vals}, [[n, "bool"] for n in cols], False
        vals = draw(st.lists(st.sampled_from(pool), max_size=4))
        return {"op": "isin", "cols": cols, "values": vals}, [[n, "bool"] for n in cols], False
    if k == "frame_bin":
        cols = subset(nums)
        fn = _sample(draw, ARITH + CMP)
        ok = _sample(draw, ["lit", "lit", "series", "other"])
        op = {"op": "frame_bin", "cols": cols, "fn": fn}
        if fn in ("floordiv", "mod") or (fn == "truediv" and ctx.get("nonzero_div")):
            ok = "lit"
        if ok == "lit" or fn in CMP and ok == "other":
            nz = fn in ("floordiv", "mod") or (fn == "truediv" and ctx.get("nonzero_div"))
            op["other"] = _lit(_sample(draw, NZ_LITS if nz else NUM_LITS))
            op["reflected"] = (not nz) and draw(st.integers(0, 3)) == 0
            if draw(st.booleans()):
                op["method"] = True
        else:
            # frame (op) series aligned on the index: DataFrame.add(series, axis=0)
            s = None
            if ok == "other" and ctx.get("allow_other"):
                s = gen_other(draw, ctx["schema0"])
            if s is None:
                g = gen_num(draw, schema, ctx, 1)
                s = g[0]
            op["other"] = s
            op["method"] = True
            op["axis"] = 0
        cls = "bool" if fn in CMP else "float"
        return op, [[n, cls] for n in cols], False
    if k == "frame_frame":
        cols = subset(nums)
        fn = _sample(draw, ["add", "sub", "mul", "lt", "ge"])
        op = {"op": "frame_frame", "cols": cols, "fn": fn}
        cs0 = cols_of(ctx["schema0"], NUMPY_NUM)
        if ctx.get("allow_other") and cs0 and draw(st.booleans()):
            # same labels, another partitioning
            op["other"] = {"e": "other", "cols": [c for c in cols if c in cs0] or [cs0[0]], "n": draw(st.integers(1, 4)), "unknown": draw(st.integers(0, 5)) == 0}
            allc = list(cols) + [c for c in op["other"]["cols"] if c not in cols]
        else:
            op["cols2"] = subset(nums)
            allc = list(cols) + [c for c in op["cols2"] if c not in cols]
        # pandas orders the union of the column labels; recomputed by the evaluator anyway
        return op, [[n, ("bool" if fn in CMP else "float")] for n in sorted(allc)], False
    if k in ("where",):
        cols = subset(nums)
        op = {"op": _sample(draw, ["where", "mask"]), "cols": cols, "cmp": _sample(draw, CMP), "than": _sample(draw, NUM_LITS), "other": _sample(draw, [0, -1, {"nan": 1}, 2.5])}
        return op, [[n, "float"] for n in cols], False
    if k == "clip":
        cols = subset(nums)
        lo = draw(st.integers(-10, 3))
        op = {"op": "clip", "cols": cols, "lower": lo, "upper": lo + draw(st.integers(0, 12))}
        drop = draw(st.integers(0, 3))
        if drop == 0:
            op["lower"] = None
        elif drop == 1:
            op["upper"] = None
        return op, [[n, d[n]] for n in cols], False
    if k == "abs":
        cols = subset(nums)
        return {"op": _sample(draw, ["abs", "neg"]), "cols": cols}, [[n, d[n]] for n in cols], False
    if k == "fmap":
        cls = _sample(draw, sorted({d[n] for n in npnums}))
        cols = subset([n for n in npnums if d[n] == cls])
        fn = _sample(draw, ["inc", "double", "sq"])
        return {"op": "fmap", "cols": cols, "fn": fn, "meta": "float64" if cls == "float" else "int64"}, [[n, cls] for n in cols], False
    if k == "apply_rows":
        cols = subset(npnums)
        allint = all(d[n] == "int" for n in cols)
        return {"op": "apply_rows", "cols": cols, "fn": _sample(draw, ["rowsum", "rowmax", "rowspan"]), "meta": "int64" if allint else "float64"}, schema, True
    raise AssertionError(k)


def gen_pipeline(draw, fspec, max_ops=3, allow_other=True, allow_series=True, nonzero_div=False, ext=False):
    """``ext``: additionally generate fillna(reduction), isin(dict) and neighbour-dependent filter predicates
    (shift/diff/ffill/bfill); off by default so that the other users of this grammar keep their case streams."""
    schema0 = schema_of(fspec)
    ctx = {"schema0": schema0, "allow_other": allow_other, "allow_root": allow_other, "nonzero_div": nonzero_div, "ext": ext}
    nops = draw(st.integers(1, max_ops))
    ops = []
    schema = schema0
    for i in range(nops):
        if not schema:
            break
        ctx["pos"] = i
        op, schema, is_series = gen_frame_op(draw, schema, ctx, last=(allow_series and i == nops - 1))
        ops.append(op)
        if is_series:
            break
    return ops


NUM_KINDS = ["int", "float", "key", "keyna", "Int64", "Float64"]


# --------------------------------------------------------------------------
# comparison helpers


def known_categories(dtype):
    from dask.dataframe.utils import UNKNOWN_CATEGORIES

    return UNKNOWN_CATEGORIES not in dtype.categories


def dtype_agrees(meta_dtype, got_dtype):
    """Lazy dtype vs computed dtype.  Categoricals with *unknown* categories (dask's
    documented placeholder) only promise "categorical with that orderedness"."""
    if isinstance(meta_dtype, pd.CategoricalDtype):
        if not isinstance(got_dtype, pd.CategoricalDtype):
            return False
        if not known_categories(meta_dtype):
            return bool(meta_dtype.ordered) == bool(got_dtype.ordered)
        return meta_dtype == got_dtype
    return meta_dtype == got_dtype


def kind_of(x):
    if isinstance(x, pd.DataFrame):
        return "DataFrame"
    if isinstance(x, pd.Series):
        return "Series"
    if isinstance(x, pd.Index):
        return "Index"
    return "scalar"


def _unknown_cat(meta_dtype):
    return isinstance(meta_dtype, pd.CategoricalDtype) and not known_categories(meta_dtype)


def _relax_unknown_categories(got, want, meta, what, sig, cat_free=False):
    """Columns whose LAZY dtype is a categorical with *unknown* categories (dask's documented
    placeholder after e.g. ``astype('category')``: the categories are whatever the union of
    the per-partition categories turns out to be) are compared as: categorical on both sides,
    same orderedness, same values - the categories themselves (order, unused ones) of such a
    column are not promised (https://docs.dask.org/en/stable/dataframe-categoricals.html)."""
    if isinstance(want, pd.DataFrame) and isinstance(got, pd.DataFrame) and isinstance(meta, pd.DataFrame):
        if list(got.columns) != list(want.columns) or list(meta.columns) != list(want.columns) or not want.columns.is_unique:
            return got, want
        cols = [i for i, c in enumerate(want.columns) if _unknown_cat(meta.dtypes.iloc[i]) or (cat_free and isinstance(meta.dtypes.iloc[i], pd.CategoricalDtype))]
        if not cols:
            return got, want
        got, want = got.copy(), want.copy()
        for i in cols:
            c = want.columns[i]
            got[c], want[c] = _relax_series(got[c], want[c], f"{what} column {c!r}", sig)
        return got, want
    if isinstance(want, pd.Series) and isinstance(got, pd.Series) and isinstance(meta, pd.Series) and (_unknown_cat(meta.dtype) or (cat_free and isinstance(meta.dtype, pd.CategoricalDtype))):
        return _relax_series(got, want, what, sig)
    return got, want


def _relax_series(g, w, what, sig):
    if not (isinstance(g.dtype, pd.CategoricalDtype) and isinstance(w.dtype, pd.CategoricalDtype)):
        return g, w  # the ordinary comparison reports the dtype difference
    ensure(bool(g.dtype.ordered) == bool(w.dtype.ordered), f"{what}: orderedness differs", "categorical-ordered-mismatch", **sig)
    # not even the SET of categories is promised: the optimizer may move a filter in front of the
    # astype('category'), after which unused categories never come into existence
    return g.astype(object), w.astype(object)


def _dtypes_of(x):
    if isinstance(x, pd.DataFrame):
        return list(x.dtypes)
    if isinstance(x, (pd.Series, pd.Index)):
        return [x.dtype]
    return None


def _empty_upcast_ok(got, want, meta):
    """DESIGN 4.4/8.6: pandas' result dtype can depend on the data (str.len / dt.year / int
    arithmetic with missing values -> float, ...).  When a partition is (or has become) empty
    the partition-local pandas call yields the no-missing-values dtype, which is also what the
    lazy meta announces.  Accepted only if every differing dtype equals dask's own lazy dtype."""
    if kind_of(got) != kind_of(want) or kind_of(meta) != kind_of(got) or kind_of(got) == "scalar":
        return False
    dg, dw, dm = _dtypes_of(got), _dtypes_of(want), _dtypes_of(meta)
    if not (len(dg) == len(dw) == len(dm)):
        return False
    diff = [i for i in range(len(dg)) if dg[i] != dw[i]]
    return bool(diff) and all(dtype_agrees(dm[i], dg[i]) for i in diff)


def compare(got, want, meta=None, *, what="result", sig=None, maybe_empty=False, cat_free=False, **kw):
    """F.assert_eq plus (a) the unknown-categories relaxation, (b) the empty-partition dtype
    relaxation (only when ``maybe_empty``: some partition was or may have become empty) and
    (c) finer symptoms."""
    sig = dict(sig or {})
    if meta is not None:
        # cat_free: the program used dask's ``.cat.as_known()`` (no pandas counterpart; it installs the
        # categories in order of appearance) - category order then carries no pandas promise either
        got, want = _relax_unknown_categories(got, want, meta, what, sig, cat_free)
    try:
        try:
            F.assert_eq(got, want, what=what, sig=sig, **kw)
        except Violation:
            if not (maybe_empty and meta is not None and _empty_upcast_ok(got, want, meta)):
                raise
            kw2 = dict(kw)
            kw2["check_dtype"] = False
            try:
                F.assert_eq(got, want, what=what, sig=sig, **kw2)
            except Violation:
                pass
            else:
                count("empty-partition-dtype-relaxed")
                return
            raise
    except Violation as v:
        msg = v.message
        sym = v.sig.get("symptom")
        if "length are different" in msg.split(" dask:")[0].lower() or "shape mismatch" in msg.split(" dask:")[0]:
            sym = "length-mismatch"
        elif 'Attribute "names" are different' in msg.split(" dask:")[0] and "index" in msg.split(" dask:")[0].lower():
            sym = "index-name-mismatch"
        elif sym == "value-mismatch":
            head = msg.split(" dask:")[0]
            if 'Attribute "name" are different' in head or "names are different" in head:
                sym = "name-mismatch"
            elif 'Attribute "dtype" are different' in head or "dtype" in head.split("\n")[0]:
                sym = "dtype-mismatch"
            elif "shape mismatch" in head or "length are different" in head.lower() or "Length" in head:
                sym = "length-mismatch"
        s = dict(v.sig)
        s.pop("symptom", None)
        raise Violation(msg, sym, **s) from None
