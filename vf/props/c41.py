"""C41 — known divisions always describe the partitions truthfully.

A *program* is a source collection followed by 1-3 steps.  Whatever the final
collection is, if it reports known divisions they must be truthful:
``npartitions == len(divisions) - 1``, that many partitions are actually
produced and each holds only index values of its division interval.
"""
from __future__ import annotations

import numpy as np
import pandas as pd
from hypothesis import strategies as st

from vf import frames as F
from vf.core import Reject, Sub, Violation, count, ensure, impl, short
from vf.props import _dfcommon2 as C

PROPERTY = "C41"
PRELOAD = ["dask.dataframe"]
LEVEL = "exploration"
RULE = (
    "hyp: source frames (1-30 rows) with sorted or unsorted index (ints with duplicate runs, datetimes, strings, range) "
    "built by from_pandas(npartitions|chunksize|sort), positional cuts, or value based splits with known divisions and "
    "EMPTY partitions, followed by 1-3 steps from: set_index (quantile divisions with/without npartitions, user "
    "divisions, sorted=True on a sorted column whose equal values straddle partitions, sort=False), "
    "repartition(npartitions | divisions+force), loc slices (open/closed, bounds inside/outside the data), partitions[a:b], "
    "boolean filters on a column or on the index, blockwise ops (assign, arithmetic, projection, map_partitions, fillna, "
    "cumsum, sample), shift(freq) on datetime indexes, head(n, npartitions=1|2|-1, compute=False), tail(n, compute=False), reset_index, "
    "set_index(drop=False), index-aligned "
    "merge / concat(axis=1) / concat(axis=0, interleave_partitions) with a second frame. Oracle on the final collection: "
    "if divisions are known: npartitions == len(divisions)-1 == number of partitions produced, divisions are sorted "
    "and every partition, computed on its own, has all index values in [div[i], div[i+1]) "
    "(closed for the last). Non-trivial: the index (or the column set as index) has duplicate values, the source has "
    ">= 2 partitions and the program ends with known divisions-producing steps (not reset_index)."
)
ASSUMPTIONS = [
    "columns used for set_index have no missing values (dask documents nulls in the index as unsupported)",
    "user supplied set_index divisions span the data (first <= min, last >= max), as the API requires",
    "set_index(sorted=True) is only applied to a column that is globally sorted",
]
TECHNIQUE = "Hypothesis-generated operation programs; per-partition inspection of the computed index against the reported divisions"


class _Skip(Exception):
    pass


def _numeric_cols(ddf):
    if getattr(ddf, "ndim", 2) == 1:
        return []  # a Series (after the 'series' step)
    return [c for c in ddf.columns if str(ddf.dtypes[c]) in ("int64", "float64") and c != "s"]


def apply_step(ddf, step, st_):
    """Apply one step; returns the new collection.  ``st_`` carries what the interpreter knows about the current
    index (sorted distinct values, whether it is still the source index)."""
    import dask.dataframe as dd

    op = step["op"]
    if op == "set_index":
        cols = [c for c in ddf.columns if c in st_["setcols"]]
        if not cols:
            raise _Skip
        col = cols[step.get("col", 0) % len(cols)]
        vals = st_["colvals"][col]
        mode = step["mode"]
        drop = step.get("drop", True)  # drop=False keeps the key as a column next to the index of the same name
        if mode == "quantile":
            out = ddf.set_index(col, drop=drop, npartitions=step.get("npartitions"), shuffle_method=step.get("method", "tasks"))
            k = step.get("npartitions")
            if k is not None and k > 1 and k != ddf.npartitions:
                # signature flag only: an explicit npartitions=k other than the input's partition count was asked for
                # and the set_index was nevertheless lowered WITHOUT a shuffle (blockwise on the input partitions)
                try:
                    names = {type(e).__name__ for e in out.optimize(fuse=False).expr.walk()}
                    if "SetIndexBlockwise" in names:
                        st_["npartitions_blockwise"] = True
                except Exception:  # noqa: BLE001
                    pass
        elif mode == "divisions":
            d = C.division_vector(pd.Index(sorted(vals)), step.get("pos", []), step.get("lo", 0), step.get("hi", 0))
            out = ddf.set_index(col, drop=drop, divisions=d, shuffle_method=step.get("method", "tasks"))
        elif mode == "sorted":
            if "s" not in ddf.columns or not st_["s_valid"]:
                raise _Skip
            col = "s"
            vals = st_["colvals"]["s"]
            out = ddf.set_index("s", drop=drop, sorted=True)
        else:
            out = ddf.set_index(col, drop=drop, sort=False)
        st_["index_vals"] = sorted(set(vals))
        st_["kept_column"] = st_.get("kept_column") or not drop
        st_["unique"] = len(set(vals)) == len(vals)
        st_["monotonic"] = mode != "nosort"
        if mode != "nosort":
            st_["s_valid"] = False  # rows were reordered
        st_["original_index"] = False
        st_["dups"] = st_["dups"] or len(set(vals)) < len(vals)
        return out
    if op == "repartition_n":
        return ddf.repartition(npartitions=step["n"])
    if op == "repartition_d":
        if not ddf.known_divisions:
            raise _Skip
        old = ddf.divisions
        inner = [v for v in C.division_vector(pd.Index(st_["index_vals"]), step.get("pos", []))[1:-1]]
        first = C.shift_value(C.plain(old[0]), -step.get("lo", 0))
        last = C.shift_value(C.plain(old[-1]), step.get("hi", 0))
        d = [first] + [v for v in inner if first < v < last] + [last]
        return ddf.repartition(divisions=d, force=True)
    if op == "loc":
        if not ddf.known_divisions or not st_["monotonic"]:
            raise _Skip  # label slices on a non-monotonic index with duplicates raise in pandas itself
        iv = st_["index_vals"]
        if step["a"] is None and step["b"] is None:
            raise _Skip  # ddf.loc[:] without a column indexer raises KeyError(None) (reported separately; not a C41 matter)
        a = None if step["a"] is None else C.shift_value(iv[step["a"] % len(iv)], step.get("da", 0))
        b = None if step["b"] is None else C.shift_value(iv[step["b"] % len(iv)], step.get("db", 0))
        if a is not None and b is not None and a > b:
            a, b = b, a
        return ddf.loc[a:b]
    if op == "partitions":
        n = ddf.npartitions
        a = step["a"] % n
        b = a + 1 + step["b"] % (n - a)
        return ddf.partitions[a:b]
    if op == "filter":
        cols = _numeric_cols(ddf)
        if not cols:
            raise _Skip
        col = cols[step.get("col", 0) % len(cols)]
        st_["filtered"] = True
        return ddf[ddf[col] > step["thr"]]
    if op == "filter_index":
        iv = st_["index_vals"]
        if not iv or not ddf.known_divisions or st_.get("filtered"):
            # (a second filter whose predicate is derived from the already filtered frame hits an optimizer defect
            # that merges both predicates over frames of different length - C43's finding, nothing about divisions)
            raise _Skip
        v = iv[step["pos"] % len(iv)]
        st_["filtered"] = True
        ser = ddf.index.to_series()
        return ddf[ser >= v] if step.get("ge", True) else ddf[ser < v]
    if op == "blockwise":
        k = step["kind"]
        cols = _numeric_cols(ddf)
        if k == "assign":
            return ddf.assign(z=1) if not cols else ddf.assign(z=ddf[cols[0]] * 2)
        if k in ("add", "cumsum"):
            st_["setcols"] = []  # values change: the recorded column values no longer describe the data
            st_["s_valid"] = False
        if k == "add":
            return ddf[cols] + 1 if cols else ddf
        if k == "proj":
            return ddf[list(ddf.columns[:1])]
        if k == "series":
            return ddf[ddf.columns[0]]
        if k == "map_partitions":
            return ddf.map_partitions(_ident, meta=ddf._meta)
        if k == "fillna":
            return ddf.fillna(0) if cols and len(cols) == len(ddf.columns) else ddf.dropna()
        if k == "cumsum":
            return ddf[cols].cumsum() if cols else ddf
        if k == "sample":
            st_["monotonic"] = False  # pandas' sample returns the rows in random order
            return ddf.sample(frac=0.5, random_state=7)
        raise ValueError(k)
    if op == "shift_freq":
        if not isinstance(ddf._meta.index, pd.DatetimeIndex):
            raise _Skip
        st_["index_vals"] = [v + pd.Timedelta(step["freq"]) * step["periods"] for v in st_["index_vals"]]
        return ddf.shift(step["periods"], freq=step["freq"])
    if op == "sort_values":
        cols = _numeric_cols(ddf)
        if not cols:
            raise _Skip
        return ddf.sort_values(cols[step.get("col", 0) % len(cols)])
    if op == "head":
        # npartitions: -1 = all partitions, else the first k (clamped: asking for more than there are is a usage error)
        k = step.get("npartitions", -1)
        return ddf.head(step["n"], npartitions=-1 if k < 0 else min(k, ddf.npartitions), compute=False)
    if op == "tail":
        return ddf.tail(step["n"], compute=False)
    if op == "reset_index":
        st_["original_index"] = False
        st_["index_vals"] = []
        return ddf.reset_index(drop=step.get("drop", False))
    if op in ("merge_index", "concat1", "concat0"):
        other = st_.get("other")
        if other is None or not st_["original_index"]:
            raise _Skip
        if op != "concat0" and not (ddf.known_divisions and other.known_divisions):
            raise _Skip  # axis=1 concat / index merge on unknown divisions is refused (or shuffles): documented
        if op == "merge_index":
            right = other.rename(columns={c: f"r_{c}" for c in other.columns})
            out = dd.merge(ddf, right, left_index=True, right_index=True, how=step.get("how", "inner"))
        elif op == "concat1":
            # pandas itself refuses concat(axis=1) on duplicated index values (InvalidIndexError)
            if not st_["unique"] or len(set(st_["other_index_vals"])) < len(st_["other_index_vals"]):
                raise _Skip
            right = other.rename(columns={c: f"r_{c}" for c in other.columns})
            out = dd.concat([ddf, right], axis=1, join=step.get("how", "outer"))
        else:
            out = dd.concat([ddf, other], axis=0, interleave_partitions=step.get("interleave", True))
        st_["index_vals"] = sorted(set(st_["index_vals"]) | set(st_["other_index_vals"]))
        st_["dups"] = True
        st_["unique"] = False
        if op == "concat0":
            st_["monotonic"] = False
        # unmatched rows get NaN in the other side's columns: no longer eligible for set_index (assumption 1)
        st_["setcols"] = []
        st_["s_valid"] = False
        return out
    raise ValueError(op)


def _ident(df):
    return df.copy()


def _plain_list(idx):
    return [C.plain(v) for v in idx]


@C.sync_scheduler
def check(spec):
    import dask

    with C.quiet():
        pdf = F.build_pdf(spec)
        if len(pdf) == 0:
            raise Reject("empty source")
        # a globally sorted NaN-free column 's' (for set_index(sorted=True)); equal values straddle partitions
        rng = np.random.default_rng(spec["seed"] + 1)
        pdf["s"] = np.sort(rng.integers(0, max(len(pdf) // 2, 1), size=len(pdf)))
        p = spec["partition"]
        unsorted_src = not pdf.index.is_monotonic_increasing
        ddf = C.build_ddf(spec, pdf)
        # from_pandas(sort=True) reorders rows of an unsorted frame: then 's' is no longer globally sorted
        s_valid = not (unsorted_src and p.get("sort", True) and p["how"] != "cuts")
        # assumption 1: only columns WITHOUT missing values are used as a new index (str/float columns may hold NaN)
        setcols = [c["name"] for c in spec["columns"] if c["kind"] in ("int", "key", "str", "datetime", "float") and not c.get("nan")]
        st_ = {
            "index_vals": sorted(set(_plain_list(pdf.index))),
            "original_index": True,
            "setcols": setcols,
            "colvals": {c: _plain_list(pdf[c]) for c in setcols + ["s"]},
            "s_valid": s_valid,
            "dups": not pdf.index.is_unique,
            "unique": bool(pdf.index.is_unique),
            "monotonic": True,
        }
        if spec.get("other"):
            o = spec["other"]
            opdf = F.build_pdf(o)
            if len(opdf) and opdf.index.dtype == pdf.index.dtype:
                opdf = opdf.sort_index(kind="stable")
                st_["other"] = C.build_ddf(o, opdf)
                st_["other_index_vals"] = _plain_list(opdf.index)
    applied = []
    sig = {}
    cur = ddf
    diverged = ""  # first step after which the reported divisions differ from those of the optimized expression
    diverged_on = ""  # ... and the step before it (what that step was applied to)
    concat0_before = False  # ... and whether an axis-0 concat lies below the diverging step
    with dask.config.set({"dataframe.shuffle.method": "tasks"}), C.quiet():
        for step in spec["steps"]:
            opname = step["op"] + ("-" + step["mode"] if "mode" in step else "") + ("-" + step["kind"] if "kind" in step else "")
            try:
                nxt = apply_step(cur, step, st_)
                reported = tuple(nxt.divisions)  # may trigger division computations
            except _Skip:
                continue
            except Exception:  # noqa: BLE001
                # A construction that raises yields no dataframe, so C41 (a statement about dataframes that report
                # divisions) has nothing to judge; whether the operation should have worked belongs to C36/C39/C40/C44.
                # Counted so that the evidence shows how often it happens.
                count("step-raised:" + opname)
                continue
            if getattr(nxt, "_name", None) == cur._name:
                # the step returned the very same expression (e.g. set_index(sort=False) on the column the frame is
                # already indexed by): nothing was built, so it must not appear in the signature (prev / diverged_on
                # have to name the step that really produced the expression a later step is applied to)
                count("step-noop:" + opname)
                continue
            cur = nxt
            applied.append(opname)
            if not diverged:
                try:
                    lowered = tuple(cur.optimize(fuse=False).divisions)
                except Exception:  # noqa: BLE001
                    lowered = None
                if lowered is None or _divs_key(lowered) != _divs_key(reported):
                    diverged = opname
                    diverged_on = applied[-2] if len(applied) > 1 else "source"
                    concat0_before = "concat0" in applied[:-1]
            # the cheap clause is judged after every step so that the signature names the step that broke it
            if C.divisions_known(reported):
                # sig: the step, and whether npartitions over- or under-states the division vector
                ensure(cur.npartitions == len(reported) - 1, f"after {' -> '.join(applied)}: npartitions={cur.npartitions} but divisions {short(reported)}", "npartitions-vs-divisions", op=opname,
                       npartitions="more-than-divisions" if cur.npartitions > len(reported) - 1 else "fewer-than-divisions",
                       after_partitions="partitions" in applied[:-1],
                       # (as in the final signature: the first step, if any, at which the reported divisions stopped
                       # being those of the optimized expression - a later count mismatch is a consequence of it)
                       divisions_differ_after_optimize=diverged, diverged_on=diverged_on)
        if not applied:
            raise Reject("no applicable step")
        what = f"source divisions {short(ddf.divisions, 100)} -> {' -> '.join(applied)}"
        # sig: the last step, and (if any) the first step at which optimize() changes the reported divisions - the
        # common root of most failures (the frame reports divisions that the executed expression does not have)
        sig = dict(op=applied[-1], prev=applied[-2] if len(applied) > 1 else "source", divisions_differ_after_optimize=diverged, diverged_on=diverged_on, concat0_before_divergence=concat0_before,
                   concat1_then_more="concat1" in applied[:-1],
                   # head(n, npartitions=k) / tail(n) somewhere above a shuffling set_index (quantile or user divisions)
                   head_tail_above_set_index=any(a in ("head", "tail") and any(b in ("set_index-quantile", "set_index-divisions") for b in applied[:i])
                                                 for i, a in enumerate(applied)),
                   # a head/tail result (a Head/Tail expression) is the input of later steps
                   head_tail_then_more=any(a in ("head", "tail") for a in applied[:-1]),
                   # ... and a set_index(drop=False) was applied (the key stays a column of the frame)
                   set_index_keep_column=bool(st_.get("kept_column")),
                   # a set_index(col, npartitions=k), k != partition count of its input, was lowered without a shuffle
                   set_index_npartitions_blockwise=bool(st_.get("npartitions_blockwise")))
        known = C.divisions_known(cur.divisions)
        if not known:
            # C41 speaks about frames that report known divisions ((nan, nan) of an empty set_index counts as unknown)
            count("final-unknown")
            return
        try:
            with impl("compute partitions", **sig):
                parts = C.partitions(cur)
        except Violation as v:
            if v.sig.get("symptom") == "raises:NotImplementedError":
                # dask's documented signal for "this combination is not supported" (e.g. shift(freq) when a
                # partition is shorter than the overlap): no partitions exist to judge
                raise Reject("not implemented") from None
            raise
        _truthful(cur, what, dict(sig, frame="as-built"), parts)
        # cur.optimize() is a dataframe too (public API); it computes the very same partitions
        with impl("optimize", **sig):
            opt = cur.optimize()
        if C.divisions_known(opt.divisions):
            _truthful(opt, what + " -> optimize()", dict(sig, frame="optimized"), parts)
    count("final-known")
    if diverged:
        count("reported-divisions-differ-from-optimized")
    if st_["dups"]:
        count("final-known-with-duplicate-index-values")


def _truthful(ddf, what, sig, parts):
    """C.check_divisions_truthful with ONE symptom for an index value outside its division interval (which side it
    falls out on depends on the data, not on the defect); the side is kept as a separate field."""
    try:
        C.check_divisions_truthful(ddf, what, sig, parts=parts)
    except Violation as v:
        if v.sig.get("symptom") in ("below-division", "above-division"):
            raise Violation(v.message, "outside-division", side=v.sig["symptom"].split("-")[0], **sig) from None
        raise


def _divs_key(divs):
    return tuple("<NA>" if (d is None or C._isnan(d)) else d for d in divs)


STEP_OPS = ["set_index", "repartition_n", "repartition_d", "loc", "partitions", "filter", "filter_index", "blockwise", "shift_freq", "sort_values", "head", "tail", "reset_index", "merge_index", "concat1", "concat0"]


@st.composite
def step_spec(draw, nrows, first):
    ops = ["set_index", "set_index", "repartition_n", "repartition_d", "loc", "loc", "partitions", "filter", "filter_index", "blockwise", "head", "tail", "merge_index", "concat1", "concat0", "shift_freq"]
    if not first:
        ops.append("reset_index")
        # the first/last rows of what an earlier step built (set_index, repartition, loc, concat, ...)
        ops += ["head", "tail"]
    op = draw(st.sampled_from(ops))
    pos = st.integers(0, max(nrows - 1, 0))
    if op == "set_index":
        mode = draw(st.sampled_from(["quantile", "quantile", "divisions", "sorted", "nosort"]))
        s = {"op": op, "mode": mode, "col": draw(st.integers(0, 3))}
        if draw(st.integers(0, 3)) == 0:
            s["drop"] = False
        if mode == "quantile":
            s["npartitions"] = draw(st.sampled_from([None, None, 1, 2, 3, 5]))
            s["method"] = draw(st.sampled_from(["tasks", "disk"]))
        if mode == "divisions":
            s.update(pos=draw(st.lists(pos, max_size=4)), lo=draw(st.sampled_from([0, 0, 2])), hi=draw(st.sampled_from([0, 0, 2])))
        return s
    if op == "repartition_n":
        return {"op": op, "n": draw(st.integers(1, 6))}
    if op == "repartition_d":
        return {"op": op, "pos": draw(st.lists(pos, max_size=4)), "lo": draw(st.sampled_from([0, 0, 2])), "hi": draw(st.sampled_from([0, 0, 2]))}
    if op == "loc":
        return {"op": op, "a": draw(st.one_of(st.none(), pos)), "b": draw(st.one_of(st.none(), pos)), "da": draw(st.sampled_from([0, 0, -1, 1, -40])), "db": draw(st.sampled_from([0, 0, -1, 1, 40]))}
    if op == "partitions":
        return {"op": op, "a": draw(st.integers(0, 5)), "b": draw(st.integers(0, 5))}
    if op == "filter":
        return {"op": op, "col": draw(st.integers(0, 3)), "thr": draw(st.sampled_from([-100, -5, 0, 1, 5, 100]))}
    if op == "filter_index":
        return {"op": op, "pos": draw(pos), "ge": draw(st.booleans())}
    if op == "blockwise":
        return {"op": op, "kind": draw(st.sampled_from(["assign", "add", "proj", "series", "map_partitions", "fillna", "cumsum", "sample"]))}
    if op == "shift_freq":
        return {"op": op, "periods": draw(st.sampled_from([-2, 1, 3])), "freq": draw(st.sampled_from(["1h", "90min", "1D"]))}
    if op == "sort_values":
        return {"op": op, "col": draw(st.integers(0, 3))}
    if op == "head":
        return {"op": op, "n": draw(st.integers(1, 5)), "npartitions": draw(st.sampled_from([-1, -1, 1, 1, 2]))}
    if op == "tail":
        return {"op": op, "n": draw(st.integers(1, 5))}
    if op == "reset_index":
        return {"op": op, "drop": draw(st.booleans())}
    if op == "concat0":
        return {"op": op, "interleave": draw(st.booleans())}
    return {"op": op, "how": draw(st.sampled_from(["inner", "outer", "left", "right"] if op == "merge_index" else ["inner", "outer"]))}


COLKINDS = ("int", "float", "key", "str")


@st.composite
def program(draw):
    ikinds = ("sorted_dups", "sorted_dups", "sorted_unique", "datetime", "str", "range", "unsorted")
    spec = draw(F.frame_spec(min_rows=1, max_rows=30, kinds=COLKINDS, min_cols=1, max_cols=3, index_kinds=ikinds))
    if spec["index"]["kind"] != "unsorted" and draw(st.integers(0, 9)) < 4:
        spec["partition"] = draw(C.bydivs_partition(spec["nrows"]))
    elif spec["partition"]["how"] == "cuts":
        spec["partition"]["divisions"] = draw(st.integers(0, 3)) > 0
    nsteps = draw(st.integers(1, 3))
    spec["steps"] = [draw(step_spec(spec["nrows"], i == 0)) for i in range(nsteps)]
    if any(s["op"] in ("merge_index", "concat1", "concat0") for s in spec["steps"]):
        kind = spec["index"]["kind"]
        other = draw(F.frame_spec(min_rows=1, max_rows=20, kinds=COLKINDS, min_cols=1, max_cols=2, index_kinds=(kind,)))
        other["index"]["name"] = spec["index"]["name"]
        other["columns"] = [dict(c, name=c["name"]) for c in other["columns"]]
        if draw(st.booleans()):
            other["partition"] = draw(C.bydivs_partition(other["nrows"]))
        elif other["partition"]["how"] == "cuts":
            other["partition"] = {"how": "npartitions", "n": draw(st.integers(1, 4)), "sort": True}
        else:
            other["partition"]["sort"] = True
        spec["other"] = other
    return spec


def nontrivial(spec):
    dup = spec["index"]["kind"] in ("sorted_dups", "datetime", "str", "unsorted") or any(s["op"] == "set_index" for s in spec["steps"])
    multi = spec["partition"].get("n", 2) >= 2 and spec["nrows"] >= 4
    return dup and multi and spec["steps"][-1]["op"] != "reset_index" and not (spec["steps"][-1]["op"] == "set_index" and spec["steps"][-1]["mode"] == "nosort")


def classes(spec):
    yield "src-" + spec["partition"]["how"]
    yield "index-" + spec["index"]["kind"]
    for s in spec["steps"]:
        yield "step-" + s["op"] + ("-" + s["mode"] if "mode" in s else "")
    yield f"nsteps-{len(spec['steps'])}"


def head_tail_cases(tier):
    """Exhaustive small grid: 2 sources x (a divisions-producing base step) x (nothing | an elementwise step) x
    head(n, npartitions=k) / tail(n).  head/tail of a collection is a one-partition collection that reports the outer
    divisions of the partitions it reads; the grid makes sure n exceeds / does not exceed what those partitions hold."""
    cols = [{"kind": "int", "name": "a"}, {"kind": "int", "name": "b"}]
    sources = [
        {"columns": cols, "index": {"kind": "sorted_dups", "name": None}, "nrows": 12, "partition": {"how": "npartitions", "n": 3, "sort": True}, "seed": 0},
        {"columns": cols, "index": {"kind": "range", "name": None}, "nrows": 9, "partition": {"how": "npartitions", "n": 2, "sort": True}, "seed": 1},
    ]
    bases = []
    for drop in (True, False):
        bases += [
            {"op": "set_index", "mode": "quantile", "col": 0, "drop": drop, "npartitions": None, "method": "tasks"},
            {"op": "set_index", "mode": "quantile", "col": 0, "drop": drop, "npartitions": 2, "method": "tasks"},
            {"op": "set_index", "mode": "divisions", "col": 0, "drop": drop, "pos": [2, 6], "lo": 0, "hi": 0},
            {"op": "set_index", "mode": "sorted", "col": 0, "drop": drop},
        ]
    bases += [{"op": "repartition_n", "n": 2}, {"op": "loc", "a": 1, "b": None, "da": 0, "db": 0}]
    middles = [None, {"op": "blockwise", "kind": "assign"}]
    lasts = [{"op": "head", "n": n, "npartitions": k} for n in (2, 6) for k in (1, 2, -1)] + [{"op": "tail", "n": n} for n in (2, 6)]
    for src in sources:
        for base in bases:
            for mid in middles:
                for last in lasts:
                    yield dict(src, steps=[dict(base)] + ([dict(mid)] if mid else []) + [dict(last)])


SUBCHECKS = [
    Sub(
        "programs",
        check,
        strategy=lambda tier: program(),
        n={"quick": 1400, "thorough": 30000},
        nontrivial=nontrivial,
        classes=classes,
        doc="random construction programs; final collection's divisions vs per-partition index ranges",
    ),
    Sub(
        "head_tail_grid",
        check,
        kind="enum",
        cases=head_tail_cases,
        nontrivial=nontrivial,
        classes=classes,
        exhaustive=True,
        doc="head(n, npartitions=k, compute=False) / tail(n, compute=False) over set_index (quantile / user divisions / sorted, drop or not), "
        "repartition and loc results, optionally through an elementwise step: full grid over two fixed frames",
    ),
]
