"""C02 — every needed task runs exactly once, only after its dependencies."""
from __future__ import annotations

from vf.core import Sub, Violation, ensure, short
from vf.graphs import is_callable_node
from vf.props import _schedcommon as sc
from vf.schedengine import callable_ancestors, executed_counts

PROPERTY = "C02"
LEVEL = "exploration"
RULE = (
    "same engine and bounds as C01 (all DAGs n<=4 quick / n<=5 thorough x all requests x {sync, controlled executor with "
    "ALL completion interleavings}; random rich graphs on sync/controlled/threaded pools with drawn micro-sleeps). "
    "Logging term functions record start/end on a logical clock. Predicates: executed multiset == needed callable nodes "
    "(each once, none unneeded); start(k) after end(d) for every callable ancestor d; arguments seen == reference values; "
    "one pretask then one posttask per executed scheduler task, none for unneeded keys. Non-trivial: needed set is a "
    "strict subset of the graph AND a diamond/fan is present (controlled/threads: workers>=2)."
)
ASSUMPTIONS = [
    "needed set and argument values come from the reference evaluator (vf/graphs.py)",
    "execution is observed through the task bodies themselves (term functions with a logical clock), not through dask",
]
TECHNIQUE = "exhaustive interleaving exploration on a controlled executor + Hypothesis; invariant over the execution log against a reference evaluator"


def predicate(case, ref, out):
    g = case["graph"]
    kind = case["sched"]["kind"]
    if out.deadlock:
        raise Violation(f"scheduler deadlocked: {out.raised}", "deadlock", sched=kind)
    if out.raised is not None:
        raise Violation(f"scheduler raised {type(out.raised).__name__}: {out.raised}", "raises:" + type(out.raised).__name__, sched=kind)
    need = ref.needed(case["request"])
    counts = executed_counts(out)
    n = len(g["nodes"])
    for i in range(n):
        body = g["nodes"][i]["body"]
        if not is_callable_node(body):
            continue
        c = counts.get(i, 0)
        if i in need:
            ensure(c == 1, f"needed task node {i} executed {c} times", "executed-twice" if c > 1 else "not-executed", sched=kind)
        else:
            ensure(c == 0, f"unneeded task node {i} executed {c} times", "unneeded-executed", sched=kind)
    start = {}
    end = {}
    args_seen = {}
    for ev, node, tick, a in out.log:
        if ev == "start":
            start[node] = tick
            args_seen[node] = a
        else:
            end[node] = tick
    for i in sorted(start):
        for d in callable_ancestors(g, ref, i):
            ensure(d in end and end[d] < start[i], f"task {i} started at {start[i]} before dependency {d} ended ({end.get(d)})", "started-before-dependency", sched=kind)
        body = g["nodes"][i]["body"]
        want = tuple(ref.ev(x) for x in body.get("args", []))
        ensure(args_seen[i] == want, f"task {i} received {short(args_seen[i])}, reference {short(want)}", "wrong-arguments", sched=kind)
    # callback multiplicities
    keyof = {}
    from vf.graphs import node_key

    for i in range(n):
        keyof[node_key(g, i)] = i
    pre = {}
    post = {}
    order = []
    for ev, key, *_ in out.events:
        if ev == "pretask":
            pre[key] = pre.get(key, 0) + 1
            order.append(("pre", key))
        elif ev == "posttask":
            post[key] = post.get(key, 0) + 1
            ensure(pre.get(key, 0) >= post[key], f"posttask for {key!r} before its pretask", "posttask-before-pretask", sched=kind)
    for key, i in keyof.items():
        body = g["nodes"][i]["body"]
        p, q = pre.get(key, 0), post.get(key, 0)
        if i not in need:
            ensure(p == 0 and q == 0, f"unneeded key {key!r}: pretask={p} posttask={q}", "callback-for-unneeded", sched=kind)
            continue
        ensure(p == q, f"key {key!r}: pretask={p} posttask={q}", "pretask-posttask-mismatch", sched=kind)
        if is_callable_node(body) or "ref" in body:
            ensure(p == 1, f"needed task key {key!r}: pretask called {p} times", "pretask-count", sched=kind)
        else:
            ensure(p <= 1, f"key {key!r}: pretask called {p} times", "pretask-count", sched=kind)
    for key in set(pre) | set(post):
        ensure(key in keyof, f"callback for unknown key {key!r}", "callback-unknown-key", sched=kind)


def check(case):
    sc.for_each_schedule(case, predicate)


def nontrivial(case):
    cl = set(sc.dags_shape_classes(case["graph"], case["request"]))
    if "strict-subset-needed" not in cl:
        return False
    if not ({"diamond", "fan-out", "fan-in"} & cl):
        return False
    if len(sc.needed_callables(case)) < 2:
        return False
    s = case["sched"]
    return s["kind"] == "sync" or s.get("workers", 1) >= 2


SUBCHECKS = [
    Sub(
        "enum",
        check,
        kind="enum",
        cases=lambda tier: sc.enum_cases(tier),
        nontrivial=nontrivial,
        classes=sc.structural_classes,
        exhaustive=True,
        budget_s={"quick": 70, "thorough": 1500},
        doc="all small DAGs x requests x {sync, controlled: all interleavings}; execution-log invariants",
    ),
    Sub(
        "random",
        check,
        strategy=lambda tier: sc.random_case(),
        n={"quick": 1600, "thorough": 40000},
        nontrivial=nontrivial,
        classes=sc.structural_classes,
        doc="rich random graphs x sync/controlled/threads (micro-sleeps)/ThreadPoolExecutor",
    ),
]
