"""C28 — random arrays are reproducible when seeded and independent when not."""
from __future__ import annotations

import itertools

import numpy as np
from hypothesis import strategies as st

from vf import arrays as A
from vf.core import Sub, ensure, impl

PROPERTY = "C28"
PRELOAD = ["dask.array"]
LEVEL = "exploration"
RULE = (
    "seeded: the same (seed, API [default_rng | RandomState], sequence of 1-3 distribution calls with shape/chunks/"
    "parameters incl. array-valued parameters) issued twice from fresh generators: identical names, identical values "
    "on recomputation and across the sync and threaded schedulers (a serial sub-check adds the process pool), values "
    "inside the distribution's support, lazy metadata == computed. enum: all chunkings of small shapes x both APIs. "
    "unseeded: the same call issued twice (same unseeded generator, two fresh generators, or the module-level "
    "functions): distinct names, dask.compute(a, b) == (a alone, b alone), continuous draws differ. choice: "
    "with/without replacement, int / NumPy / dask populations, p, 1-d and 2-d sizes, chunked where dask accepts it: "
    "shape, membership, and distinctness when replace=False. Non-trivial: multi-chunk arrays."
)
ASSUMPTIONS = [
    "equality of two independent continuous draws of >= 8 elements has negligible probability (2^-53 per element)",
    "the process-pool clause is sampled on a handful of fixed cases (pool start-up dominates the cost)",
    "array-valued distribution parameters are constant arrays (so the support predicate stays valid) and never empty: a zero-length "
    "array parameter makes _wrap_func index element 0 of it (IndexError) - degenerate input, not explored",
]
TECHNIQUE = "metamorphic re-execution across generators/schedulers; invariants of sampling without replacement"

# name -> (Generator method, RandomState method, params, support predicate)
DISTS = {
    "random": ("random", "random_sample", {}, lambda v, p: (v >= 0) & (v < 1)),
    "uniform": ("uniform", "uniform", {"low": -2.0, "high": 3.5}, lambda v, p: (v >= -2.0) & (v < 3.5)),
    "normal": ("normal", "normal", {"loc": 1.0, "scale": 2.0}, lambda v, p: np.isfinite(v)),
    "standard_normal": ("standard_normal", "standard_normal", {}, lambda v, p: np.isfinite(v)),
    "integers": ("integers", "randint", {"low": -3, "high": 7}, lambda v, p: (v >= -3) & (v < 7) & (v == np.floor(v))),
    "exponential": ("exponential", "exponential", {"scale": 2.0}, lambda v, p: v >= 0),
    "poisson": ("poisson", "poisson", {"lam": 3.0}, lambda v, p: (v >= 0) & (v == np.floor(v))),
    "binomial": ("binomial", "binomial", {"n": 5, "p": 0.3}, lambda v, p: (v >= 0) & (v <= 5)),
    "beta": ("beta", "beta", {"a": 2.0, "b": 3.0}, lambda v, p: (v >= 0) & (v <= 1)),
    "gamma": ("gamma", "gamma", {"shape": 2.0, "scale": 1.5}, lambda v, p: v >= 0),
    "geometric": ("geometric", "geometric", {"p": 0.4}, lambda v, p: v >= 1),
    "chisquare": ("chisquare", "chisquare", {"df": 3.0}, lambda v, p: v >= 0),
}


def make_rng(api, seed):
    import dask.array as da

    if api == "generator":
        return da.random.default_rng(seed) if seed is not None else da.random.default_rng()
    return da.random.RandomState(seed) if seed is not None else da.random.RandomState()


def array_key(c):
    """Name of the parameter that receives the array (None: all parameters scalar)."""
    if not c.get("array_param"):
        return None
    return c.get("array_key") or sorted(DISTS[c["dist"]][2])[0]


def draw_call(rng, api, c):
    """Issue one distribution call described by c on rng."""
    import dask.array as da

    gname, rname, params, _ = DISTS[c["dist"]]
    params = dict(params)
    if c.get("array_param"):  # an array-valued (broadcast) parameter, NumPy or dask
        # which parameter: the first one by default; "array_key" picks another (e.g. `high` of integers, the only
        # array-capable parameter that Generator routes through _wrap_func's **kwargs branch -> finding integers-high-array)
        key = array_key(c)
        shape = tuple(c["size"][-1:]) if c["array_param"] == "last" else tuple(c["size"])
        arr = np.full(shape, params[key])  # constant, so the support predicate stays valid
        params[key] = da.from_array(arr, chunks=1) if c.get("array_param_dask") else arr
    chunks = tuple(tuple(x) for x in c["chunks"])
    return getattr(rng, gname if api == "generator" else rname)(size=tuple(c["size"]), chunks=chunks, **params)


def seeded_check(spec):
    import dask

    api, seed = spec["api"], spec["seed"]
    sig = dict(op="seeded", api=api, sched=spec["sched"], zero_chunk=any(A.has_zero_chunk(c["chunks"]) for c in spec["calls"]),
               integers_high_array=any(c["dist"] == "integers" and array_key(c) == "high" for c in spec["calls"]))
    with impl("random", **sig):
        r1, r2 = make_rng(api, seed), make_rng(api, seed)
        a1 = [draw_call(r1, api, c) for c in spec["calls"]]
        a2 = [draw_call(r2, api, c) for c in spec["calls"]]
        v1 = [x.compute(scheduler="sync") for x in a1]
        kw = {"scheduler": spec["sched"]} if spec["sched"] != "processes" else {"scheduler": "processes", "num_workers": 2}
        v2 = dask.compute(*a2, **kw) if spec.get("together") else [x.compute(**kw) for x in a2]
        v3 = [x.compute(scheduler="sync") for x in a1]
    for k, (x1, x2, w1, w2, w3, c) in enumerate(zip(a1, a2, v1, v2, v3, spec["calls"])):
        what = f"{api} seed={seed} call #{k} {c['dist']} size={c['size']} chunks={c['chunks']}"
        ensure(x1.name == x2.name, f"{what}: names differ between two identically seeded generators: {x1.name} vs {x2.name}", "name-differs", **sig)
        ensure(np.array_equal(w1, w3, equal_nan=True), f"{what}: recomputation changed the values", "recompute-differs", **sig)
        ensure(np.shape(w1) == np.shape(w2) and np.array_equal(w1, w2, equal_nan=True), f"{what}: values differ between sync and {spec['sched']} for the same seed: {w1!r} vs {w2!r}", "seeded-values-differ", **sig)
        ensure(np.shape(w1) == tuple(c["size"]), f"{what}: shape {np.shape(w1)}", "shape-mismatch", **sig)
        ensure(bool(np.all(DISTS[c["dist"]][3](np.asarray(w1, dtype="f8"), None))), f"{what}: values outside the support: {w1!r}", "outside-support", **sig)
        A.check_meta(x1, w1, what=what, sig=sig)


def seeded_nontrivial(spec):
    return any(A.nblocks(c["chunks"]) > 1 for c in spec["calls"])


def seeded_classes(spec):
    yield "api-" + spec["api"]
    yield "sched-" + spec["sched"]
    for c in spec["calls"]:
        yield "dist-" + c["dist"]
        if c.get("array_param"):
            yield "array-param"
            yield "array-param-" + c["dist"] + "-" + array_key(c)
    if spec.get("together"):
        yield "computed-together"


def seeded_enum(tier):
    i = 0
    for shape in ([4], [2, 3]) if tier == "quick" else ([5], [2, 3], [2, 2, 2]):
        for ch, api in itertools.product(A.all_chunkings(shape), ["generator", "randomstate"]):
            i += 1
            dist = sorted(DISTS)[i % len(DISTS)]
            yield {"api": api, "seed": i % 5, "sched": "threads" if i % 2 else "sync", "together": bool(i % 3 == 0),
                   "calls": [{"dist": dist, "size": shape, "chunks": ch}, {"dist": "normal", "size": shape, "chunks": ch}]}


def procs_enum(tier):
    for i, (api, dist) in enumerate([("generator", "normal"), ("randomstate", "uniform"), ("generator", "integers"), ("randomstate", "poisson")][: 2 if tier == "quick" else 4]):
        yield {"api": api, "seed": 10 + i, "sched": "processes", "together": bool(i % 2), "calls": [{"dist": dist, "size": [5, 3], "chunks": [[2, 3], [1, 2]]}, {"dist": "random", "size": [4], "chunks": [[1, 3]]}]}


@st.composite
def call_spec(draw):
    shape = [draw(st.integers(0, 5)) for _ in range(draw(st.integers(1, 3)))]
    c = {"dist": draw(st.sampled_from(sorted(DISTS))), "size": shape, "chunks": draw(A.chunks_for_shape(shape, allow_zero=draw(st.integers(0, 9)) == 0))}
    # (an EMPTY array-valued parameter makes _wrap_func index element 0 of it -> IndexError; degenerate input, not
    # explored - see ASSUMPTIONS)
    if DISTS[c["dist"]][2] and 0 not in shape and draw(st.integers(0, 3)) == 0:
        c["array_param"] = draw(st.sampled_from(["full", "last"]))
        c["array_param_dask"] = draw(st.booleans())
        if draw(st.booleans()):
            c["array_key"] = draw(st.sampled_from(sorted(DISTS[c["dist"]][2])))
    return c


@st.composite
def seeded_random(draw):
    return {"api": draw(st.sampled_from(["generator", "randomstate"])), "seed": draw(st.integers(0, 2**32 - 1)), "sched": draw(st.sampled_from(["sync", "threads", "threads"])),
            "together": draw(st.booleans()), "calls": draw(st.lists(call_spec(), min_size=1, max_size=3))}


# ------------------------------------------------------------------ unseeded
def unseeded_check(spec):
    import dask
    import dask.array as da

    c, how = spec["call"], spec["how"]
    sig = dict(op="unseeded", how=how, api=spec["api"])
    with impl("random", **sig):
        if how == "module":
            f = getattr(da.random, DISTS[c["dist"]][1])
            mk = lambda: f(size=tuple(c["size"]), chunks=tuple(map(tuple, c["chunks"])), **DISTS[c["dist"]][2])  # noqa: E731
            arrs = [mk() for _ in range(spec["n"])]
        elif how == "same":
            rng = make_rng(spec["api"], None)
            arrs = [draw_call(rng, spec["api"], c) for _ in range(spec["n"])]
        else:
            arrs = [draw_call(make_rng(spec["api"], None), spec["api"], c) for _ in range(spec["n"])]
        together = dask.compute(*arrs, scheduler=spec["sched"])
        alone = [x.compute(scheduler="sync") for x in arrs]
    names = [x.name for x in arrs]
    ensure(len(set(names)) == len(names), f"unseeded arrays created separately share a name: {names}", "name-collision", **sig)
    for k, (t, a) in enumerate(zip(together, alone)):
        ensure(np.array_equal(t, a, equal_nan=True), f"array #{k}: dask.compute(a, b) gives {t!r}, alone {a!r}", "together-differs-from-alone", **sig)
    if c["dist"] in ("random", "uniform", "normal", "standard_normal", "exponential", "beta", "gamma") and np.size(alone[0]) >= 8:
        for i, j in itertools.combinations(range(len(alone)), 2):
            ensure(not np.array_equal(alone[i], alone[j]), f"unseeded arrays #{i} and #{j} drew identical values {alone[i]!r}", "identical-draws", **sig)


@st.composite
def unseeded_random(draw):
    shape = [draw(st.integers(1, 5)) for _ in range(draw(st.integers(1, 2)))]
    if draw(st.booleans()):
        shape = [draw(st.integers(8, 12))] + shape[1:]
    return {"api": draw(st.sampled_from(["generator", "randomstate"])), "how": draw(st.sampled_from(["same", "fresh", "fresh", "module"])), "n": draw(st.integers(2, 3)),
            "sched": draw(st.sampled_from(["sync", "threads"])), "call": {"dist": draw(st.sampled_from(sorted(DISTS))), "size": shape, "chunks": draw(A.chunks_for_shape(shape))}}


# ------------------------------------------------------------------ choice
def choice_check(spec):
    import dask.array as da

    api = spec["api"]
    pop = spec["pop"]
    if isinstance(pop, int):
        population, a = np.arange(pop), pop
    else:
        population = np.asarray(pop["values"])
        a = da.from_array(population, chunks=tuple(pop["chunks"])) if pop.get("dask") else population
    p = None
    if spec.get("p"):
        w = np.asarray(spec["p"], dtype="f8")
        p = w / w.sum()
    size = spec["size"]  # list (n-d size), or None (one scalar draw)
    sz = tuple(size) if isinstance(size, list) else size
    chunks = tuple(tuple(c) for c in spec["chunks"])
    sig = dict(op="choice", api=api, replace=spec["replace"], ndim_size=len(chunks), multi_chunk=A.nblocks(spec["chunks"]) > 1, chunked_axis0=len(chunks[0]) > 1 if chunks else False, with_p=p is not None, size_none=size is None)
    with impl("choice", **sig):
        rng = make_rng(api, spec["seed"])
        kw = dict(size=sz, replace=spec["replace"], p=p if not spec.get("p_dask") or p is None else da.from_array(p, chunks=1), chunks=chunks)
        if api == "generator" and "shuffle" in spec:
            kw["shuffle"] = spec["shuffle"]
        try:
            r = rng.choice(a, **kw)
        except NotImplementedError:
            # documented refusal: replace=False with a multi-chunk output
            ensure(not spec["replace"] and A.nblocks(spec["chunks"]) > 1, "choice raised NotImplementedError for a supported call", "raises:NotImplementedError", **sig)
            return
        v = r.compute(scheduler="sync")
        v_again = r.compute(scheduler="sync")  # the SAME collection computed a second time
        v2 = make_rng(api, spec["seed"]).choice(a, **kw).compute(scheduler=spec["sched"])
    want_shape = sz if isinstance(sz, tuple) else ()
    ensure(np.shape(v) == want_shape, f"choice shape {np.shape(v)} != size {want_shape}", "shape-mismatch", **sig)
    ensure(np.array_equal(v, v_again), f"choice: recomputing the same collection gave {v!r} then {v_again!r}", "recompute-differs", **sig)
    ensure(np.array_equal(v, v2), f"choice with the same seed gave {v!r} then {v2!r}", "seeded-values-differ", **sig)
    ensure(bool(np.isin(v, population).all()), f"choice returned {v!r}: not all members of the population {population.tolist()}", "not-in-population", **sig)
    if p is not None:
        ensure(bool(np.isin(v, population[p > 0]).all()), f"choice returned an element of probability 0: {v!r} p={p.tolist()}", "zero-probability-element", **sig)
    if not spec["replace"]:
        flat = np.ravel(v)
        ensure(len(np.unique(flat)) == flat.size, f"replace=False returned duplicates: {v!r} (population {population.tolist()}, chunks {spec['chunks']})", "duplicates-without-replacement", **sig)
    A.check_meta(r, v, what="choice", sig=sig)


def choice_nontrivial(spec):
    return A.nblocks(spec["chunks"]) > 1 or (not spec["replace"] and int(np.prod(spec["size"] or [])) > 1)


def choice_classes(spec):
    yield "api-" + spec["api"]
    yield "replace-" + str(spec["replace"])
    yield "pop-" + ("int" if isinstance(spec["pop"], int) else "dask" if spec["pop"].get("dask") else "numpy")
    yield f"size-{len(spec['chunks'])}d" if spec["size"] is not None else "size-None"
    if spec.get("p"):
        yield "p"
    if A.nblocks(spec["chunks"]) > 1:
        yield "multi-chunk"
    n = spec["pop"] if isinstance(spec["pop"], int) else len(spec["pop"]["values"])
    if not spec["replace"] and spec["size"] is not None and int(np.prod(spec["size"])) == n:
        yield "full-population"


@st.composite
def choice_random(draw):
    n = draw(st.integers(1, 8))
    replace = draw(st.booleans())
    if draw(st.booleans()):
        pop = n
    else:
        vals = draw(st.lists(st.integers(-20, 20), min_size=n, max_size=n, unique=True))
        pop = {"values": vals, "dask": draw(st.booleans()), "chunks": [draw(A.chunks_for_axis(n))]}
    spec = {"api": draw(st.sampled_from(["generator", "randomstate"])), "seed": draw(st.integers(0, 9999)), "pop": pop, "replace": replace, "sched": draw(st.sampled_from(["sync", "threads"]))}
    nz = n
    if draw(st.integers(0, 2)) == 0:
        w = [draw(st.integers(0, 3)) for _ in range(n)]
        if sum(w) == 0:
            w[0] = 1
        spec["p"], nz = w, sum(1 for x in w if x)
        spec["p_dask"] = draw(st.booleans())
    limit = nz if not replace else 10
    if draw(st.integers(0, 3)) == 0 and spec["api"] == "generator":  # 2-d size (Generator API)
        rows = draw(st.integers(1, max(1, min(3, limit))))
        cols = draw(st.integers(1, max(1, limit // rows)))
        size = [rows, cols]
    elif draw(st.integers(0, 7)) == 0:  # size=None: one scalar draw (0-d result)
        size = None
    else:
        size = [draw(st.integers(0 if replace else min(1, limit), limit))]
    spec["size"] = size
    # replace=False: dask only accepts single-chunk outputs (checked: anything else must be refused, not wrong)
    spec["chunks"] = [] if size is None else draw(A.chunks_for_shape(size)) if replace or draw(st.integers(0, 1)) else [[s] for s in size]
    if spec["api"] == "generator" and draw(st.booleans()):
        spec["shuffle"] = draw(st.booleans())
    return spec


SUBCHECKS = [
    Sub("seeded_enum", seeded_check, kind="enum", cases=seeded_enum, nontrivial=seeded_nontrivial, classes=seeded_classes, exhaustive=True,
        doc="all chunkings of small shapes x both APIs: same seed => same names and values (recompute, sync vs threads)"),
    Sub("seeded", seeded_check, strategy=lambda tier: seeded_random(), n={"quick": 800, "thorough": 25000}, nontrivial=seeded_nontrivial, classes=seeded_classes,
        doc="random seeds, call sequences, distributions (array-valued parameters), chunkings, schedulers"),
    Sub("unseeded", unseeded_check, strategy=lambda tier: unseeded_random(), n={"quick": 600, "thorough": 15000}, nontrivial=lambda s: A.nblocks(s["call"]["chunks"]) > 1,
        classes=lambda s: ["how-" + s["how"], "api-" + s["api"], "dist-" + s["call"]["dist"]], doc="separately created unseeded arrays: distinct names, compute-together == alone, different draws"),
    Sub("choice", choice_check, strategy=lambda tier: choice_random(), n={"quick": 1200, "thorough": 30000}, nontrivial=choice_nontrivial, classes=choice_classes,
        doc="choice with/without replacement: shape, membership, distinctness, determinism"),
    Sub("processes", seeded_check, kind="enum", cases=procs_enum, nontrivial=seeded_nontrivial, classes=seeded_classes, serial=True, exhaustive=True,
        doc="two (thorough: four) fixed seeded cases recomputed on the multiprocessing scheduler"),
]
