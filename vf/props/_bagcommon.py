"""Shared pieces for the bag properties (C48): named picklable functions, the
JSON <-> live data conversion, the plain-Python reference for every bag
operation, and the code that applies the same operation to a dask Bag.

Element kinds ("types") tracked through a pipeline
    int    small Python ints
    str    short strings
    pair   (int, int) tuples                     (JSON: [a, b])
    dict   {"k": int, "v": int}
    ilist  lists of ints                         (for flatten)
    tup    other tuples produced by zip/join/product/frequencies/foldby (compared with ==)
    grp    (key, [elements]) produced by groupby (element order inside a group is not promised)

The reference state ``Ref`` carries the expected flat sequence, whether the bag
still promises that order, and — while it is known from documented behaviour —
the expected content of every partition (``parts``).  ``parts`` is only known
for bags built from explicit pieces (``from_delayed``) or with
``from_sequence(partition_size=)`` ("The length of each partition") and while
only partition-wise operations were applied.
"""
from __future__ import annotations

import functools
import itertools
import json
import math
from collections import Counter
from fractions import Fraction

from vf.core import Reject


# ----------------------------------------------------------------- named functions
def inc(x):
    return x + 1


def double(x):
    return 2 * x


def neg(x):
    return -x


def square(x):
    return x * x


def mod3(x):
    return x % 3


def iseven(x):
    return x % 2 == 0


def ispos(x):
    return x > 0


def identity(x):
    return x


def tostr(x):
    return "s" + str(x % 4)


def mkpair(x):
    return (x % 3, x)


def mkdict(x):
    return {"k": x % 3, "v": x}


def mklist(x):
    return list(range(x % 4))


def strlen(s):
    return len(s)


def upper(s):
    return s.upper()


def rev(s):
    return s[::-1]


def first_char(s):
    return s[:1]


def has_a(s):
    return "a" in s


def pair_sum(p):
    return p[0] + p[1]


def swap(p):
    return (p[1], p[0])


def first(p):
    return p[0]


def second(p):
    return p[1]


def first_even(p):
    return p[0] % 2 == 0


def getk(d):
    return d["k"]


def getv(d):
    return d["v"]


def v_even(d):
    return d["v"] % 2 == 0


def items(d):
    return (d["k"], d["v"])


def nonempty(x):
    return len(x) > 0


def lsum(x):
    return sum(x)


def add(x, y):
    return x + y


def mul(x, y):
    return x * y


def maxf(x, y):
    return max(x, y)


def minf(x, y):
    return min(x, y)


def addk(x, y=0):
    return x + y


def add3k(x, y, z=0):
    return x + y + z


# binops whose accumulator differs from the element (need an initial value and a separate combine)
def count_binop(acc, x):
    return acc + 1


def addlen(acc, s):
    return acc + len(s)


def add_second(acc, p):
    return acc + p[1]


def add_v(acc, d):
    return acc + d["v"]


# partition-wise functions that are homomorphic w.r.t. concatenation (f(a + b) == f(a) + f(b)), so that the
# plain-Python computation on the concatenated sequence is the reference whatever the partitioning
def mp_list(part):
    return list(part)


def mp_gen(part):
    return (x for x in part)


def mp_dupe(part):
    return [y for x in part for y in (x, x)]


def mp_truthy(part):
    return [x for x in part if x]


def mp_inc(part):
    return [x + 1 for x in part]


def mp_addn(part, n=0):
    return [x + n for x in part]


def mp_zipadd(part, other):
    return [x + y for x, y in zip(part, other, strict=True)]


# reductions (perpartition / aggregate)
def count_it(seq):
    return sum(1 for _ in seq)


def count_list(seq):
    return [sum(1 for _ in seq)]


def sumsq(seq):
    return sum(x * x for x in seq)


def list_it(seq):
    return list(seq)


def concat_lists(seqs):
    return [x for s in seqs for x in s]


FN = {
    f.__name__: f
    for f in [
        inc, double, neg, square, mod3, iseven, ispos, identity, tostr, mkpair, mkdict, mklist, strlen, upper, rev,
        first_char, has_a, pair_sum, swap, first, second, first_even, getk, getv, v_even, items, nonempty, lsum, add,
        mul, maxf, minf, addk, add3k, count_binop, addlen, add_second, add_v, mp_list, mp_gen, mp_dupe, mp_truthy,
        mp_inc, mp_addn, mp_zipadd, count_it, sumsq, list_it, concat_lists,
    ]
}
FN.update({"sum": sum, "max": max, "min": min, "len": len})

# unary maps: type -> [(fn, output type)]
MAPS = {
    "int": [("inc", "int"), ("double", "int"), ("neg", "int"), ("square", "int"), ("mod3", "int"), ("tostr", "str"),
            ("mkpair", "pair"), ("mkdict", "dict"), ("mklist", "ilist")],
    "str": [("strlen", "int"), ("upper", "str"), ("rev", "str"), ("first_char", "str")],
    "pair": [("pair_sum", "int"), ("swap", "pair"), ("first", "int"), ("second", "int")],
    "dict": [("getk", "int"), ("getv", "int"), ("items", "pair")],
    "ilist": [("lsum", "int"), ("strlen", "int")],
}
PREDS = {
    "int": ["iseven", "ispos", "mod3"],
    "str": ["has_a", "strlen"],
    "pair": ["first_even", "first"],
    "dict": ["v_even", "getk"],
    "ilist": ["nonempty", "lsum"],
}
# groupers / keys with hashable results
KEYS = {
    "int": ["iseven", "mod3", "identity"],
    "str": ["strlen", "first_char", "identity"],
    "pair": ["first", "second", "identity"],
    "dict": ["getk", "v_even"],
    "ilist": ["lsum", "strlen"],
}
HASHABLE = ("int", "str", "pair")
ORDERABLE = ("int", "str", "pair")


# ----------------------------------------------------------------- data
def to_live(kind, data):
    if kind == "pair":
        return [tuple(x) for x in data]
    return [x for x in data]


def _piece(s, kind):
    return to_live(kind, json.loads(s))


def layout_parts(data, part):
    """expected partitions of the source bag, or None where the layout is not documented"""
    how = part["how"]
    if how == "sizes":
        out, i = [], 0
        for s in part["sizes"]:
            out.append(data[i : i + s])
            i += s
        assert i == len(data), "generator bug: sizes do not add up"
        return out
    if how == "partition_size":
        p = part["n"]
        return [data[i : i + p] for i in range(0, len(data), p)] or [[]]
    return None


def build_source(src):
    import dask.bag as db
    from dask import delayed

    kind, part = src["kind"], src["part"]
    data = to_live(kind, src["data"])
    if part["how"] == "sizes":
        pieces = layout_parts(src["data"], part)
        # deterministic key names (pure=False would draw uuid4 names, and graph optimisation - hence which defect a case
        # hits - can depend on the names): a case must be a pure function of its spec
        import hashlib

        tag = hashlib.sha1(json.dumps([kind, src["data"], part], sort_keys=True, default=str).encode()).hexdigest()[:12]
        return db.from_delayed(
            [delayed(_piece, pure=True)(json.dumps(p), kind, dask_key_name=f"piece-{tag}-{i}") for i, p in enumerate(pieces)]
        )
    if part["how"] == "partition_size":
        return db.from_sequence(data, partition_size=part["n"])
    return db.from_sequence(data, npartitions=part["n"])


class Ref:
    """reference state of a bag"""

    def __init__(self, type_, flat, ordered=True, parts=None, nparts=None):
        self.type = type_
        self.flat = list(flat)
        self.ordered = ordered
        self.parts = parts
        self.nparts = len(parts) if parts is not None else nparts
        if parts is not None:
            assert [x for p in parts for x in p] == self.flat

    @classmethod
    def from_parts(cls, type_, parts, ordered=True):
        return cls(type_, [x for p in parts for x in p], ordered, [list(p) for p in parts])


class Final:
    """a computed (non-bag) result: how = 'exact' | 'float'"""

    def __init__(self, value, how="exact"):
        self.value = value
        self.how = how


def source_ref(src):
    data = to_live(src["kind"], src["data"])
    parts = layout_parts(data, src["part"])
    if parts is not None:
        return Ref.from_parts(src["kind"], parts)
    return Ref(src["kind"], data, True, None, None)


# ----------------------------------------------------------------- canonical comparison
def ck(x):
    if isinstance(x, bool):
        return ("b", x)
    if isinstance(x, int):
        return ("i", x)
    if isinstance(x, float):
        return ("f", x)
    if isinstance(x, str):
        return ("s", x)
    if isinstance(x, tuple):
        return ("t", tuple(ck(a) for a in x))
    if isinstance(x, list):
        return ("l", tuple(ck(a) for a in x))
    if isinstance(x, dict):
        return ("d", tuple(sorted((ck(k), ck(v)) for k, v in x.items())))
    if x is None:
        return ("n",)
    return ("?", type(x).__name__, repr(x))


def ck_group(g):
    """(key, [elements]) with the elements as a multiset"""
    if not (isinstance(g, tuple) and len(g) == 2 and isinstance(g[1], list)):
        return ("malformed-group", ck(g))
    return ("g", ck(g[0]), tuple(sorted(ck(e) for e in g[1])))


def canon_elements(type_, seq):
    f = ck_group if type_ == "grp" else ck
    return [f(x) for x in seq]


# ----------------------------------------------------------------- reference semantics
def _pluck_one(x, key, has_default, default):
    if isinstance(key, list):
        return tuple(_pluck_one(x, k, has_default, default) for k in key)
    if not has_default:
        return x[key]
    try:
        return x[key]
    except (KeyError, IndexError):
        return default


def _elementwise(R, out_type, f):
    """apply a per-partition list function, keeping the layout when it is known"""
    if R.parts is not None:
        return Ref.from_parts(out_type, [f(p) for p in R.parts], R.ordered)
    return Ref(out_type, f(R.flat), R.ordered, None, R.nparts)


def _reduce(binop, seq, has_initial, initial):
    if has_initial:
        return functools.reduce(binop, seq, initial)
    return functools.reduce(binop, seq)


def _extra_value(R, extra):
    """value of a broadcast argument"""
    k = extra["kind"]
    if k in ("const", "kwconst"):
        return extra["value"]
    if k == "kwitem":
        return len(R.flat)
    if k == "item":
        if extra["red"] == "count":
            return len(R.flat)
        _need(R.flat or extra["red"] == "sum", "max/min of an empty bag")
        return FN[extra["red"]](R.flat)
    raise ValueError(k)


def _need(cond, why):
    """explicit preconditions under which plain Python itself has no answer (max([]), reduce without initial on [],
    division by zero in mean/var).  Only these are rejected; any other exception in the reference is a harness error."""
    if not cond:
        raise Reject(why)


def ref_step(R, op):
    """plain-Python meaning of one operation. Returns a new Ref or a Final."""
    name = op["op"]
    t = R.type
    if name == "map":
        f = FN[op["fn"]]
        extra = op.get("extra")
        out = op["out"]
        if extra is None:
            return _elementwise(R, out, lambda p: [f(x) for x in p])
        if extra["kind"] in ("bag", "kwbag"):
            g = FN[extra["fn"]]
            return _elementwise(R, out, lambda p: [f(x, g(x)) for x in p])
        if extra["kind"] == "self":
            return _elementwise(R, out, lambda p: [f(x, x) for x in p])
        v = _extra_value(R, extra)
        return _elementwise(R, out, lambda p: [f(x, v) for x in p])
    if name == "starmap":
        f = FN[op["fn"]]
        kw = {}
        if "z" in op:
            kw["z"] = op["z"]
        elif "zitem" in op:
            kw["z"] = sum(x[1] for x in R.flat)
        return _elementwise(R, "int", lambda p: [f(*x, **kw) for x in p])
    if name == "filter":
        f = FN[op["fn"]]
        return _elementwise(R, t, lambda p: [x for x in p if f(x)])
    if name == "remove":
        f = FN[op["fn"]]
        return _elementwise(R, t, lambda p: [x for x in p if not f(x)])
    if name == "map_partitions":
        fn = op["fn"]
        if fn in ("mp_list", "mp_gen"):
            return _elementwise(R, t, list)
        if fn == "mp_dupe":
            return _elementwise(R, t, mp_dupe)
        if fn == "mp_truthy":
            return _elementwise(R, t, mp_truthy)
        if fn == "mp_inc":
            return _elementwise(R, t, mp_inc)
        if fn == "mp_addn":
            n = _extra_value(R, op["extra"])
            return _elementwise(R, t, lambda p: [x + n for x in p])
        if fn == "mp_zipadd":
            g = FN[op["other_fn"]]
            return _elementwise(R, t, lambda p: [x + g(x) for x in p])
        raise ValueError(fn)
    if name == "pluck":
        key, hd, dv = op["key"], "default" in op, op.get("default")
        return _elementwise(R, op["out"], lambda p: [_pluck_one(x, key, hd, dv) for x in p])
    if name == "flatten":
        return _elementwise(R, op["out"], lambda p: [y for x in p for y in x])
    if name == "distinct":
        key = op.get("key")
        if key is None:
            kf = ck
        elif op.get("key_is_str"):
            kf = lambda x: ck(x[key])  # noqa: E731
        else:
            kf = lambda x: ck(FN[key](x))  # noqa: E731
        seen, out = set(), []
        for x in R.flat:
            k = kf(x)
            if k not in seen:
                seen.add(k)
                out.append(x)
        r = Ref(t, out, False, None, 1)
        r.distinct_key = kf  # which representative of a key class survives is not promised
        r.population = list(R.flat)
        return r
    if name == "frequencies":
        c = {}
        for x in R.flat:
            c[x] = c.get(x, 0) + 1
        return Ref("tup", list(c.items()), False, None, 1)
    if name == "topk":
        key = FN[op["key"]] if op.get("key") else None
        out = sorted(R.flat, key=key, reverse=True)[: op["k"]]
        r = Ref(t, out, False, None, 1)
        if key is not None:
            # ties under the key: any of the tied elements may be returned
            r.topk_key = key
            r.population = list(R.flat)
        return r
    if name == "fold":
        binop = FN[op["binop"]]
        _need(R.flat or "initial" in op, "reduce of an empty sequence without initial value")
        return Final(_reduce(binop, R.flat, "initial" in op, op.get("initial")))
    if name == "reduction":
        per = op["per"]
        if per == "list_it":
            return Ref(t, R.flat, False, None, 1)
        _need(R.flat or per not in ("max", "min"), "max/min of an empty sequence")
        val = {"sum": sum, "count_it": len, "max": max, "min": min, "sumsq": sumsq}[per](R.flat)
        return Final(val)
    if name == "foldby":
        key = op["key"]
        kf = (lambda x: x[key]) if op.get("key_is_str") else FN[key]
        binop = FN[op["binop"]]
        acc = {}
        for x in R.flat:
            k = kf(x)
            if k in acc:
                acc[k] = binop(acc[k], x)
            elif "initial" in op:
                acc[k] = binop(op["initial"], x)
            else:
                acc[k] = x
        return Ref("tup", list(acc.items()), False, None, 1)
    if name == "groupby":
        kf = FN[op["key"]]
        g = {}
        for x in R.flat:
            g.setdefault(kf(x), []).append(x)
        return Ref("grp", list(g.items()), False, None, None)
    if name == "join":
        other = to_live(op["other_kind"], op["other_data"])
        on_self = FN[op["on_self"]]
        on_other = FN[op["on_other"]] if op.get("on_other") else on_self
        out = [(o, s) for s in R.flat for o in other if on_other(o) == on_self(s)]
        return Ref("tup", out, False, None, R.nparts)
    if name == "product":
        other = R.flat if op["other"] == "self" else to_live(op["other"]["kind"], op["other"]["data"])
        return Ref("tup", list(itertools.product(R.flat, other)), False, None, None)
    if name == "accumulate":
        binop = FN[op["binop"]]
        if "initial" in op:
            out = list(itertools.accumulate(R.flat, binop, initial=op["initial"]))
        else:
            out = list(itertools.accumulate(R.flat, binop))
        return Ref(t, out, R.ordered, None, R.nparts)
    if name == "take":
        k, m = op["k"], op["npartitions"]
        if m == -1:
            out = R.flat[:k]
        else:
            if R.parts is None:
                raise Reject("take(npartitions=m) needs a documented layout")
            if m > len(R.parts):
                raise Reject("take(npartitions) larger than the bag")
            out = [x for p in R.parts[:m] for x in p][:k]
        if op.get("compute", True):
            return Final(out)
        return Ref.from_parts(t, [out], R.ordered)
    if name == "repartition":
        return Ref(t, R.flat, R.ordered, None, op.get("npartitions"))
    if name == "zip":
        fs = [FN[f] for f in op["fns"]]
        if op.get("self_twice"):
            return _elementwise(R, op["out"], lambda p: [(x, x) for x in p])
        return _elementwise(R, op["out"], lambda p: [(x, *[f(x) for f in fs]) for x in p])
    if name == "concat":
        refs = [R if o == "self" else source_ref(o) for o in op["others"]]
        refs = [R] + refs
        flat = [x for r in refs for x in r.flat]
        if all(r.parts is not None for r in refs):
            return Ref.from_parts(t, [p for r in refs for p in r.parts], all(r.ordered for r in refs))
        nparts = sum(r.nparts for r in refs) if all(r.nparts is not None for r in refs) else None
        return Ref(t, flat, all(r.ordered for r in refs), None, nparts)
    if name in ("count", "sum", "max", "min", "any", "all"):
        f = {"count": len, "sum": sum, "max": max, "min": min, "any": any, "all": all}[name]
        _need(R.flat or name not in ("max", "min"), "max/min of an empty sequence")
        return Final(f(R.flat))
    if name == "mean":
        _need(R.flat, "mean of an empty sequence")
        return Final(float(Fraction(sum(R.flat), len(R.flat))), "float")
    if name in ("var", "std"):
        n, ddof = len(R.flat), op.get("ddof", 0)
        _need(n - ddof > 0, "variance needs more than ddof elements")
        m = Fraction(sum(R.flat), n)
        v = (Fraction(sum(x * x for x in R.flat), n) - m * m) * n / (n - ddof)
        return Final(float(v) if name == "var" else math.sqrt(v), "float")
    raise ValueError(f"unknown op {name}")


REDUCING = {"distinct", "frequencies", "topk", "fold", "reduction", "foldby", "count", "sum", "max", "min", "any", "all", "mean", "var", "std"}


# ----------------------------------------------------------------- dask side
def _dask_extra(bag, extra):
    """positional/keyword arguments for a broadcast argument"""
    k = extra["kind"]
    if k == "const":
        return (extra["value"],), {}
    if k == "kwconst":
        return (), {"y": extra["value"]}
    if k == "bag":
        return (bag.map(FN[extra["fn"]]),), {}
    if k == "self":
        return (bag,), {}
    if k == "kwbag":
        return (), {"y": bag.map(FN[extra["fn"]])}
    if k == "item":
        item = {"sum": bag.sum, "max": bag.max, "min": bag.min, "count": bag.count}[extra["red"]]()
        return (item,), {}
    raise ValueError(k)


def dask_step(bag, op):
    """apply one operation to a dask Bag; returns a Bag, an Item, or (for take) a tuple"""
    import dask.bag as db
    from dask import delayed

    name = op["op"]
    if name == "map":
        f = FN[op["fn"]]
        extra = op.get("extra")
        if extra is None:
            return bag.map(f)
        a, kw = _dask_extra(bag, extra)
        return bag.map(f, *a, **kw)
    if name == "starmap":
        f = FN[op["fn"]]
        if "z" in op:
            return bag.starmap(f, z=op["z"])
        if "zitem" in op:
            return bag.starmap(f, z=bag.pluck(1).sum())
        return bag.starmap(f)
    if name == "filter":
        return bag.filter(FN[op["fn"]])
    if name == "remove":
        return bag.remove(FN[op["fn"]])
    if name == "map_partitions":
        fn = op["fn"]
        if fn == "mp_addn":
            extra = op["extra"]
            if extra["kind"] == "kwconst":
                return bag.map_partitions(mp_addn, n=extra["value"])
            if extra["kind"] == "kwitem":
                return bag.map_partitions(mp_addn, n=bag.count())
            a, _ = _dask_extra(bag, extra)
            return bag.map_partitions(mp_addn, *a)
        if fn == "mp_zipadd":
            other = bag.map(FN[op["other_fn"]])
            if op.get("kw"):
                return bag.map_partitions(mp_zipadd, other=other)
            return bag.map_partitions(mp_zipadd, other)
        return bag.map_partitions(FN[fn])
    if name == "pluck":
        if "default" in op:
            return bag.pluck(op["key"], op["default"])
        return bag.pluck(op["key"])
    if name == "flatten":
        return bag.flatten()
    if name == "distinct":
        key = op.get("key")
        if key is None:
            return bag.distinct()
        return bag.distinct(key=key if op.get("key_is_str") else FN[key])
    if name == "frequencies":
        return bag.frequencies(split_every=op.get("split_every"), sort=op.get("sort", False))
    if name == "topk":
        return bag.topk(op["k"], key=FN[op["key"]] if op.get("key") else None, split_every=op.get("split_every"))
    if name == "fold":
        kw = {}
        if "initial" in op:
            kw["initial"] = op["initial"]
        if op.get("combine"):
            kw["combine"] = FN[op["combine"]]
        return bag.fold(FN[op["binop"]], split_every=op.get("split_every"), **kw)
    if name == "reduction":
        kw = {"split_every": op.get("split_every")}
        if op["per"] == "list_it":
            kw["out_type"] = db.Bag
        return bag.reduction(FN[op["per"]], FN[op["agg"]], **kw)
    if name == "foldby":
        kw = {}
        for k in ("initial", "combine_initial"):
            if k in op:
                kw[k] = op[k]
        if op.get("combine"):
            kw["combine"] = FN[op["combine"]]
        key = op["key"] if op.get("key_is_str") else FN[op["key"]]
        return bag.foldby(key, FN[op["binop"]], split_every=op.get("split_every"), **kw)
    if name == "groupby":
        kw = {"shuffle": op["shuffle"]}
        if op["shuffle"] == "tasks":
            kw["max_branch"] = op.get("max_branch")
        else:
            kw["npartitions"] = op.get("npartitions")
            if "blocksize" in op:
                kw["blocksize"] = op["blocksize"]
        return bag.groupby(FN[op["key"]], **kw)
    if name == "join":
        other = to_live(op["other_kind"], op["other_data"])
        how = op["other_as"]
        if how == "tuple":
            other = tuple(other)
        elif how == "bag":
            other = db.from_sequence(other, npartitions=1)
        elif how == "delayed":
            import hashlib

            tag = hashlib.sha1(json.dumps([op["other_kind"], op["other_data"]], sort_keys=True, default=str).encode()).hexdigest()[:12]
            other = delayed(_piece, pure=True)(json.dumps(op["other_data"]), op["other_kind"], dask_key_name=f"joinpiece-{tag}")
        on_other = FN[op["on_other"]] if op.get("on_other") else None
        return bag.join(other, FN[op["on_self"]], on_other)
    if name == "product":
        other = bag if op["other"] == "self" else build_source(op["other"])
        return bag.product(other)
    if name == "accumulate":
        if "initial" in op:
            return bag.accumulate(FN[op["binop"]], initial=op["initial"])
        return bag.accumulate(FN[op["binop"]])
    if name == "take":
        return bag.take(op["k"], npartitions=op["npartitions"], compute=op.get("compute", True), warn=False)
    if name == "repartition":
        if "npartitions" in op:
            return bag.repartition(npartitions=op["npartitions"])
        return bag.repartition(partition_size=op["partition_size"])
    if name == "zip":
        if op.get("self_twice"):
            return db.zip(bag, bag)
        return db.zip(bag, *[bag.map(FN[f]) for f in op["fns"]])
    if name == "concat":
        return db.concat([bag] + [bag if o == "self" else build_source(o) for o in op["others"]])
    if name in ("count", "sum", "max", "min", "any", "all"):
        se = op.get("split_every")
        return getattr(bag, name)(split_every=se)
    if name == "mean":
        return bag.mean()
    if name in ("var", "std"):
        return getattr(bag, name)(ddof=op.get("ddof", 0))
    raise ValueError(f"unknown op {name}")


def multiset_diff(got, want):
    cg, cw = Counter(got), Counter(want)
    return list((cg - cw).elements()), list((cw - cg).elements())
