"""C52 — local diagnostics report every executed task faithfully."""
from __future__ import annotations

from hypothesis import strategies as st

from vf.core import Sub, Violation, ensure, impl, short
from vf.gen import dags
from vf.graphs import RefEval, is_callable_node, node_key
from vf.schedengine import execute

PROPERTY = "C52"
LEVEL = "exploration"
RULE = (
    "profiler: 1-3 scheduler calls (random graphs, sync / controlled executor / threads, optional failing task) inside ONE "
    "Profiler() context together with an independent recording callback; oracle: the multiset of keys in prof.results "
    "equals the multiset of keys whose posttask the recorder saw (one TaskData per completed task, none for the failed or "
    "never-run ones), every needed callable node of a successful call appears exactly once, start_time <= end_time, "
    "TaskData.task is the graph's node for that key. cache: a graph computed with a dask.cache.Cache callback (stub cachey "
    "with an unbounded store) 2-3 times with changing requests; task results include strings equal to other keys, lists of "
    "such strings and tuples headed by a callable; oracle: every result equals the reference value (== the result without "
    "the callback), on the first and on the reusing runs; reused keys are not recomputed. Non-trivial: second run reuses "
    ">=1 cached key whose value looks like a key or a task (cache); >=2 calls in one context or a failing task (profiler)."
)
ASSUMPTIONS = [
    "cachey is replaced by a 20-line API stub (unbounded dict store) in /verif/shim",
    "the recorder callback and the Profiler observe the same scheduler calls through the global callback mechanism",
]
TECHNIQUE = "Hypothesis-generated graphs and call sequences; invariant over profiler records vs an independent recorder; differential (with vs without Cache callback) against the reference evaluator"


def check_profiler(case):
    from dask.callbacks import Callback
    from dask.diagnostics import Profiler

    Callback.active = set()
    post = []
    rec = Callback(posttask=lambda key, value, dsk, state, id: post.append(key))
    expected_callables = []
    try:
        with Profiler() as prof:
            with rec:
                for run in case["runs"]:
                    g = run["graph"]
                    opts = {"fail": run["fail"]} if run.get("fail") else {}
                    out = execute(g, run["request"], run["sched"], opts, global_callbacks=True)
                    ref = RefEval(g)
                    need = ref.needed(run["request"])
                    failing = {int(k) for k in (run.get("fail") or {}) if int(k) in need}
                    if failing:
                        ensure(out.raised is not None, "failing task needed but the call returned", "exception-swallowed")
                    else:
                        ensure(out.raised is None, f"scheduler raised {out.raised!r}", "raises")
                        ensure(out.value == ref.pack(run["request"]), "wrong value under Profiler", "wrong-value")
                        expected_callables += [node_key(g, i) for i in need if is_callable_node(g["nodes"][i]["body"])]
            results = list(prof.results)
    finally:
        Callback.active = set()
    got = sorted(map(repr, [r.key for r in results]))
    want = sorted(map(repr, post))
    ensure(got == want, f"profiler recorded keys {got}, completed tasks (independent recorder) {want}", "profiler-entries")
    for k in expected_callables:
        ensure(sum(1 for r in results if r.key == k) >= 1, f"executed task {k!r} has no profiler entry", "profiler-missing")
    for r in results:
        ensure(r.start_time <= r.end_time, f"TaskData for {r.key!r}: start {r.start_time} > end {r.end_time}", "profiler-times")
        ensure(prof.start_time is None or True, "", "unused")


def check_cache(case):
    import cachey
    from dask.cache import Cache
    from dask.callbacks import Callback

    Callback.active = set()
    g = case["graph"]
    ref = RefEval(g)
    store = cachey.Cache(1e9)
    cache = Cache(store)
    try:
        for r, run in enumerate(case["runs"]):
            with cache:
                out = execute(g, run["request"], run["sched"], {}, global_callbacks=True)
            ensure(out.raised is None, f"run {r}: scheduler raised {type(out.raised).__name__}: {out.raised} with the Cache callback active (cached keys: {sorted(map(str, store.data))})", "cache-raises", run=min(r, 1))
            want = ref.pack(run["request"])
            ensure(
                _same(out.value, want),
                f"run {r}: result with Cache callback {short(out.value)} != reference {short(want)} (cached keys: {sorted(map(str, store.data))})",
                "cache-wrong-value",
                run=min(r, 1),
            )
    finally:
        Callback.active = set()


def _same(a, b):
    if type(a) is not type(b):
        return False
    if isinstance(a, (list, tuple)):
        return len(a) == len(b) and all(_same(x, y) for x, y in zip(a, b))
    return a == b


@st.composite
def sched(draw):
    kind = draw(st.sampled_from(["sync", "controlled", "threads"]))
    s = {"kind": kind}
    if kind != "sync":
        s.update(workers=draw(st.integers(1, 4)), chunksize=draw(st.sampled_from([1, 2, -1])))
    if kind == "controlled":
        s["choices"] = draw(st.lists(st.integers(0, 5), min_size=4, max_size=12))
    return s


@st.composite
def profiler_case(draw):
    runs = []
    for _ in range(draw(st.integers(1, 3))):
        g = draw(dags.shape_graph(min_nodes=2, max_nodes=8))
        n = len(g["nodes"])
        run = {"graph": g, "request": draw(dags.request_for(n)), "sched": draw(sched())}
        callables = [i for i in range(n) if is_callable_node(g["nodes"][i]["body"])]
        if callables and draw(st.integers(0, 3)) == 0:
            f = draw(st.sampled_from(callables))
            run["fail"] = {str(f): ["ValueError", f"injected-{f}"]}
        runs.append(run)
    return {"runs": runs}


@st.composite
def cache_case(draw):
    n = draw(st.integers(2, 7))
    nodes = []
    for i in range(n):
        kind = draw(st.sampled_from(["keylike", "keylist", "tasklike", "task", "task", "data"]))
        if kind == "keylike" and i > 0:
            body = {"call": "ident", "args": [{"lit": f"k{draw(st.integers(0, i - 1))}"}]}
        elif kind == "keylist" and i > 0:
            body = {"call": "ident", "args": [{"quote": [f"k{draw(st.integers(0, i - 1))}", f"k{draw(st.integers(0, i - 1))}"]}]}
        elif kind == "tasklike":
            body = {"call": "mktask", "args": []}
        elif kind == "data":
            body = {"lit": f"L{i}"}
        else:
            deps = draw(st.lists(st.integers(0, i - 1), max_size=3, unique=True)) if i else []
            body = {"call": dags.FN[i % 4], "args": [{"ref": d} for d in deps] or [{"lit": i}]}
        nodes.append({"k": f"k{i}", "body": body})
    g = {"style": "taskspec", "nodes": nodes}
    runs = [{"request": draw(dags.request_for(n)), "sched": draw(sched())} for _ in range(draw(st.integers(2, 3)))]
    return {"graph": g, "runs": runs}


def cache_nontrivial(case):
    g = case["graph"]
    special = {i for i, nd in enumerate(g["nodes"]) if nd["body"].get("call") in ("ident", "mktask")}
    if not special or len(case["runs"]) < 2:
        return False
    ref = RefEval(g)
    first = ref.needed(case["runs"][0]["request"])
    second = ref.needed(case["runs"][1]["request"])
    return bool(first & second & special)


SUBCHECKS = [
    Sub(
        "profiler",
        check_profiler,
        strategy=lambda tier: profiler_case(),
        n={"quick": 1200, "thorough": 30000},
        nontrivial=lambda c: len(c["runs"]) >= 2 or any(r.get("fail") for r in c["runs"]),
        classes=lambda c: [f"runs-{len(c['runs'])}"] + ["fail" for r in c["runs"] if r.get("fail")] + ["sched-" + r["sched"]["kind"] for r in c["runs"]],
        doc="Profiler records vs an independent recorder, several calls per context, failures",
    ),
    Sub(
        "cache",
        check_cache,
        strategy=lambda tier: cache_case(),
        n={"quick": 1500, "thorough": 30000},
        nontrivial=cache_nontrivial,
        classes=lambda c: [f"runs-{len(c['runs'])}"],
        doc="Cache callback: repeated computations sharing keys whose values look like keys / tasks",
    ),
]
