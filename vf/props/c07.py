"""C07 — toposort / getcycle / isdag are correct.

Domain: directed graphs (self-loops allowed) on n nodes, encoded as legacy
tuple graphs, as Task graphs, or with an explicit ``dependencies=`` map; every
non-empty start-key subset (as list, or single key) and ``None``.
Oracle: own DFS reachability / cycle detection (no dask code).
"""
from __future__ import annotations

import itertools

from hypothesis import strategies as st

from vf.core import Sub, Violation, ensure, impl, time_limit

PROPERTY = "C07"
LEVEL = "exploration"
RULE = (
    "enum: every labelled digraph (self-loops allowed) on n<=3 (quick) / n<=4 (thorough) nodes x every "
    "non-empty start-key subset x 3 encodings (legacy tuples, Task objects, explicit dependencies map); "
    "hyp: random digraphs to 10 nodes with random insertion order. Non-trivial: the graph restricted to the nodes "
    "reachable from the start keys contains a cycle AND has at least one node outside every cycle "
    "(so reconstruction must separate cycle members from mere ancestors), or is acyclic with a diamond."
)
ASSUMPTIONS = [
    "dependency edges are read off the spec (edge [i,j]: node i depends on node j); the oracle is a 40-line DFS",
    "direction of a reported cycle follows the getcycle docstring: each element depends on the next",
]


def inc(*a):
    return 0


_KT = ["str"]


def key(i):
    # small ints hash to themselves: set iteration order (which the DFS
    # follows) is then independent of PYTHONHASHSEED
    return i if _KT[0] == "int" else f"k{i}"


def build(spec):
    n = spec["n"]
    deps = {i: [] for i in range(n)}
    for i, j in spec["edges"]:
        deps[i].append(j)
    order = spec.get("order") or list(range(n))
    enc = spec["enc"]
    if enc == "legacy":
        dsk = {key(i): (inc, *[key(j) for j in deps[i]]) for i in order}
        return dsk, None
    from dask._task_spec import Task, TaskRef

    if enc == "task":
        dsk = {key(i): Task(key(i), inc, *[TaskRef(key(j)) for j in deps[i]]) for i in order}
        return dsk, None
    # explicit dependency map, graph values irrelevant
    dsk = {key(i): 0 for i in order}
    depmap = {key(i): {key(j) for j in deps[i]} for i in order}
    return dsk, depmap


def ref(spec):
    n = spec["n"]
    adj = {key(i): set() for i in range(n)}
    for i, j in spec["edges"]:
        adj[key(i)].add(key(j))
    return adj


def reachable(adj, starts):
    seen = set()
    stack = list(starts)
    while stack:
        x = stack.pop()
        if x in seen:
            continue
        seen.add(x)
        stack.extend(adj[x])
    return seen


def on_cycle_nodes(adj, nodes):
    """nodes (subset) that lie on some cycle within adj restricted to `nodes`."""
    out = set()
    for v in nodes:
        # v is on a cycle iff v reachable from one of its successors
        if v in reachable(adj, [w for w in adj[v] if w in nodes]):
            out.add(v)
    return out


def start_keys(spec):
    s = spec["start"]
    if s is None:
        return None, [key(i) for i in range(spec["n"])]
    if isinstance(s, int):
        return key(s), [key(s)]
    return [key(i) for i in s], [key(i) for i in s]


def check(spec):
    import dask.core as core

    _KT[0] = spec.get("keytype", "str")
    adj = ref(spec)
    dsk, depmap = build(spec)
    arg, starts = start_keys(spec)
    reach = reachable(adj, starts)
    cyc_nodes = on_cycle_nodes(adj, reach)
    has_cycle = bool(cyc_nodes)
    allcyc = bool(on_cycle_nodes(adj, set(adj)))

    # --- toposort (whole graph) ---
    if spec["start"] is None or spec.get("also_toposort", True):
        try:
            with time_limit(5, "toposort"):
                if depmap is None:
                    out = core.toposort(dsk)
                else:
                    out = core.toposort(dsk, dependencies=depmap)
        except Violation:
            raise
        except RuntimeError as e:
            ensure(allcyc, f"toposort raised on an acyclic graph: {e}", "toposort-raises-on-dag")
        except Exception as e:  # noqa: BLE001
            raise Violation(f"toposort raised {type(e).__name__}: {e}", "toposort-wrong-exception")
        else:
            ensure(not allcyc, f"toposort returned {out} on a cyclic graph", "toposort-misses-cycle")
            ensure(
                sorted(out) == sorted(adj),
                f"toposort returned {out}, keys are {sorted(adj)}",
                "toposort-not-a-permutation",
            )
            pos = {k: i for i, k in enumerate(out)}
            for a, ds in adj.items():
                for d in ds:
                    ensure(pos[d] < pos[a], f"toposort {out}: {a} before its dependency {d}", "toposort-order")

    if depmap is not None:
        return  # getcycle/isdag take no dependencies argument

    # --- getcycle / isdag ---
    with impl("getcycle"), time_limit(5, "getcycle"):
        c = core.getcycle(dsk, arg)
    with impl("isdag"):
        dag = core.isdag(dsk, arg)
    ensure(dag == (not c), f"isdag={dag} but getcycle={c}", "isdag-disagrees")
    if not has_cycle:
        ensure(c == [], f"getcycle returned {c} but no cycle is reachable from {starts}", "getcycle-phantom")
        return
    ensure(c != [], f"getcycle returned [] but a cycle through {sorted(cyc_nodes)} is reachable from {starts}", "getcycle-misses")
    ensure(len(c) >= 2 and c[0] == c[-1], f"cycle {c} does not close", "getcycle-not-closed")
    for a, b in zip(c, c[1:]):
        ensure(a in adj and b in adj[a], f"cycle {c}: {a} does not depend on {b}", "getcycle-not-an-edge")
    for a in c:
        ensure(a in reach, f"cycle {c}: {a} not reachable from {starts}", "getcycle-unreachable")


def nontrivial(spec):
    _KT[0] = spec.get("keytype", "str")
    adj = ref(spec)
    _, starts = start_keys(spec)
    reach = reachable(adj, starts)
    cyc = on_cycle_nodes(adj, reach)
    if cyc:
        return len(reach - cyc) >= 1
    # acyclic: diamond = some node reachable by two distinct paths
    indeg = {k: 0 for k in reach}
    for a in reach:
        for d in adj[a]:
            indeg[d] += 1
    return any(v >= 2 for v in indeg.values()) and len(reach) >= 3


def classes(spec):
    _KT[0] = spec.get("keytype", "str")
    adj = ref(spec)
    _, starts = start_keys(spec)
    reach = reachable(adj, starts)
    cyc = on_cycle_nodes(adj, reach)
    yield "cyclic-reachable" if cyc else "acyclic-reachable"
    if any(i == j for i, j in spec["edges"]):
        yield "self-loop"
    yield "enc-" + spec["enc"]


def enum_cases(tier):
    nmax = 3 if tier == "quick" else 4
    for n in range(1, nmax + 1):
        pairs = [(i, j) for i in range(n) for j in range(n)]
        subsets = [list(c) for r in range(1, n + 1) for c in itertools.combinations(range(n), r)]
        for mask in range(1 << len(pairs)):
            edges = [list(p) for b, p in enumerate(pairs) if mask >> b & 1]
            for enc in ("legacy", "task", "depmap"):
                if enc == "depmap":
                    yield {"n": n, "edges": edges, "enc": enc, "start": None}
                    yield {"n": n, "edges": edges, "enc": enc, "start": None, "keytype": "int"}
                    continue
                yield {"n": n, "edges": edges, "enc": enc, "start": None}
                for s in subsets:
                    yield {"n": n, "edges": edges, "enc": enc, "start": s, "also_toposort": False}
                    if len(s) == 1:
                        yield {"n": n, "edges": edges, "enc": enc, "start": s[0], "also_toposort": False}


@st.composite
def random_graph(draw):
    n = draw(st.integers(2, 10))
    density = draw(st.sampled_from([0.08, 0.15, 0.3, 0.5]))
    pairs = [(i, j) for i in range(n) for j in range(n)]
    # construction, not rejection: each pair kept with a drawn threshold
    bits = draw(st.lists(st.floats(0, 1), min_size=len(pairs), max_size=len(pairs)))
    edges = [list(p) for p, b in zip(pairs, bits) if b < density]
    order = draw(st.permutations(list(range(n))))
    enc = draw(st.sampled_from(["legacy", "task", "depmap"]))
    if enc == "depmap":
        start = None
    else:
        start = draw(
            st.one_of(
                st.none(),
                st.integers(0, n - 1),
                st.lists(st.integers(0, n - 1), min_size=1, max_size=n, unique=True),
            )
        )
    kt = draw(st.sampled_from(["str", "int"]))
    return {"n": n, "edges": edges, "enc": enc, "start": start, "order": list(order), "keytype": kt}


SUBCHECKS = [
    Sub(
        "enum",
        check,
        kind="enum",
        cases=enum_cases,
        nontrivial=nontrivial,
        classes=classes,
        exhaustive=True,
        doc="all labelled digraphs with self-loops, n<=3 quick / n<=4 thorough, x start subsets x encodings",
    ),
    Sub(
        "random",
        check,
        kind="hyp",
        strategy=lambda tier: random_graph(),
        n={"quick": 3000, "thorough": 100000},
        nontrivial=nontrivial,
        classes=classes,
        doc="random digraphs on 2..10 nodes, random dict insertion order",
    ),
]
