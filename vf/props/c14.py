"""C14 — compute, persist and optimize preserve structure and values."""
from __future__ import annotations

import collections
import dataclasses

import numpy as np
from hypothesis import strategies as st

from vf.core import Reject, Sub, Violation, ensure, impl, short

PROPERTY = "C14"
LEVEL = "exploration"
PRELOAD = ["dask.array", "dask.bag", "dask.dataframe"]
RULE = (
    "nested Python structures (depth <= 4) of lists, tuples, sets, dicts (collections as values and, for hashable results, "
    "as keys), OrderedDicts, plain and frozen dataclasses, namedtuples and iterators whose leaves are drawn from a pool of "
    "collections (Delayed, small dask Array, Bag, bag Item, dask Series / DataFrame / dataframe Scalar; the same collection "
    "may occur several times) and non-collection leaves (ints, strings, None, arbitrary objects); dask.compute with traverse "
    "on/off, scheduler in {sync, threads, a ThreadPoolExecutor, processes (serial sub-check)}, optimize_graph on/off; "
    "dask.persist and dask.optimize on the same structures. Oracle: the harness's own recursive map replacing every "
    "collection leaf by leaf.compute(scheduler='sync'): container types equal exactly, order for ordered containers, values "
    "by array_equal / pandas equals; non-collection leaves identical; iterators come back as lists; with traverse=False "
    "only top-level collections are replaced. persist/optimize: same container structure, leaves of the same type with the "
    "same metadata (shape/chunks/dtype, npartitions/divisions/columns, key type) that compute to the same values. "
    "Non-trivial: >= 2 container kinds nested, >= 2 collection kinds, and a collection occurring twice."
)
ASSUMPTIONS = ["dataclasses have all fields init=True (unpack_collections rebuilds them positionally)", "leaf.compute(scheduler='sync') defines the value of a leaf"]
TECHNIQUE = "Hypothesis-generated nested structures over a pool of collections; differential against a recursive reference map; metamorphic (scheduler / optimize_graph / persist / optimize do not change values)"


@dataclasses.dataclass
class DC:
    a: object
    b: object


@dataclasses.dataclass(frozen=True)
class FDC:
    a: object
    b: object


NT = collections.namedtuple("NT", ["p", "q"])


class Opaque:
    def __init__(self, v):
        self.v = v

    def __eq__(self, o):
        return isinstance(o, Opaque) and o.v == self.v

    def __hash__(self):
        return hash(("Opaque", self.v))

    def __repr__(self):
        return f"Opaque({self.v})"


def _inc(x):
    return x + 1


def make_collection(cs):
    k = cs["kind"]
    if k == "delayed":
        from dask import delayed

        return delayed(_inc)(cs["v"])
    if k == "array":
        import dask.array as da

        x = np.arange(cs["n"] * 2, dtype=cs.get("dtype", "i8")).reshape(cs["n"], 2) + cs["v"]
        return da.from_array(x, chunks=(max(1, cs["n"] // 2), 1)) * 2
    if k == "bag":
        import dask.bag as db

        return db.from_sequence(list(range(cs["v"], cs["v"] + cs["n"])), npartitions=2).map(_inc)
    if k == "item":
        import dask.bag as db

        return db.from_sequence(list(range(cs["v"], cs["v"] + cs["n"])), npartitions=2).sum()
    import dask.dataframe as dd
    import pandas as pd

    pdf = pd.DataFrame({"a": np.arange(cs["n"]) + cs["v"], "b": np.arange(cs["n"]) * 0.5})
    ddf = dd.from_pandas(pdf, npartitions=2)
    if k == "ddf":
        return ddf[ddf.a >= cs["v"]]
    if k == "dser":
        return ddf.a + 1
    if k == "dscalar":
        return ddf.a.sum()
    raise ValueError(k)


def build(s, pool, top=True):
    """spec -> live structure"""
    if "leaf" in s:
        return pool[s["leaf"]]
    if "val" in s:
        return s["val"]
    if "opaque" in s:
        return Opaque(s["opaque"])
    if "list" in s:
        return [build(x, pool, False) for x in s["list"]]
    if "tuple" in s:
        return tuple(build(x, pool, False) for x in s["tuple"])
    if "iter" in s:
        return iter([build(x, pool, False) for x in s["iter"]])
    if "set" in s:
        return {build(x, pool, False) for x in s["set"]}
    if "dict" in s or "odict" in s:
        items = s.get("dict") or s.get("odict") or []
        typ = dict if "dict" in s else collections.OrderedDict
        return typ((build(k, pool, False), build(v, pool, False)) for k, v in items)
    if "dc" in s:
        return DC(build(s["dc"][0], pool, False), build(s["dc"][1], pool, False))
    if "fdc" in s:
        return FDC(build(s["fdc"][0], pool, False), build(s["fdc"][1], pool, False))
    if "nt" in s:
        return NT(build(s["nt"][0], pool, False), build(s["nt"][1], pool, False))
    raise ValueError(s)


def expected(s, pool_vals, traverse=True, top=True):
    """reference: the structure with every collection leaf replaced by its value"""
    if "leaf" in s:
        return pool_vals[s["leaf"]]
    if "val" in s:
        return s["val"]
    if "opaque" in s:
        return Opaque(s["opaque"])
    if "list" in s:
        return [expected(x, pool_vals) for x in s["list"]]
    if "iter" in s:
        return [expected(x, pool_vals) for x in s["iter"]]
    if "tuple" in s:
        return tuple(expected(x, pool_vals) for x in s["tuple"])
    if "set" in s:
        return {expected(x, pool_vals) for x in s["set"]}
    if "dict" in s or "odict" in s:
        items = s.get("dict") or s.get("odict") or []
        typ = dict if "dict" in s else collections.OrderedDict
        return typ((expected(k, pool_vals), expected(v, pool_vals)) for k, v in items)
    if "dc" in s:
        return DC(expected(s["dc"][0], pool_vals), expected(s["dc"][1], pool_vals))
    if "fdc" in s:
        return FDC(expected(s["fdc"][0], pool_vals), expected(s["fdc"][1], pool_vals))
    if "nt" in s:
        return NT(expected(s["nt"][0], pool_vals), expected(s["nt"][1], pool_vals))
    raise ValueError(s)


def _holds_collection(x, depth=0):
    from dask.base import is_dask_collection

    if is_dask_collection(x):
        return True
    if depth > 6:
        return False
    if isinstance(x, dict):
        return any(_holds_collection(k, depth + 1) or _holds_collection(v, depth + 1) for k, v in x.items())
    if isinstance(x, (list, tuple, set, frozenset)):
        return any(_holds_collection(v, depth + 1) for v in x)
    if dataclasses.is_dataclass(x) and not isinstance(x, type):
        return any(_holds_collection(getattr(x, f.name, None), depth + 1) for f in dataclasses.fields(x))
    return False


def equal(a, b):
    import pandas as pd

    # a lazy collection left inside a computed result (or an expectation) never equals a concrete value
    # (and must not be compared: Delayed refuses ==/bool)
    if _holds_collection(a) != _holds_collection(b):
        return False
    if type(a) is not type(b):
        if isinstance(a, (np.generic, int, float)) and isinstance(b, (np.generic, int, float)):
            return np.asarray(a).dtype.kind == np.asarray(b).dtype.kind and a == b
        return False
    if isinstance(a, np.ndarray):
        return a.dtype == b.dtype and a.shape == b.shape and np.array_equal(a, b)
    if isinstance(a, (pd.DataFrame, pd.Series)):
        return a.equals(b) and (list(a.dtypes) == list(b.dtypes) if isinstance(a, pd.DataFrame) else a.dtype == b.dtype)
    if isinstance(a, (list, tuple)):
        return len(a) == len(b) and all(equal(x, y) for x, y in zip(a, b))
    if isinstance(a, collections.OrderedDict):
        return list(a.keys()) == list(b.keys()) and all(equal(a[k], b[k]) for k in a)
    if isinstance(a, dict):
        return a.keys() == b.keys() and all(equal(a[k], b[k]) for k in a)
    if isinstance(a, (set, frozenset)):
        return a == b
    if dataclasses.is_dataclass(a):
        return all(equal(getattr(a, f.name), getattr(b, f.name)) for f in dataclasses.fields(a))
    return a == b


def has_iter(s):
    if "iter" in s:
        return True
    for k in ("list", "tuple", "set", "dc", "fdc", "nt"):
        if k in s and any(has_iter(x) for x in s[k]):
            return True
    for k in ("dict", "odict"):
        if k in s and any(has_iter(kk) or has_iter(v) for kk, v in s[k]):
            return True
    return False


_executor = []


def get_kwargs(case):
    sched = case["scheduler"]
    kw = {"optimize_graph": case.get("optimize_graph", True)}
    if sched == "executor":
        import concurrent.futures as cf

        if not _executor:
            _executor.append(cf.ThreadPoolExecutor(3))
        kw["scheduler"] = _executor[0]
    elif sched == "processes":
        from vf.schedengine import process_pool

        kw["scheduler"] = "processes"
        kw["pool"] = process_pool(2)
    else:
        kw["scheduler"] = sched
    return kw


def check(case):
    import dask
    from dask.base import is_dask_collection

    ls = []
    for s_ in case["args"]:
        leaves_in(s_, ls)
    if not ls:
        raise Reject("no collection anywhere in the arguments (compute returns them untouched)")
    sig = dict(
        api=case["api"],
        scheduler=case["scheduler"],
        traverse=case.get("traverse", True),
        df_leaf=any(case["pool"][i]["kind"] in ("ddf", "dser", "dscalar") for i in ls),
    )
    with impl("build collections", **sig):
        pool = [make_collection(cs) for cs in case["pool"]]
        vals = [c.compute(scheduler="sync") for c in pool]
    args = [build(s, pool) for s in case["args"]]
    kw = get_kwargs(case)
    traverse = case.get("traverse", True)
    if case["api"] == "compute":
        with impl("dask.compute", **sig):
            out = dask.compute(*args, traverse=traverse, **kw)
        ensure(isinstance(out, tuple) and len(out) == len(args), f"compute returned {type(out).__name__} of length {len(out)}", "result-arity", **sig)
        for i, s in enumerate(case["args"]):
            if traverse:
                want = expected(s, vals)
            else:
                want = vals[s["leaf"]] if "leaf" in s else None
                if want is None:
                    # nested collections are left alone when traverse=False: same object back
                    if not has_iter(s):
                        ensure(_same_untraversed(out[i], build(s, pool)), f"traverse=False changed non-collection argument {i}: {short(out[i])}", "untraversed-changed", **sig)
                    continue
            ensure(equal(out[i], want), f"argument {i}: compute gave {short(out[i], 400)}, expected {short(want, 400)}", "compute-structure-or-value", **sig)
        return
    # persist / optimize
    fn = dask.persist if case["api"] == "persist" else dask.optimize
    with impl("dask." + case["api"], **sig):
        if case["api"] == "persist":
            out = fn(*args, traverse=traverse, **kw)
        else:
            out = fn(*args, traverse=traverse)
    ensure(isinstance(out, tuple) and len(out) == len(args), f"{case['api']} returned {type(out).__name__} of length {len(out)}", "result-arity", **sig)
    if not traverse:
        return
    # same structure with collections in place of collections, same metadata, same values
    with impl("compute result of " + case["api"], **sig):
        recomputed = dask.compute(*out, scheduler="sync")
    for i, s in enumerate(case["args"]):
        want = expected(s, vals)
        ensure(equal(recomputed[i], want), f"argument {i}: {case['api']} then compute gave {short(recomputed[i], 300)}, expected {short(want, 300)}", "persist-optimize-value", **sig)
        _meta_same(out[i], build(s, pool), case["api"], sig)


def _same_untraversed(a, b):
    from dask.base import is_dask_collection

    if is_dask_collection(a) or is_dask_collection(b):
        return is_dask_collection(a) and is_dask_collection(b) and type(a) is type(b)
    if type(a) is not type(b):
        return False
    if isinstance(a, (list, tuple)):
        return len(a) == len(b) and all(_same_untraversed(x, y) for x, y in zip(a, b))
    if isinstance(a, dict):
        return len(a) == len(b)
    if isinstance(a, (set, frozenset)):
        return len(a) == len(b)
    if dataclasses.is_dataclass(a):
        return all(_same_untraversed(getattr(a, f.name), getattr(b, f.name)) for f in dataclasses.fields(a))
    return a == b


def _meta_same(new, old, api, sig):
    from dask.base import is_dask_collection

    if is_dask_collection(old):
        ensure(is_dask_collection(new) and type(new) is type(old), f"{api}: collection of type {type(old).__name__} became {type(new).__name__}", "collection-type", **sig)
        tn = type(old).__name__
        attrs = {"Array": ("shape", "chunks", "dtype"), "Bag": ("npartitions",), "DataFrame": ("npartitions", "divisions"), "Series": ("npartitions", "divisions", "dtype")}.get(tn, ())
        for attr in attrs:
            a, b = getattr(old, attr), getattr(new, attr)
            ensure(str(a) == str(b), f"{api}: {attr} changed from {a} to {b}", "metadata-changed", attr=attr, **sig)
        if tn == "DataFrame":
            ensure(list(old.columns) == list(new.columns), f"{api}: columns changed", "metadata-changed", attr="columns", **sig)
        if tn == "Delayed":
            ensure(type(new.key) is type(old.key), f"{api}: key type changed", "metadata-changed", attr="key", **sig)
        return
    if type(new) is not type(old) and not (isinstance(new, list) and not isinstance(old, (list, tuple, dict, set))):
        raise Violation(f"{api}: container {type(old).__name__} became {type(new).__name__}", "container-type", **sig)
    if isinstance(old, (list, tuple)):
        for x, y in zip(new, old):
            _meta_same(x, y, api, sig)
    elif isinstance(old, dict):
        for k in old:
            if not is_dask_collection(k) and k in new:
                _meta_same(new[k], old[k], api, sig)
    elif dataclasses.is_dataclass(old):
        for f in dataclasses.fields(old):
            _meta_same(getattr(new, f.name), getattr(old, f.name), api, sig)


# --------------------------------------------------------------------------
# strategies


@st.composite
def pool_strategy(draw, kinds):
    n = draw(st.integers(1, 4))
    out = []
    for _ in range(n):
        k = draw(st.sampled_from(kinds))
        out.append({"kind": k, "v": draw(st.integers(0, 5)), "n": draw(st.integers(2, 5))})
    return out


def struct_strategy(npool, hashable_leaves):
    leaf = st.one_of(
        st.integers(0, npool - 1).map(lambda i: {"leaf": i}),
        st.integers(0, npool - 1).map(lambda i: {"leaf": i}),
        st.one_of(st.integers(0, 9), st.sampled_from(["s", None, 1.5, True])).map(lambda v: {"val": v}),
        st.integers(0, 3).map(lambda v: {"opaque": v}),
    )
    hleaf = st.one_of(
        st.one_of(st.integers(0, 9), st.sampled_from(["s", "t"])).map(lambda v: {"val": v}),
        st.integers(0, 3).map(lambda v: {"opaque": v}),
        *([st.sampled_from(hashable_leaves).map(lambda i: {"leaf": i})] if hashable_leaves else []),
    )

    def extend(ch):
        return st.one_of(
            st.lists(ch, max_size=3).map(lambda v: {"list": v}),
            st.lists(ch, max_size=3).map(lambda v: {"tuple": v}),
            st.lists(ch, max_size=3).map(lambda v: {"iter": v}),
            st.lists(hleaf, max_size=3, unique_by=lambda x: repr(x)).map(lambda v: {"set": v}),
            st.lists(st.tuples(hleaf, ch), max_size=3, unique_by=lambda kv: repr(kv[0])).map(lambda kv: {"dict": [[k, v] for k, v in kv]}),
            st.lists(st.tuples(hleaf, ch), max_size=3, unique_by=lambda kv: repr(kv[0])).map(lambda kv: {"odict": [[k, v] for k, v in kv]}),
            st.tuples(ch, ch).map(lambda ab: {"dc": list(ab)}),
            st.tuples(ch, ch).map(lambda ab: {"fdc": list(ab)}),
            st.tuples(ch, ch).map(lambda ab: {"nt": list(ab)}),
        )

    return st.recursive(leaf, extend, max_leaves=7)


@st.composite
def case_strategy(draw, schedulers=("sync", "threads", "executor"), kinds=("delayed", "delayed", "array", "bag", "item", "ddf", "dser", "dscalar")):
    pool = draw(pool_strategy(list(kinds)))
    hashable = [i for i, cs in enumerate(pool) if cs["kind"] in ("delayed", "item", "dscalar")]
    # distinct hashable results are needed for dict keys / set members: keep only leaves with distinct v
    seen = set()
    hl = []
    for i in hashable:
        key = (pool[i]["kind"], pool[i]["v"], pool[i]["n"])
        if key not in seen:
            seen.add(key)
            hl.append(i)
    args = draw(st.lists(struct_strategy(len(pool), hl[:1]), min_size=1, max_size=3))
    ls = []
    for a in args:
        leaves_in(a, ls)
    if not ls:
        args[0] = {"list": [args[0], {"leaf": 0}]}
    api = draw(st.sampled_from(["compute", "compute", "compute", "persist", "optimize"]))
    return {
        "pool": pool,
        "args": args,
        "api": api,
        "scheduler": draw(st.sampled_from(list(schedulers))),
        "optimize_graph": draw(st.booleans()),
        "traverse": draw(st.sampled_from([True, True, True, False])),
    }


def kinds_in(s, acc):
    for k in ("list", "tuple", "set", "iter", "dc", "fdc", "nt"):
        if k in s:
            acc.add(k)
            for x in s[k]:
                kinds_in(x, acc)
    for k in ("dict", "odict"):
        if k in s:
            acc.add(k)
            for kk, v in s[k]:
                kinds_in(kk, acc)
                kinds_in(v, acc)


def leaves_in(s, acc):
    if "leaf" in s:
        acc.append(s["leaf"])
    for k in ("list", "tuple", "set", "iter", "dc", "fdc", "nt"):
        for x in s.get(k) or ():
            leaves_in(x, acc)
    for k in ("dict", "odict"):
        for kk, v in s.get(k) or ():
            leaves_in(kk, acc)
            leaves_in(v, acc)


def nontrivial(case):
    ks, ls = set(), []
    for s in case["args"]:
        kinds_in(s, ks)
        leaves_in(s, ls)
    ck = {case["pool"][i]["kind"] for i in ls}
    return len(ks) >= 2 and len(ck) >= 2 and len(ls) > len(set(ls))


def classes(case):
    yield "api-" + case["api"]
    yield "sched-" + case["scheduler"]
    if not case.get("traverse", True):
        yield "traverse-off"
    ks = set()
    for s in case["args"]:
        kinds_in(s, ks)
    for k in sorted(ks):
        yield "has-" + k


SUBCHECKS = [
    Sub("structures", check, strategy=lambda tier: case_strategy(), n={"quick": 700, "thorough": 20000}, nontrivial=nontrivial, classes=classes, doc="nested structures over a pool of collections; compute/persist/optimize; sync/threads/executor"),
    Sub(
        "processes",
        check,
        strategy=lambda tier: case_strategy(schedulers=("processes",), kinds=("delayed", "array", "bag", "item")),
        n={"quick": 12, "thorough": 200},
        nontrivial=nontrivial,
        classes=classes,
        serial=True,
        doc="the same on the multiprocessing scheduler (harness-owned spawn pool)",
    ),
]


def TEARDOWN():
    from vf.schedengine import shutdown_pools

    shutdown_pools()
    for e in _executor:
        e.shutdown(wait=False)
