"""C08 — task-spec conversion and execution preserve the graph's meaning."""
from __future__ import annotations

import pickle

from hypothesis import strategies as st

from vf.core import Sub, Violation, ensure, impl, short
from vf.gen import dags
from vf.graphs import Build, RefEval, ext_key, node_key

PROPERTY = "C08"
LEVEL = "exploration"
RULE = (
    "enum: every DAG on n<=4 (quick) / n<=5 (thorough) nodes (task/data/alias/non-task list) in legacy and task-spec "
    "encoding; hyp: rich graphs to 8 nodes whose node bodies nest calls, lists, the (dict, [[k, v]]) idiom, quoted values, "
    "key-like literals that equal no key, namedtuple instances, raw dict arguments, str/tuple/int keys (legacy), and "
    "List/Tuple/Set/Dict containers, kwargs and aliases (task objects). Oracle (reference evaluator on the spec): "
    "dask.core.get of every key == reference value; after convert_legacy_graph each node called on the reference values of "
    "its dependencies == reference value; node.dependencies == exactly the keys the spec references; pickle and cloudpickle "
    "round trips of every converted node keep key, dependencies and the computed value. Non-trivial: a node nests >=3 levels "
    "mixing >=2 container kinds, or references a tuple key inside a container."
)
ASSUMPTIONS = [
    "legacy semantics as in docs/source/spec.rst and DESIGN 8.1: callable-headed tuples are calls, lists and the dict idiom "
    "are evaluated elementwise, hashable values equal to a key are references; in the RICH generator non-call tuples holding "
    "references appear only as explicit Tuple containers; legacy plain tuples with references are covered by the plain-tuples "
    "sub-check with oracles that do not depend on the grey zone (no graph-node object in a value, position independence) plus "
    "the converter's own elementwise rule",
]
TECHNIQUE = "differential testing against an independent reference evaluator; round-trip (pickle) checks; Hypothesis-generated nested graph specs + exhaustive small DAGs"


def depth_kinds(e, d=0):
    kinds = set()
    md = d
    for k in ("list", "tuple", "set", "args", "nt"):
        if k in e:
            kinds.add(k if k != "args" else "call")
            for x in e[k]:
                dd, kk = depth_kinds(x, d + 1)
                md = max(md, dd)
                kinds |= kk
    for k in ("dict", "rawdict", "rawdict_ts"):
        if k in e:
            kinds.add(k)
            for _, v in e[k]:
                dd, kk = depth_kinds(v, d + 1)
                md = max(md, dd)
                kinds |= kk
    for v in (e.get("kwargs") or {}).values():
        kinds.add("kwargs")
        dd, kk = depth_kinds(v, d + 1)
        md = max(md, dd)
        kinds |= kk
    return md, kinds


def nontrivial(case):
    g = case["graph"]
    for i, n in enumerate(g["nodes"]):
        d, kinds = depth_kinds(n["body"])
        if d >= 3 and len(kinds) >= 2:
            return True
        if d >= 2 and any(isinstance(g["nodes"][j]["k"], list) for j in RefEval(g).refs(i)):
            return True
    return False


def classes(case):
    g = case["graph"]
    yield "style-" + g.get("style", "legacy")
    kinds = set()
    for n in g["nodes"]:
        kinds |= depth_kinds(n["body"])[1]
    for k in sorted(kinds):
        yield "has-" + k


def check(case):
    import cloudpickle
    import dask.core as core
    from dask._task_spec import DataNode, GraphNode, convert_legacy_graph

    g = case["graph"]
    ref = RefEval(g)
    b = Build(g)
    dsk = b.graph()
    n = len(g["nodes"])
    style = g.get("style", "legacy")
    sig = dict(style=style)
    ext = b.external_cache()
    keys = [node_key(g, i) for i in range(n)]
    # 1. whole-graph execution
    with impl("dask.core.get", **sig):
        got = core.get(dsk, list(keys), cache=dict(ext) if ext else None)
    for i in range(n):
        ensure(_same(got[i], ref.node(i)), f"core.get: key {keys[i]!r} = {short(got[i])}, reference {short(ref.node(i))}", "get-wrong-value", **sig)
    # 2. conversion, stepwise execution, dependencies
    with impl("convert_legacy_graph", **sig):
        conv = convert_legacy_graph(dsk, all_keys=set(dsk) | set(ext))
    values = {keys[i]: ref.node(i) for i in range(n)}
    values.update(ext)
    for i in range(n):
        k = keys[i]
        want_deps = {keys[j] for j in ref.refs(i)} | ref.ext_refs(i)
        if k not in conv:
            # convert_legacy_graph drops self-aliases only
            raise Violation(f"key {k!r} missing from converted graph", "converted-key-missing", **sig)
        node = conv[k]
        ensure(isinstance(node, GraphNode), f"converted value for {k!r} is {type(node).__name__}", "not-a-graphnode", **sig)
        ensure(node.key == k, f"converted node for {k!r} has key {node.key!r}", "node-key", **sig)
        ensure(set(node.dependencies) == want_deps, f"node {k!r}: dependencies {set(node.dependencies)} != referenced keys {want_deps}", "dependencies-mismatch", **sig)
        with impl("node(values)", **sig):
            v = node({d: values[d] for d in node.dependencies})
        ensure(_same(v, ref.node(i)), f"node {k!r}(values) = {short(v)}, reference {short(ref.node(i))}", "node-wrong-value", **sig)
        # 3. pickle round trips
        for name, dumps, loads in (("pickle", pickle.dumps, pickle.loads), ("cloudpickle", cloudpickle.dumps, cloudpickle.loads)):
            with impl(name + " round trip", **sig):
                node2 = loads(dumps(node))
            ensure(node2.key == k, f"{name}: key {node2.key!r} != {k!r}", "pickle-key", **sig)
            ensure(set(node2.dependencies) == want_deps, f"{name}: dependencies {set(node2.dependencies)} != {want_deps}", "pickle-dependencies", **sig)
            with impl(name + " node(values)", **sig):
                v2 = node2({d: values[d] for d in node2.dependencies})
            ensure(_same(v2, ref.node(i)), f"{name}: unpickled node {k!r} computes {short(v2)}, reference {short(ref.node(i))}", "pickle-wrong-value", **sig)
            if isinstance(node, DataNode):
                ensure(isinstance(node2, DataNode), f"{name}: DataNode became {type(node2).__name__}", "pickle-type", **sig)


def _same(a, b):
    if type(a) is not type(b):
        return False
    if isinstance(a, (list, tuple)):
        return len(a) == len(b) and all(_same(x, y) for x, y in zip(a, b))
    if isinstance(a, dict):
        return a.keys() == b.keys() and all(_same(a[k], b[k]) for k in a)
    return a == b


def enum_cases(tier):
    nmax = 4 if tier == "quick" else 5
    for n in range(1, nmax + 1):
        for gi, shape in enumerate(dags.all_dags(n)):
            for style in ("legacy", "taskspec"):
                yield {"graph": dags.dag_spec(shape, style, ["str", "tuple", "mixed", "int", "float"][gi % 5])}


@st.composite
def random_case(draw):
    g = draw(dags.rich_graph(min_nodes=1, max_nodes=8, with_external=True, extras=True))
    return {"graph": g}


# ---- plain (non-call) tuples inside legacy task arguments ---------------------------------------------------------
# The rich generator keeps references out of legacy non-call tuples (DESIGN 8.1: the legacy dependency finder and the
# converter disagree about them).  What the *converter* does with them is nevertheless part of "converting and executing":
# it rebuilds a tuple elementwise whenever it contains a reference or a nested call, wherever in the tuple that is.  Checked
# here against two oracles that do not depend on the grey zone: no graph-node object may leak into a computed value, and
# the value must not depend on WHERE in the tuple the reference stands (every rotation of the tuple gives the rotated value).

PT_ATOMS = ["5", "'x'", "ref-a", "ref-b", "call", "list", "tup"]


def _pt_inc(x):
    return x + 1


def _pt_ident(*args):
    return args


def _pt_build(codes):
    atoms = {"5": 5, "'x'": "x", "ref-a": "a", "ref-b": ("b", 0), "call": (_pt_inc, "a"), "list": ["a", 7], "tup": (6, "a")}
    vals = {"5": 5, "'x'": "x", "ref-a": 1, "ref-b": 2, "call": 2, "list": [1, 7], "tup": (6, 1)}
    return tuple(atoms[c] for c in codes), tuple(vals[c] for c in codes)


def _has_node(v):
    from dask._task_spec import GraphNode

    if isinstance(v, GraphNode):
        return True
    if isinstance(v, (list, tuple, set)):
        return any(_has_node(x) for x in v)
    if isinstance(v, dict):
        return any(_has_node(x) for x in v.values()) or any(_has_node(x) for x in v)
    return False


def check_plain_tuple(case):
    import dask
    from dask._task_spec import convert_legacy_graph

    codes = case["codes"]
    has_ref = any(c not in ("5", "'x'") for c in codes)
    results = []
    for r in range(len(codes)):
        rot = codes[r:] + codes[:r]
        arg, want = _pt_build(rot)
        dsk = {"a": 1, ("b", 0): (_pt_inc, "a"), "c": (_pt_ident, arg, 9)}
        sig = dict(legacy_plain_tuple=True, length=len(codes))
        with impl("convert_legacy_graph + get", **sig):
            conv = convert_legacy_graph(dsk)
            got = dask.get(dsk, "c")
        ensure(not _has_node(got), f"legacy task (f, {arg!r}, 9): a graph-node object leaked into the computed value {short(got)}", "graph-node-in-value", **sig)
        deps = set(conv["c"].dependencies)
        need = ({"a"} if any(c in ("ref-a", "call", "list", "tup") for c in rot) else set()) | ({("b", 0)} if "ref-b" in rot else set())
        ensure(deps == need, f"legacy task (f, {arg!r}, 9): converted node reports dependencies {sorted(map(str, deps))}, the argument references {sorted(map(str, need))}", "dependencies-mismatch", **sig)
        results.append((rot, arg, got, want))
    # rotation invariance: got[0] (the tuple argument as the function saw it) rotated back must not depend on r
    base = results[0][2][0]
    for r, (rot, arg, got, want) in enumerate(results):
        t = got[0]
        back = tuple(t[len(codes) - r :]) + tuple(t[: len(codes) - r]) if r else tuple(t)
        ensure(tuple(back) == tuple(base), f"legacy task (f, {arg!r}, 9) passes {short(t)} to f; the same tuple rotated by {r} passes {short(results[0][2][0])}: the value depends on where the reference stands", "tuple-position-dependent", **dict(sig))
        if has_ref:
            ensure(tuple(t) == tuple(want), f"legacy task (f, {arg!r}, 9) passes {short(t)} to f, elementwise evaluation gives {short(want)}", "plain-tuple-value", **sig)


def plain_tuple_cases(tier):
    import itertools

    for n in range(1, 5 if tier == "quick" else 6):
        for codes in itertools.product(PT_ATOMS, repeat=n):
            # rotations are checked inside one case: enumerate one representative per rotation class
            if list(codes) == min(list(codes[r:] + codes[:r]) for r in range(n)):
                yield {"codes": list(codes)}


SUBCHECKS = [
    Sub("enum", check, kind="enum", cases=enum_cases, nontrivial=lambda c: len(c["graph"]["nodes"]) >= 3, classes=classes, exhaustive=True, doc="all small DAGs in both encodings"),
    Sub("plain-tuples", check_plain_tuple, kind="enum", cases=plain_tuple_cases, nontrivial=lambda c: len(c["codes"]) >= 3 and any(x not in ("5", "'x'") for x in c["codes"][2:]),
        classes=lambda c: [f"len-{len(c['codes'])}"] + sorted(set(c["codes"])), exhaustive=True,
        doc="legacy task arguments that are plain tuples of length 1-4 (thorough 5) over {literal int, non-key string, key, tuple key, nested call, nested list, nested tuple}, every rotation: no graph-node leak, dependencies, position independence, elementwise value"),
    Sub(
        "random",
        check,
        strategy=lambda tier: random_case(),
        n={"quick": 2000, "thorough": 80000},
        nontrivial=nontrivial,
        classes=classes,
        doc="rich nested graph specs (legacy and task objects), external keys via cache",
    ),
]
