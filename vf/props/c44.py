"""C44 — repartitioning preserves rows, order and the requested layout.

Anchors: dask/dataframe/dask_expr/_repartition.py (Repartition, RepartitionToFewer/ToMore,
RepartitionDivisions, RepartitionFreq, RepartitionSize) and FromPandas.
"""
from __future__ import annotations

import pandas as pd
from hypothesis import strategies as st

from vf import frames as F
from vf.core import Reject, Sub, count, ensure, impl, short
from vf.props import _dfcommon2 as C

PROPERTY = "C44"
PRELOAD = ["dask.dataframe"]
LEVEL = "exploration"
RULE = (
    "hyp: frames (1-30 rows, int/float/str/key columns) with a sorted index (range, unique ints, ints with duplicate "
    "runs, datetimes with duplicates, strings), source partitionings from from_pandas(npartitions|chunksize), positional "
    "cuts (unknown or known divisions, empty pieces) and value based splits with KNOWN divisions that contain EMPTY "
    "partitions and divisions beyond the data range; targets: repartition(npartitions=1..8) above and below the current "
    "count, repartition(divisions=d, force) with d cut at existing (possibly duplicated) index values, inside/beyond the "
    "old division range, optional single-valued last partition, repartition(partition_size), repartition(freq) on "
    "datetime indexes; separately from_pandas(npartitions|chunksize, sort) on sorted and unsorted indexes. "
    "Non-trivial: the index has runs of duplicates (or the source has an empty partition) and both source and target have "
    ">= 2 partitions, so target cuts fall inside runs / empty pieces are merged."
)
ASSUMPTIONS = [
    "pandas frame built from the spec is the reference for rows and their order",
    "repartition(npartitions=n): dask documents n as an upper bound that 'may be slightly lower depending on data "
    "distribution, but will never be higher' when divisions are interpolated; the count is demanded exactly only on the "
    "paths that do not interpolate known numeric/datetime divisions (fewer partitions, unknown/str divisions)",
    "from_pandas(sort=True) on an unsorted index sorts with pandas' default (unstable) sort: order within equal index "
    "values is free there",
]
TECHNIQUE = "differential testing against the unpartitioned pandas frame with Hypothesis-generated partitionings and targets"


def _legit_raise(op, old, new):
    """repartition(divisions=) documents: without force the outer divisions must be identical, with force they may
    only expand."""
    if op.get("force"):
        return old[0] < new[0] or old[-1] > new[-1]
    return old[0] != new[0] or old[-1] != new[-1]


def target_divisions(op, src, pdf):
    old = src.divisions
    inner = C.division_vector(pdf.index, op.get("pos", []))[1:-1]
    first = C.shift_value(C.plain(old[0]), -op.get("lo", 0))
    last = C.shift_value(C.plain(old[-1]), op.get("hi", 0))
    if not first < last:
        if first == last:
            return [first, last]
        raise Reject("degenerate target range")
    d = [first] + [v for v in inner if first < v < last] + [last]
    if op.get("single_last") and d[-2] != d[-1]:
        d.append(last)
    return d


def check_repartition(spec):
    op = spec["op"]
    kind = op["op"]
    with C.quiet():
        pdf = F.build_pdf(spec)
        src = C.build_ddf(spec, pdf)
    sig = dict(op=kind)
    if kind == "npartitions":
        n = op["n"]
        with impl("repartition(npartitions)", **sig), C.quiet():
            out = src.repartition(npartitions=n)
            got = F.compute(out)
            actual = len(out.optimize().__dask_keys__())
        ensure(actual <= n and out.npartitions <= n, f"repartition(npartitions={n}) gave {actual} partitions (declared {out.npartitions})", "too-many-partitions", **sig)
        interpolates = n > src.npartitions and src.known_divisions and not isinstance(src.divisions[0], str)
        if not interpolates:
            ensure(actual == n, f"repartition(npartitions={n}) from {src.npartitions} partitions (divisions {short(src.divisions)}) gave {actual}", "npartitions-not-met", **sig)
            ensure(out.npartitions == n, f"declared npartitions {out.npartitions} != {n}", "npartitions-not-met", **sig)
        elif actual < n:
            count("interpolated-fewer-than-requested")
    elif kind == "divisions":
        if not src.known_divisions:
            raise Reject("repartition(divisions=) needs known divisions")
        d = target_divisions(op, src, pdf)
        try:
            with C.quiet():
                out = src.repartition(divisions=d, force=bool(op.get("force")))
                got = F.compute(out)
        except Exception as e:  # noqa: BLE001
            if _legit_raise(op, src.divisions, d) and isinstance(e, ValueError):
                count("raised-as-documented")
                return
            with impl("repartition(divisions)", force=bool(op.get("force")), **sig):
                raise
        ensure(tuple(out.divisions) == tuple(d), f"divisions {short(out.divisions)} != requested {short(d)}", "divisions-differ", **sig)
        ensure(out.npartitions == len(d) - 1, f"npartitions {out.npartitions} for {len(d)} divisions", "divisions-differ", **sig)
        sig["force"] = bool(op.get("force"))
    elif kind == "partition_size":
        size = op["size"]
        if op.get("rel") is not None:
            # relative to the memory of the LARGEST source partition: with uneven partitions some have to be split
            # while others are kept whole or merged
            with C.quiet():
                mems = [int(src.partitions[i].compute(scheduler="sync").memory_usage(deep=True).sum()) for i in range(src.npartitions)]
            size = max(1, int(max(mems) * op["rel"]))
            sig["uneven"] = max(mems) > 2 * max(1, min(mems))
        with impl("repartition(partition_size)", **sig), C.quiet():
            out = src.repartition(partition_size=size)
            got = F.compute(out)
    elif kind == "freq":
        if not (src.known_divisions and isinstance(src.divisions[0], pd.Timestamp)):
            raise Reject("freq needs a datetime index with known divisions")
        with impl("repartition(freq)", **sig), C.quiet():
            out = src.repartition(freq=op["freq"])
            got = F.compute(out)
            divs = tuple(out.divisions)
        ensure(divs[0] == src.divisions[0] and divs[-1] == src.divisions[-1], f"freq divisions {short(divs)} do not span {short(src.divisions)}", "divisions-differ", **sig)
    else:
        raise ValueError(kind)
    F.assert_eq(got, pdf, what=f"repartition({short(op, 120)}) of {short(src.divisions, 120)}", sig=sig)
    # the same source repartitioned a second time with another target, both results in ONE graph: each keeps its rows
    sib = None
    if kind == "partition_size" and isinstance(size, int):
        sibs = [max(1, size // 2), max(1, size // 3)]
    elif kind == "npartitions":
        sibs = [n + 1, max(1, n - 1)]
    else:
        sibs = []
    for other in sibs:
        with impl(f"repartition({kind}) twice in one graph", together=True, **sig), C.quiet():
            import dask

            sib = src.repartition(**{kind: other})
            g1, g2 = dask.compute(out, sib, scheduler="sync")
        F.assert_eq(g1, pdf, what=f"repartition({kind}={short(op, 80)}) computed together with repartition({kind}={other})", sig=dict(sig, together=True))
        F.assert_eq(g2, pdf, what=f"repartition({kind}={other}) computed together with repartition({short(op, 80)})", sig=dict(sig, together=True))


def check_from_pandas(spec):
    import dask.dataframe as dd

    op = spec["op"]
    with C.quiet():
        pdf = F.build_pdf(spec)
    sig = dict(op="from_pandas", mode=op["mode"])
    with impl("from_pandas", **sig), C.quiet():
        ddf = dd.from_pandas(pdf, sort=op["sort"], **{op["mode"]: op["n"]})
        got = F.compute(ddf)
    if op["mode"] == "npartitions":
        ensure(ddf.npartitions <= op["n"], f"from_pandas(npartitions={op['n']}) gave {ddf.npartitions}", "too-many-partitions", **sig)
    if op["sort"] and not pdf.index.is_monotonic_increasing:
        ensure(got.index.is_monotonic_increasing, "from_pandas(sort=True) result not sorted by index", "not-sorted", **sig)
        F.assert_eq(got, pdf, what="from_pandas(sort=True) rows", check_order=False, sig=sig)
    else:
        F.assert_eq(got, pdf, what="from_pandas rows/order", sig=sig)


def _src_nparts(spec):
    p = spec["partition"]
    if p["how"] == "bydivs":
        return len(set(p["pos"])) + 1
    if p["how"] == "cuts":
        return len(p["cuts"]) + 1
    if p["how"] == "npartitions":
        return min(p["n"], spec["nrows"])
    return -(-spec["nrows"] // max(p["n"], 1))


def nontrivial(spec):
    dup_index = spec["index"]["kind"] in ("sorted_dups", "datetime", "str")
    p = spec["partition"]
    empty_src = p["how"] == "bydivs" and (p["lo"] or p["hi"]) or p["how"] == "cuts" and len(set(p["cuts"])) < len(p["cuts"])
    op = spec["op"]
    tgt = op.get("n", 2) if op["op"] == "npartitions" else len(set(op.get("pos", [0]))) + 1
    return bool(dup_index or empty_src) and _src_nparts(spec) >= 2 and tgt >= 2 and spec["nrows"] >= 4


def classes(spec):
    op = spec["op"]
    yield "op-" + op["op"]
    yield "src-" + spec["partition"]["how"]
    yield "index-" + spec["index"]["kind"]
    if op["op"] == "npartitions":
        s = _src_nparts(spec)
        yield "more" if op["n"] > s else ("fewer" if op["n"] < s else "same-count")
    if op["op"] == "divisions":
        yield "force" if op.get("force") else "no-force"
        if op.get("lo") or op.get("hi"):
            yield "beyond-range" if (op.get("lo", 0) >= 0 and op.get("hi", 0) >= 0) else "shrinks-range"


@st.composite
def repartition_case(draw):
    kind = draw(st.sampled_from(["npartitions", "npartitions", "divisions", "divisions", "divisions", "partition_size", "partition_size", "freq"]))
    index_kinds = ("datetime", "datetime_unique") if kind == "freq" else C.SORTED_INDEX
    spec = draw(C.sorted_frame_spec(min_rows=1, max_rows=30, index_kinds=index_kinds, p_bydivs=0.6 if kind in ("divisions", "freq") else 0.4))
    p = spec["partition"]
    if kind in ("divisions", "freq") and p["how"] == "cuts":
        p["divisions"] = True
    if kind == "npartitions":
        if draw(st.integers(0, 3)) == 0:
            p["clear"] = True
        op = {"op": kind, "n": draw(st.integers(1, 8))}
    elif kind == "divisions":
        force = draw(st.booleans())
        ext = [0, 0, 0, 1, 3, -1] if force else [0, 0, 0, 0, 0, 1, -1]
        op = {
            "op": kind,
            "pos": draw(st.lists(st.integers(0, max(spec["nrows"] - 1, 0)), min_size=0, max_size=6)),
            "lo": draw(st.sampled_from(ext)),
            "hi": draw(st.sampled_from(ext)),
            "single_last": draw(st.sampled_from([False, False, True])),
            "force": force,
        }
    elif kind == "partition_size":
        op = {"op": kind, "size": draw(st.sampled_from([300, 1000, 4000, "1MB"])), "rel": draw(st.sampled_from([None, 0.26, 0.4, 0.51, 0.9, 1.0, 1.7, 3.0]))}
    else:
        op = {"op": kind, "freq": draw(st.sampled_from(["2h", "6h", "1D", "45min"]))}
    spec["op"] = op
    return spec


@st.composite
def from_pandas_case(draw):
    spec = draw(F.frame_spec(min_rows=0, max_rows=30, kinds=("int", "float", "str", "key", "cat"), max_cols=3, allow_cuts=False))
    mode = draw(st.sampled_from(["npartitions", "chunksize"]))
    spec["op"] = {"op": "from_pandas", "mode": mode, "n": draw(st.integers(1, 9)), "sort": draw(st.sampled_from([True, True, False]))}
    spec.pop("partition", None)
    spec["partition"] = {"how": mode, "n": spec["op"]["n"]}
    return spec


def nt_from_pandas(spec):
    return spec["index"]["kind"] in ("sorted_dups", "datetime", "str", "unsorted") and spec["nrows"] >= 4 and _src_nparts(spec) >= 2


SUBCHECKS = [
    Sub(
        "repartition",
        check_repartition,
        strategy=lambda tier: repartition_case(),
        n={"quick": 1200, "thorough": 25000},
        nontrivial=nontrivial,
        classes=classes,
        doc="repartition(npartitions | divisions(+force) | partition_size | freq): rows, order, count, divisions",
    ),
    Sub(
        "from_pandas",
        check_from_pandas,
        strategy=lambda tier: from_pandas_case(),
        n={"quick": 600, "thorough": 12000},
        nontrivial=nt_from_pandas,
        classes=classes,
        doc="from_pandas(npartitions | chunksize, sort) keeps rows and order",
    ),
]
