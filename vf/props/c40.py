"""C40 — sorting, shuffling and de-duplication keep exactly the right rows.

Anchors: dask/dataframe/dask_expr/_shuffle.py (RearrangeByColumn, TaskShuffle, DiskShuffle,
SetIndex, SortValues), dask/dataframe/shuffle.py (partitioning_index, shuffle_group,
set_partitions_pre), DropDuplicates/Unique reductions.
"""
from __future__ import annotations

import numpy as np
import pandas as pd
from hypothesis import strategies as st

from vf import frames as F
from vf.core import Reject, Sub, Violation, count, ensure, impl, reference, short
from vf.props import _dfcommon2 as C

PROPERTY = "C40"
PRELOAD = ["dask.dataframe"]
LEVEL = "exploration"
RULE = (
    "hyp: frames of 0-40 rows whose first columns are key columns (small-range ints, float keys with NaN, strings, "
    "categoricals, nullable Int64; heavy duplicates) plus payload columns, 1-6 input partitions (from_pandas, chunksize, "
    "positional cuts with empty pieces). shuffle: on 1-2 columns or the index, npartitions_out 1-6, shuffle_method "
    "tasks|disk, max_branch=2 (multi-stage as soon as >=3 partitions in and out), ignore_index, in ~30 % followed by a selection "
    "of 1-6 output partitions (.partitions[[...]], repeats allowed; half of them forced into the last stage of a multi-stage shuffle: tasks, max_branch=2, >= 3 positions) that must hold the rows of those partitions of the full "
    "shuffle; oracle: multiset of rows "
    "preserved and every key value (NA = one key class) occurs in exactly one output partition (partitions computed "
    "individually). sort: sort_values(by 1-2 columns, ascending (list), na_position, npartitions) and set_index(col, "
    "npartitions | divisions | sorted=True on a sorted column, drop); oracle: the sequence of sort keys equals pandas' "
    "(stable sort of the whole frame) and the multiset of rows equals pandas (order within equal keys is free), judged on "
    "compute() AND on the partitions taken in order (to_delayed); in ~30-40 % of the sort cases the sorted collection is instead "
    "consumed by head(n, npartitions=-1 | default) / tail(n) / nlargest|nsmallest(n, int column): key sequence == pandas on the "
    "sorted frame, rows off the boundary key equal as a multiset, rows with the boundary key are input rows with that key "
    "(a default head/tail may return fewer rows - first/last partition only, as documented - and is then compared with the "
    "corresponding prefix/suffix). "
    "dedup: drop_duplicates(subset, keep first|last, split_out, ignore_index), Series.unique, Series/DataFrame.nunique "
    "(dropna); oracle: pandas as multisets (with a subset only the subset columns are determined; every result row must "
    "be an input row; with split_out=1, i.e. no shuffle, the kept ROWS must equal pandas' first/last occurrence). Non-trivial: >=3 input and >=3 output partitions with duplicate keys (shuffle: multi-stage), "
    "NA among the keys for at least part of the cases."
)
ASSUMPTIONS = [
    "row order inside a hash-shuffled partition, among equal sort keys and of drop_duplicates/unique output is free",
    "set_index keys contain no missing values (dask: nulls in the index are not supported)",
    "drop_duplicates(keep=False) is documented as not implemented and not exercised",
    "head(n) with the default npartitions=1 and tail(n) are documented to look at the first/last partition only: fewer than n rows are accepted there (counted as short-head-or-tail-documented) if they are the right prefix/suffix; head(n, npartitions=-1) must return min(n, len) rows",
    "which partition a key is hashed to is a deterministic function of the key and npartitions: the i-th selected partition of shuffle(...).partitions[sel] is compared with partition sel[i] of the same shuffle computed in full",
]
TECHNIQUE = "differential testing against pandas with Hypothesis-generated frames/partitionings; per-partition key-set inspection for shuffle"

KEYKINDS = ("key", "key", "keyna", "str", "cat", "Int64", "int")


def _keyrepr(v):
    return "<NA>" if F._isna(v) else repr(v.item() if isinstance(v, np.generic) else v)


def _cfg(method):
    import dask

    return dask.config.set({"dataframe.shuffle.method": method})


def _same_multiset(got, want, what, sig, with_index=True):
    g, w = C.row_multiset(got, with_index), C.row_multiset(want, with_index)
    if g != w:
        missing = {k: v - g.get(k, 0) for k, v in w.items() if v > g.get(k, 0)}
        extra = {k: v - w.get(k, 0) for k, v in g.items() if v > w.get(k, 0)}
        raise Violation(f"{what}: row multisets differ; missing {short(missing, 200)} extra {short(extra, 200)}", "rows-differ", **sig)


# --------------------------------------------------------------------------
@C.sync_scheduler
def check_shuffle(spec):
    op = spec["op"]
    with C.quiet():
        pdf = F.build_pdf(spec)
        ddf = C.build_ddf(spec, pdf)
    on = op["on"]
    sig = dict(op="shuffle", method=op["method"], on_index=on == "index")
    kw = dict(npartitions=op["npartitions"], shuffle_method=op["method"], ignore_index=op["ignore_index"])
    if op["method"] == "tasks" and op.get("max_branch"):
        kw["max_branch"] = op["max_branch"]
    with impl("shuffle", **sig), C.quiet(), _cfg(op["method"]):
        out = ddf.shuffle(on_index=True, **kw) if on == "index" else ddf.shuffle(on, **kw)
        parts = C.partitions(out)
    want_n = op["npartitions"] or ddf.npartitions
    ensure(len(parts) == want_n, f"shuffle(npartitions={op['npartitions']}) of {ddf.npartitions} partitions gave {len(parts)}", "partition-count", **sig)
    got = pd.concat(parts) if parts else pdf.iloc[:0]
    _same_multiset(got, pdf, "shuffle", sig, with_index=not op["ignore_index"])
    ensure(list(got.columns) == list(pdf.columns), f"columns changed: {list(got.columns)}", "columns-mismatch", **sig)
    if op.get("select") and parts:
        # a selection of output partitions (``.partitions[[...]]``: the shuffle layer then builds only those, a staged
        # shuffle through its ``_filter`` path) holds exactly the rows of those partitions of the full shuffle
        sel = [i % len(parts) for i in op["select"]]
        mb = kw.get("max_branch") or 32
        ssig = dict(sig, select=True, staged=min(ddf.npartitions, len(sel)) > mb)
        with impl("shuffle.partitions", **ssig), C.quiet(), _cfg(op["method"]):
            sparts = C.partitions(out.partitions[sel])
        ensure(len(sparts) == len(sel), f"shuffle(...).partitions[{sel}] has {len(sparts)} partitions", "partition-count", **ssig)
        for j, i in enumerate(sel):
            _same_multiset(sparts[j], parts[i], f"shuffle(on={on}, max_branch={kw.get('max_branch')}).partitions[{sel}] of {len(parts)}: selected partition {j} vs partition {i} of the full result", ssig, with_index=not op["ignore_index"])
    if on == "index" and op["ignore_index"]:
        return  # the keys (index values) were dropped on request: nothing left to locate
    where = {}
    for i, part in enumerate(parts):
        keys = [part.index] if on == "index" else [part[c] for c in on]
        for tup in set(zip(*[[_keyrepr(v) for v in k] for k in keys])):
            where.setdefault(tup, []).append(i)
    split = {k: v for k, v in where.items() if len(v) > 1}
    sig["na_key"] = any("<NA>" in k for k in split)
    ensure(not split, f"shuffle on {on}: rows with equal keys ended in different partitions: {short(split, 300)}", "key-split-across-partitions", **sig)


def nt_shuffle(spec):
    return _nin(spec) >= 3 and (spec["op"]["npartitions"] or _nin(spec)) >= 3 and spec["nrows"] >= 6


def _nin(spec):
    p = spec["partition"]
    if p["how"] == "cuts":
        return len(p["cuts"]) + 1
    if p["how"] == "npartitions":
        return min(p["n"], max(spec["nrows"], 1))
    return -(-spec["nrows"] // max(p["n"], 1))


def cls_common(spec):
    op = spec["op"]
    yield "op-" + op["op"]
    if "method" in op:
        yield "method-" + op["method"]
    yield f"in-{min(_nin(spec), 4)}{'+' if _nin(spec) >= 4 else ''}"
    for c in spec["columns"][:2]:
        yield "key-" + c["kind"] + ("-na" if c.get("nan") else "")
    if spec["partition"]["how"] == "cuts" and len(set(spec["partition"]["cuts"])) < len(spec["partition"]["cuts"]):
        yield "empty-input-partition"
    if op.get("then"):
        yield "then-" + op["then"]["op"]
    if op.get("select"):
        yield "select-partitions" + ("-staged" if op.get("max_branch") and op["method"] == "tasks" and len(op["select"]) > op["max_branch"] else "")


@st.composite
def keyed_frame(draw, max_rows=40, nkeys=2, keykinds=KEYKINDS, index_kinds=("range", "sorted_dups", "unsorted", "str")):
    req = []
    for i in range(nkeys):
        c = draw(F.column_spec("k%d" % i, keykinds))
        if c["kind"] in ("str", "int"):
            c["card"] = draw(st.sampled_from([2, 4, 12]))
        req.append(c)
    spec = draw(F.frame_spec(min_rows=0, max_rows=max_rows, kinds=("int", "float", "str"), min_cols=1, max_cols=2, index_kinds=index_kinds, required=req))
    if draw(st.integers(0, 9)) < 6:
        # most cases: enough rows and >= 3 input partitions (multi-stage shuffles, keys spread over partitions)
        spec["nrows"] = max(spec["nrows"], draw(st.integers(8, 24)))
        if draw(st.booleans()):
            spec["partition"] = {"how": "npartitions", "n": draw(st.integers(3, 6)), "sort": True}
        else:
            spec["partition"] = {"how": "cuts", "cuts": draw(st.lists(st.integers(0, spec["nrows"]), min_size=2, max_size=5)), "divisions": False}
    return spec


@st.composite
def shuffle_case(draw):
    spec = draw(keyed_frame())
    on = draw(st.sampled_from([["k0"], ["k0"], ["k0", "k1"], ["k1"], "index"]))
    spec["op"] = {
        "op": "shuffle",
        "on": on,
        "npartitions": draw(st.sampled_from([None, None, 1, 2, 3, 4, 6])),
        "method": draw(st.sampled_from(["tasks", "tasks", "disk"])),
        "max_branch": draw(st.sampled_from([2, 2, 3, None])),
        "ignore_index": draw(st.sampled_from([False, False, True])),
    }
    if draw(st.sampled_from(range(10))) < 3:
        # additionally select some output partitions (positions are taken modulo the number of output partitions)
        spec["op"]["select"] = draw(st.lists(st.integers(0, 5), min_size=1, max_size=6, unique=draw(st.booleans())))
        if draw(st.booleans()):
            # stratum: the selection is served by the LAST stage of a multi-stage task shuffle (as many partitions out as
            # in, more selected positions and input partitions than max_branch)
            spec["op"].update(method="tasks", max_branch=2, npartitions=None)
            spec["op"]["select"] = (spec["op"]["select"] + [3, 1, 4])[: max(3, len(spec["op"]["select"]))]
    return spec


# --------------------------------------------------------------------------
@C.sync_scheduler
def check_sort(spec):
    try:
        _check_sort(spec)
    except Violation as v:
        if v.sig.get("symptom") == "raises:NotImplementedError":
            # dask's explicit refusal ("Divisions calculation failed for non-numeric column ... nulls"): outside the
            # domain in which it promises a sorted result; a clean exception, never a wrong value
            count("refused-NotImplementedError")
            raise Reject("documented NotImplementedError") from None
        if str(v.sig.get("symptom", "")).startswith("raises:") and spec["op"]["op"] == "sort_values":
            kinds = {c["name"]: c for c in spec["columns"]}
            if any(kinds[b]["kind"] in ("str", "obj", "datetime", "cat") and kinds[b].get("nan") for b in spec["op"]["by"]):
                # nulls in a NON-numeric division column: dask documents them as not supported ("Divisions calculation
                # failed for non-numeric column ... nulls"); with pandas-3 `str` columns the same situation surfaces
                # as a ValueError from Series.quantile.  Any clean exception is accepted, a wrong value is not.
                count("refused-non-numeric-nulls")
                raise Reject("nulls in non-numeric sort key") from None
        raise


def _sort_lowering(out):
    """Label for the signature (not part of the oracle): does the lowered expression shuffle, or did dask judge the
    input 'presorted' and only sort inside each partition ('blockwise')?"""
    try:
        names = [type(n).__name__ for n in out.optimize(fuse=False).expr.walk()]
    except Exception:  # noqa: BLE001 - label only; the failure is reported by the compute that follows
        return "unknown"
    return "shuffle" if any("Shuffle" in n for n in names) else "blockwise"


def _check_then(full, out, then, keyof, what, sig, with_index=True):
    """``sorted_collection.head(n) / .tail(n) / .nlargest(n, col)`` against the same call on ``full``, the frame sorted
    by pandas.  The sequence of (sort or selection) keys is determined; WHICH of several rows carrying the boundary key
    are returned is free (order among equal keys), so those only have to be rows of ``full`` with that key."""
    n, kind = then["n"], then["op"]
    tsig = dict(sig, then=kind, head_or_tail=kind in ("head", "tail"))
    with impl("sorted." + kind, **tsig), C.quiet(), _cfg(sig["method"]):
        if kind == "head":
            got = out.head(n, npartitions=-1) if then.get("all_partitions", True) else out.head(n)
        elif kind == "tail":
            got = out.tail(n)
        else:
            got = F.compute(getattr(out, kind)(n, then["col"]))
    at_end = kind != "tail"  # the boundary key is the last one of the result (tail: the first one)
    if kind in ("nlargest", "nsmallest"):
        with C.quiet():
            want = getattr(full, kind)(n, then["col"])
        keyof = lambda df: df[[then["col"]]]  # noqa: E731 - the selection key takes the place of the sort key
    else:
        want = full.head(n) if at_end else full.tail(n)
        if not (kind == "head" and then.get("all_partitions", True)) and len(got) < len(want):
            # documented: head(n) looks at the first partition, tail(n) at the last one only, and return what is there
            count("short-head-or-tail-documented")
            want = want.iloc[: len(got)] if at_end else want.iloc[len(want) - len(got):]
    what = f"{what}.{kind}({n}{', ' + repr(then['col']) if 'col' in then else ''})"
    ensure(len(got) == len(want), f"{what}: {len(got)} rows, pandas {len(want)}", "row-count", **tsig)
    ensure(list(got.columns) == list(want.columns), f"{what}: columns {list(got.columns)}", "columns-mismatch", **tsig)
    F.assert_eq(keyof(got).reset_index(drop=True), keyof(want).reset_index(drop=True), what=f"{what} key sequence", sig=dict(tsig, clause="order"))
    if not len(want):
        return

    def keys(df):
        return [tuple(_keyrepr(v) for v in t) for t in keyof(df).itertuples(index=False, name=None)]

    wkeys, gkeys, fkeys = keys(want), keys(got), keys(full)
    boundary = wkeys[-1] if at_end else wkeys[0]
    _same_multiset(got[[k != boundary for k in gkeys]], want[[k != boundary for k in wkeys]], f"{what} rows off the boundary key", tsig, with_index=with_index)
    pool = C.row_multiset(full[[k == boundary for k in fkeys]], with_index)
    for row, cnt in C.row_multiset(got[[k == boundary for k in gkeys]], with_index).items():
        ensure(cnt <= pool.get(row, 0), f"{what}: row {row} (x{cnt}) with the boundary key {boundary} is not a row of the input", "foreign-row", **tsig)


def _draw_then(draw, spec, exclude=()):
    kind = draw(st.sampled_from(["head", "tail", "nlargest", "head", "tail", "nsmallest"]))
    then = {"op": kind, "n": draw(st.sampled_from([1, 2, 3, 5, 8]))}
    if kind == "head":
        then["all_partitions"] = draw(st.sampled_from([True, True, False]))
    if kind in ("nlargest", "nsmallest"):
        cols = [c["name"] for c in spec["columns"] if c["kind"] in ("int", "key") and c["name"] not in exclude]
        if not cols:
            return {"op": "head", "n": then["n"], "all_partitions": True}
        then["col"] = draw(st.sampled_from(cols))
    return then


def _check_sort(spec):
    op = spec["op"]
    with C.quiet():
        pdf = F.build_pdf(spec)
        if op["op"] == "sort_values" and op.get("presort"):
            # input already ordered by the leading key across the partitions, its missing values all in the last
            # partition(s): the situation in which dask may skip the shuffle - but must not when na_position / the
            # direction asks for the nulls (or the values) elsewhere
            pdf = pdf.sort_values(op["by"][0], kind="stable", na_position="last")
            pdf.index = pd.RangeIndex(len(pdf))
            spec = dict(spec, index={"kind": "range"})
        if op["op"] == "set_index" and op["mode"] == "sorted":
            pdf = pdf.sort_values(op["col"], kind="stable")
            pdf.index = pd.RangeIndex(len(pdf))
            spec = dict(spec, index={"kind": "range"})
        ddf = C.build_ddf(spec, pdf)
    sig = dict(op=op["op"], method=op.get("method", "tasks"))
    if op["op"] == "sort_values":
        by, asc, nap = op["by"], op["ascending"], op["na_position"]
        sig["multi"] = len(by) > 1
        # input class of the leading sort key (its quantiles become the divisions): kind, missing values, na_position
        sig["by_kind"] = next(c["kind"] for c in spec["columns"] if c["name"] == by[0])
        sig["na_in_by0"] = bool(pdf[by[0]].isna().any())
        sig["na_position"] = nap
        # ... and whether some non-empty INPUT partition holds nothing but missing values in that key (its quantile
        # summary then consists of nulls)
        sig["all_na_partition"] = any(len(x) and bool(x.isna().all()) for x in C.partitions(ddf[by[0]]))
        with C.quiet():
            st_, want = reference(pdf.sort_values, by, ascending=asc if len(by) > 1 else asc[0], na_position=nap, kind="stable")
        if st_ == "err":
            raise Reject(f"pandas rejects: {want}")
        with impl("sort_values", **sig), C.quiet(), _cfg(sig["method"]):
            out = ddf.sort_values(by, ascending=asc if len(by) > 1 else asc[0], na_position=nap, npartitions=op.get("npartitions"), shuffle_method=sig["method"])
            sig["lowering"] = _sort_lowering(out)
        if op.get("then"):
            _check_then(want, out, op["then"], lambda df: df[by], f"sort_values(by={by}, ascending={asc}, na_position={nap})", dict(sig, na_in_keys=bool(pdf[by].isna().any().any())))
            return
        with impl("sort_values", **sig), C.quiet(), _cfg(sig["method"]):
            got = F.compute(out)
            parts = C.partitions(out)
        # Two observations of the same collection: compute() (whose final single-partition repartition the optimizer may
        # push below the sort) and the partitions themselves in order (what to_csv/head/partitions/map_partitions see).
        for view, res in (("compute", got), ("partitions", C.concat_parts(parts, got.iloc[:0]))):
            vs = dict(sig, view=view, na_in_keys=bool(pdf[by].isna().any().any()))
            _same_multiset(res, want, f"sort_values [{view}]", vs)
            # the sequence of sort keys is fully determined even though the order among equal keys is free
            F.assert_eq(res[by].reset_index(drop=True), want[by].reset_index(drop=True), what=f"sort_values(by={by}, ascending={asc}, na_position={nap}) key sequence [{view}]", sig=dict(vs, clause="order"))
        return
    col, mode = op["col"], op["mode"]
    sig["mode"] = mode
    sig["drop"] = bool(op["drop"])
    with C.quiet():
        want = pdf.set_index(col, drop=op["drop"])
    kw = dict(drop=op["drop"])
    if mode == "npartitions":
        kw.update(npartitions=op.get("npartitions"), shuffle_method=sig["method"])
    elif mode == "divisions":
        vals = sorted(C.plain(v) for v in pdf[col])
        if not vals:
            raise Reject("empty")
        kw.update(divisions=C.division_vector(pd.Index(vals), op.get("pos", []), op.get("lo", 0), op.get("hi", 0)), shuffle_method=sig["method"])
    else:
        kw.update(sorted=True)
    with impl("set_index", **sig), C.quiet(), _cfg(sig["method"]):
        out = ddf.set_index(col, **kw)
        divs = tuple(out.divisions)
    # input-class flag: the collection reports more partitions than its division vector describes (C41's clause; here
    # it only labels the crash that follows from it)
    sig["npartitions_ne_divisions"] = out.npartitions != len(divs) - 1
    if op.get("then"):
        with C.quiet():
            full = want.sort_index(kind="stable")
        _check_then(full, out, op["then"], lambda df: df.index.to_frame(index=False, name="__key__"), f"set_index({col}, {mode})", sig)
        return
    with impl("set_index", **sig), C.quiet(), _cfg(sig["method"]):
        got = F.compute(out)
        pgot = C.concat_parts(C.partitions(out), got.iloc[:0])
    ensure(pgot.index.is_monotonic_increasing, f"set_index({col}, {mode}) partitions in order are not sorted: {short(list(pgot.index), 200)}", "not-sorted", view="partitions", **sig)
    _same_multiset(pgot, want, f"set_index({col}, {mode}) [partitions]", dict(sig, view="partitions"))
    ensure(got.index.is_monotonic_increasing, f"set_index({col}, {mode}) result index is not sorted: {short(list(got.index), 200)}", "not-sorted", **sig)
    ensure(got.index.name == want.index.name and list(got.columns) == list(want.columns), f"labels differ: {got.index.name} {list(got.columns)}", "columns-mismatch", **sig)
    _same_multiset(got, want, f"set_index({col}, {mode})", sig)
    F.assert_eq(got.iloc[:0], want.iloc[:0], what="set_index dtypes", sig=dict(sig, clause="dtypes"))


def nt_sort(spec):
    return _nin(spec) >= 3 and (spec["op"].get("npartitions") or _nin(spec)) >= 3 and spec["nrows"] >= 6


@st.composite
def sort_case(draw):
    which = draw(st.sampled_from(["sort_values", "sort_values", "set_index"]))
    method = draw(st.sampled_from(["tasks", "tasks", "disk"]))
    if which == "sort_values":
        spec = draw(keyed_frame(keykinds=("key", "keyna", "str", "int", "Int64", "float", "datetime")))
        by = draw(st.sampled_from([["k0"], ["k0"], ["k1"], ["k0", "k1"], ["k1", "k0"]]))
        spec["op"] = {
            "op": which,
            "by": by,
            "ascending": [draw(st.booleans()) for _ in by],
            "na_position": draw(st.sampled_from(["last", "first"])),
            "npartitions": draw(st.sampled_from([None, None, 1, 2, 4])),
            "method": method,
        }
        if draw(st.sampled_from(range(10))) < 3:
            # the first/last rows of the sorted collection instead of all of it (head/tail/nlargest have their own lowering)
            spec["op"]["then"] = _draw_then(draw, spec)
        elif draw(st.sampled_from(range(4))) == 0:
            spec["op"]["presort"] = True
        return spec
    # set_index: NaN-free key columns
    req_kinds = ("key", "int", "str", "datetime")
    spec = draw(keyed_frame(keykinds=req_kinds, nkeys=1))
    spec["columns"][0].pop("nan", None)
    spec["nrows"] = max(spec["nrows"], 1)
    mode = draw(st.sampled_from(["npartitions", "npartitions", "divisions", "sorted"]))
    op = {"op": which, "col": "k0", "mode": mode, "drop": draw(st.sampled_from([True, True, False])), "method": method}
    if mode == "npartitions":
        op["npartitions"] = draw(st.sampled_from([None, None, 1, 2, 3, 5]))
    if mode == "divisions":
        op.update(pos=draw(st.lists(st.integers(0, max(spec["nrows"] - 1, 0)), max_size=4)), lo=draw(st.sampled_from([0, 0, 2])), hi=draw(st.sampled_from([0, 0, 2])))
    if draw(st.sampled_from(range(10))) < 3:
        op["then"] = _draw_then(draw, spec, exclude=("k0",))  # k0 becomes the index (drop=True): not a column to select by
    spec["op"] = op
    return spec


# --------------------------------------------------------------------------
@C.sync_scheduler
def check_dedup(spec):
    op = spec["op"]
    with C.quiet():
        pdf = F.build_pdf(spec)
        ddf = C.build_ddf(spec, pdf)
    kind = op["op"]
    sig = dict(op=kind, method=op.get("method", "tasks"))
    so = op.get("split_out", True)
    with _cfg(sig["method"]), C.quiet():
        if kind == "drop_duplicates":
            subset, keep = op["subset"], op["keep"]
            want = pdf.drop_duplicates(subset=subset, keep=keep, ignore_index=op["ignore_index"])
            with impl(kind, **sig):
                got = F.compute(ddf.drop_duplicates(subset=subset, keep=keep, split_out=so, ignore_index=op["ignore_index"], shuffle_method=sig["method"]))
            ensure(list(got.columns) == list(pdf.columns), f"columns {list(got.columns)}", "columns-mismatch", **sig)
            cols = subset or list(pdf.columns)
            # only the subset columns of the survivors are determined across partitions
            _same_multiset(got[cols], want[cols], f"drop_duplicates(subset={subset}, keep={keep}, split_out={so})", sig, with_index=False)
            if so is not True and so == 1:
                # without a shuffle (split_out=1) the chunks are reduced in partition order, so "first"/"last" occurrence
                # means what it means in pandas: the surviving ROWS (payload columns and index included) are determined
                # (reference on the rows in the collection's own order: from_pandas(sort=True) reorders an unsorted frame)
                want_rows = F.compute(ddf).drop_duplicates(subset=subset, keep=keep, ignore_index=op["ignore_index"])
                _same_multiset(got, want_rows, f"drop_duplicates(subset={subset}, keep={keep}, split_out=1) full rows", dict(sig, clause="kept-rows"), with_index=not op["ignore_index"])
            src = C.row_multiset(pdf, with_index=not op["ignore_index"])
            for k in C.row_multiset(got, with_index=not op["ignore_index"]):
                ensure(k in src, f"drop_duplicates returned a row that is not an input row: {k}", "foreign-row", **sig)
        elif kind == "unique":
            col = op["col"]
            want = pd.Series(pdf[col].unique(), name=col)
            with impl(kind, **sig):
                got = F.compute(ddf[col].unique(split_out=so, shuffle_method=sig["method"]))
            ensure(isinstance(got, pd.Series) and got.name == col, f"unique() returned {type(got).__name__} named {getattr(got, 'name', None)}", "type-mismatch", **sig)
            _same_multiset(got, want, f"unique({col}, split_out={so})", sig, with_index=False)
            ensure(str(got.dtype) == str(pdf[col].dtype), f"unique dtype {got.dtype} != {pdf[col].dtype}", "dtype-mismatch", **sig)
        elif kind == "nunique":
            col = op["col"]
            want = pdf[col].nunique(dropna=op["dropna"])
            with impl(kind, **sig):
                got = F.compute(ddf[col].nunique(dropna=op["dropna"], split_out=so))
            ensure(int(got) == int(want), f"nunique({col}, dropna={op['dropna']}, split_out={so}) = {got}, pandas {want}", "value-mismatch", **sig)
        else:
            want = pdf.nunique(dropna=op["dropna"])
            with impl(kind, **sig):
                got = F.compute(ddf.nunique(dropna=op["dropna"]))
            F.assert_eq(got, want, what="DataFrame.nunique", sig=sig, check_order=False)


def nt_dedup(spec):
    so = spec["op"].get("split_out", True)
    return _nin(spec) >= 3 and spec["nrows"] >= 6 and (so is True or so >= 2 or spec["op"]["op"].endswith("nunique"))


@st.composite
def dedup_case(draw):
    spec = draw(keyed_frame(keykinds=("key", "key", "keyna", "str", "cat", "Int64")))
    kind = draw(st.sampled_from(["drop_duplicates", "drop_duplicates", "unique", "nunique", "frame_nunique"]))
    op = {"op": kind, "split_out": draw(st.sampled_from([True, 1, 2, 3])), "method": draw(st.sampled_from(["tasks", "tasks", "disk"]))}
    if kind == "drop_duplicates":
        op.update(subset=draw(st.sampled_from([None, ["k0"], ["k0", "k1"], ["k1"]])), keep=draw(st.sampled_from(["first", "last"])), ignore_index=draw(st.sampled_from([False, False, True])))
    elif kind in ("unique", "nunique"):
        op["col"] = draw(st.sampled_from(["k0", "k1"]))
    if "nunique" in kind:
        op["dropna"] = draw(st.booleans())
    spec["op"] = op
    return spec


def presorted_cases(tier):
    """sort_values on input that is already ordered by the key across the partitions with its missing values in the last
    partition(s) only: every combination of key kind x partition count x na_position x direction x shuffle method."""
    import itertools

    seeds = range(3) if tier == "quick" else range(10)
    for kind, n, nap, asc, method, seed in itertools.product(["float", "Int64", "keyna"], [2, 3, 4], ["first", "last"], [True, False], ["tasks", "disk"], seeds):
        key = {"kind": kind, "name": "k0", "nan": 0.25}
        if kind == "keyna":
            key["card"] = 4
        yield {
            "columns": [key, {"card": 2, "kind": "key", "name": "k1"}, {"kind": "int", "name": "c"}],
            "index": {"kind": "range", "name": None},
            "nrows": 9,
            "seed": seed,
            "partition": {"how": "npartitions", "n": n, "sort": False},
            "op": {"op": "sort_values", "by": ["k0"], "ascending": [asc], "na_position": nap, "npartitions": None, "method": method, "presort": True},
        }


def wide_shuffle_cases(tier):
    """Shuffles into MANY output partitions from few input partitions (and the reverse): partition numbers beyond 255 do not
    fit the small unsigned dtype a staged task shuffle derives from the input partition count; 2/5/9 inputs x 130/257/300
    outputs x max_branch 2|default x tasks (+ one disk case per layout)."""
    import itertools

    outs = [257, 300] if tier == "quick" else [130, 257, 300, 520]
    for nin, nout, mb, seed in itertools.product([2, 5, 9], outs, [2, None], range(1 if tier == "quick" else 3)):
        for method in ("tasks",) + (("disk",) if mb is None and nin == 5 else ()):
            yield {
                "columns": [{"kind": "key", "name": "k0", "card": 900}, {"kind": "int", "name": "c"}],
                "index": {"kind": "range", "name": None},
                "nrows": 700,
                "seed": seed,
                "partition": {"how": "npartitions", "n": nin, "sort": False},
                "op": {"op": "shuffle", "on": ["k0"], "npartitions": nout, "method": method, "max_branch": mb, "ignore_index": False},
            }
    if tier != "quick":
        for nin, nout in ((300, 3), (257, 257)):
            yield {
                "columns": [{"kind": "key", "name": "k0", "card": 900}, {"kind": "int", "name": "c"}],
                "index": {"kind": "range", "name": None},
                "nrows": 700,
                "seed": 0,
                "partition": {"how": "npartitions", "n": nin, "sort": False},
                "op": {"op": "shuffle", "on": ["k0"], "npartitions": nout, "method": "tasks", "max_branch": 2, "ignore_index": False},
            }


SUBCHECKS = [
    Sub("shuffle", check_shuffle, strategy=lambda tier: shuffle_case(), n={"quick": 700, "thorough": 15000}, nontrivial=nt_shuffle, classes=cls_common,
        doc="shuffle(on, npartitions, tasks|disk, max_branch): rows preserved, each key value in exactly one partition"),
    Sub("wide-shuffle", check_shuffle, kind="enum", cases=wide_shuffle_cases, nontrivial=lambda spec: True, classes=cls_common, exhaustive=True,
        doc="shuffle of 700 rows (900 possible keys) from 2/5/9 partitions into 257/300 (thorough also 130/520) partitions, max_branch 2 or default, tasks (+disk): rows preserved, each key in one partition"),
    Sub("sort", check_sort, strategy=lambda tier: sort_case(), n={"quick": 700, "thorough": 15000}, nontrivial=nt_sort, classes=cls_common,
        doc="sort_values / set_index: globally ordered like pandas, same row multiset"),
    Sub("presorted", check_sort, kind="enum", cases=presorted_cases, nontrivial=lambda spec: spec["partition"]["n"] >= 2, classes=cls_common, exhaustive=True,
        doc="sort_values on presorted input with trailing nulls: key kind x npartitions x na_position x direction x method"),
    Sub("dedup", check_dedup, strategy=lambda tier: dedup_case(), n={"quick": 600, "thorough": 12000}, nontrivial=nt_dedup, classes=cls_common,
        doc="drop_duplicates / unique / nunique equal pandas as multisets"),
]
