"""C29 — storing arrays writes exactly the array into the targets."""
from __future__ import annotations

import itertools
import os
import shutil
import threading

import numpy as np
from hypothesis import strategies as st

from vf import arrays as A
from vf.core import Sub, ensure, impl

PROPERTY = "C29"
PRELOAD = ["dask.array"]
LEVEL = "exploration"
RULE = (
    "store: 1-3 sources (random dtype/shape/chunking, incl. a zero-size-chunk stratum) stored in ONE call into "
    "sentinel-filled NumPy targets that are either exactly the source's shape or larger with a random `regions` offset "
    "(optionally strided), lock in {True, False, threading.Lock()}, compute True/False (then computed later; the "
    "targets must be untouched before), return_stored/load_stored, sync and threaded schedulers. Oracle: "
    "target[region] == source, everything outside the region still holds the sentinel, returned arrays == sources. "
    "enum: all chunkings of a (3,4) source at a fixed offset region x lock x compute x return_stored. npy stack: "
    "to_npy_stack(axis) into a per-case temporary directory then from_npy_stack: same values/dtype, same chunks along "
    "the stacking axis. Non-trivial: a region offset != 0 with >= 2 chunks on some axis, or >= 2 sources in one call "
    "(store); >= 2 chunks along the stacking axis (stack)."
)
ASSUMPTIONS = [
    "targets are plain NumPy arrays (setitem semantics of the reference target)",
    "return_stored=True with compute=False and load_stored=False is excluded: dask documents that computing it directly "
    "'is not what you want'",
    "temporary stacks live under /var/tmp/vf-c29/c29-<pid>-<n> and are removed in a finally block",
]
TECHNIQUE = "sentinel-filled targets inspected after the store; file round trip"

SENTINEL = -77
_counter = itertools.count()


def make_target(src_shape, t, dtype):
    """-> (target array, region tuple or None)"""
    if t is None:
        return np.full(tuple(src_shape), SENTINEL, dtype=dtype), None
    shape, region = [], []
    for n, pb, pa, stp in zip(src_shape, t["before"], t["after"], t["step"]):
        extent = (n - 1) * stp + 1 if n else 0
        shape.append(pb + extent + pa)
        region.append(slice(pb, pb + extent, stp) if stp > 1 or not t.get("open_end") else slice(pb, pb + n))
    return np.full(tuple(shape), SENTINEL, dtype=dtype), tuple(region)


def store_check(spec):
    import dask
    import dask.array as da

    xs = [A.build_np(s) for s in spec["sources"]]
    ds = [A.build_da(s, x) for s, x in zip(spec["sources"], xs)]
    pairs = [make_target(s["shape"], t, t["dtype"] if t and t.get("dtype") else x.dtype) for s, t, x in zip(spec["sources"], spec["targets"], xs)]
    targets = [p[0] for p in pairs]
    regions = [p[1] for p in pairs]
    lock = {"true": True, "false": False, "lock": threading.Lock()}[spec["lock"]]
    rs, comp = spec["return_stored"], spec["compute"]
    sig = dict(op="store", lock=spec["lock"], compute=comp, return_stored=rs, load_stored=spec.get("load_stored"), sched=spec["sched"], nsources=len(ds),
               region=any(r is not None for r in regions), strided=any(r is not None and any((s.step or 1) > 1 for s in r) for r in regions),
               zero_chunk=any(A.has_zero_chunk(s["chunks"]) for s in spec["sources"]),
               # two equal sources (same name) going to distinct equal-content targets with equal regions: the store layers
               # get the same name and collapse (finding store-equal-sources-distinct-targets)
               duplicate_pair=any(ds[i].name == ds[j].name and regions[i] == regions[j] and targets[i].shape == targets[j].shape and targets[i].dtype == targets[j].dtype
                                  for i in range(len(ds)) for j in range(i)))
    kw = dict(lock=lock, compute=comp, return_stored=rs)
    if spec.get("load_stored") is not None:
        kw["load_stored"] = spec["load_stored"]
    if any(r is not None for r in regions):
        kw["regions"] = regions[0] if len(ds) == 1 or (spec.get("one_region") and all(r == regions[0] for r in regions)) else regions
    if comp:
        kw["scheduler"] = spec["sched"]
    with impl("store", **sig):
        if len(ds) == 1 and not spec.get("as_list"):
            out = da.store(ds[0], targets[0], **kw)
        else:
            out = da.store(ds, targets, **kw)
        if not comp:
            # nothing may have been written yet
            for t in targets:
                ensure(bool(np.all(t == np.full((), SENTINEL).astype(t.dtype))), "compute=False already wrote into the target", "eager-write", **sig)
            res = dask.compute(out, scheduler=spec["sched"])[0]
        else:
            res = out
        if rs:
            outs = list(res) if isinstance(res, (tuple, list)) else [res]
            vals = [o.compute(scheduler=spec["sched"]) if isinstance(o, da.Array) else o for o in outs]
    for k, (x, t, r) in enumerate(zip(xs, targets, regions)):
        inside = t[r] if r is not None else t
        ensure(inside.shape == x.shape and np.array_equal(inside, x.astype(t.dtype), equal_nan=t.dtype.kind == "f"),
               f"source #{k}: target{'[region]' if r else ''} = {inside.tolist()} != source {x.tolist()} (region={r}, chunks={spec['sources'][k]['chunks']})", "target-mismatch", **sig)
        if r is not None:
            mask = np.ones(t.shape, dtype=bool)
            mask[r] = False
            ensure(bool(np.all(t[mask] == np.full((), SENTINEL).astype(t.dtype))), f"source #{k}: wrote outside the region {r}: target={t.tolist()}", "wrote-outside-region", **sig)
    if rs:
        ensure(len(vals) == len(xs), f"return_stored gave {len(vals)} arrays for {len(xs)} sources", "count-mismatch", **sig)
        for k, (v, x, t) in enumerate(zip(vals, xs, targets)):
            A.same_array(v, x.astype(t.dtype), what=f"returned array #{k}", sig=sig)
    elif comp:
        ensure(out is None, f"store(compute=True, return_stored=False) returned {type(out).__name__}", "unexpected-return", **sig)


def store_nontrivial(spec):
    multi = any(len(c) > 1 for s in spec["sources"] for c in s["chunks"])
    offset = any(t and any(b for b in t["before"]) for t in spec["targets"])
    return multi and (offset or len(spec["sources"]) > 1)


def store_classes(spec):
    yield "lock-" + spec["lock"]
    yield f"compute-{spec['compute']}"
    yield f"return_stored-{spec['return_stored']}"
    yield f"nsources-{len(spec['sources'])}"
    yield "sched-" + spec["sched"]
    if any(spec["targets"]):
        yield "region"
    if any(t and any(s > 1 for s in t["step"]) for t in spec["targets"]):
        yield "strided-region"
    if any(A.has_zero_chunk(s["chunks"]) for s in spec["sources"]):
        yield "zero-size-chunk"
    if spec.get("load_stored") is not None:
        yield f"load_stored-{spec['load_stored']}"


def tiling_check(spec):
    """ONE source written several times into ONE target under different regions (tiling a larger array with a block), in one
    da.store call or as several compute=False stores computed together: every tile holds the source, the rest the sentinel."""
    import dask
    import dask.array as da

    x = A.build_np(spec["source"])
    d = A.build_da(spec["source"], x)
    n = x.shape[0]
    k, gap = spec["tiles"], spec["gap"]
    t = np.full((k * (n + gap) + 1,) + x.shape[1:], SENTINEL, dtype=x.dtype)
    regions = [(slice(i * (n + gap), i * (n + gap) + n),) + (slice(None),) * (x.ndim - 1) for i in range(k)]
    sig = dict(op="store", tiling=True, compute=spec["mode"] == "call", lock=bool(spec["lock"]))
    with impl("da.store (one source, one target, several regions)", **sig):
        if spec["mode"] == "call":
            da.store([d] * k, [t] * k, regions=regions, lock=spec["lock"], scheduler="sync")
        elif spec["mode"] == "lazy-call":
            r = da.store([d] * k, [t] * k, regions=regions, lock=spec["lock"], compute=False)
            dask.compute(r, scheduler="sync")
        else:
            rs = [da.store(d, t, regions=regions[i], lock=spec["lock"], compute=False) for i in range(k)]
            dask.compute(*rs, scheduler="sync")
    mask = np.ones(t.shape, dtype=bool)
    for i, r in enumerate(regions):
        ensure(np.array_equal(t[r], x), f"tile #{i} of {k} (region {r[0]}): target holds {t[r].tolist()}, source is {x.tolist()} (chunks={spec['source']['chunks']}, mode={spec['mode']})", "tile-not-written", **sig)
        mask[r] = False
    ensure(bool(np.all(t[mask] == np.full((), SENTINEL).astype(t.dtype))), f"wrote outside the tiles: target={t.tolist()}", "wrote-outside-region", **sig)


def tiling_enum(tier):
    shapes = [[3], [2, 2]] if tier == "quick" else [[3], [4], [2, 2], [3, 2]]
    for shp in shapes:
        for ch in A.all_chunkings(shp):
            for k, gap, mode, lock in itertools.product((2, 3), (0, 1), ("call", "lazy-call", "separate"), (False, True)):
                yield {"source": {"shape": shp, "dtype": "i8", "fill": "arange", "seed": 0, "chunks": [list(c) for c in ch]}, "tiles": k, "gap": gap, "mode": mode, "lock": lock}


def store_enum(tier):
    shape = [3, 4] if tier == "quick" else [4, 4]
    i = 0
    for ch, lock, comp, rs in itertools.product(A.all_chunkings(shape), ["true", "false", "lock"], [True, False], [True, False]):
        i += 1
        yield {"sources": [{"shape": shape, "dtype": "i8" if i % 2 else "f8", "seed": i % 9, "fill": "arange", "chunks": ch}],
               "targets": [{"before": [1, 2], "after": [2, 0], "step": [1, 1 + i % 2]}], "lock": lock, "compute": comp, "return_stored": rs, "sched": "threads" if i % 3 == 0 else "sync"}


@st.composite
def store_random(draw):
    n = draw(st.sampled_from([1, 1, 2, 3]))
    sources, targets = [], []
    for _ in range(n):
        s = draw(A.array_spec(min_dims=0, max_dims=3, max_side=5, dtypes=("i8", "f8", "i4", "bool", "c16"), fills=("arange", "small", "normal"), allow_zero_chunks=draw(st.integers(0, 7)) == 0))
        sources.append(s)
        nd = len(s["shape"])
        if nd and draw(st.booleans()):
            t = {"before": [draw(st.integers(0, 3)) for _ in range(nd)], "after": [draw(st.integers(0, 2)) for _ in range(nd)],
                 "step": [draw(st.sampled_from([1, 1, 1, 2, 3])) for _ in range(nd)], "open_end": draw(st.booleans())}
            if s["dtype"] in ("i8", "i4") and draw(st.integers(0, 3)) == 0:
                t["dtype"] = "f8"
            targets.append(t)
        else:
            targets.append(None)
    rs, comp = draw(st.booleans()), draw(st.booleans())
    spec = {"sources": sources, "targets": targets, "lock": draw(st.sampled_from(["true", "false", "lock"])), "compute": comp, "return_stored": rs,
            "sched": draw(st.sampled_from(["sync", "threads"])), "as_list": draw(st.booleans()), "one_region": draw(st.booleans())}
    if rs and draw(st.booleans()):
        spec["load_stored"] = True if not comp else draw(st.booleans())
    return spec


# ------------------------------------------------------------------ npy stack
def stack_check(spec):
    import dask.array as da

    x = A.build_np(spec["array"])
    d = A.build_da(spec["array"], x)
    axis = spec["axis"]
    sig = dict(op="npy_stack", axis=axis, zero_chunk=A.has_zero_chunk(spec["array"]["chunks"]), dtype=spec["array"]["dtype"])
    dirname = f"/var/tmp/vf-c29/c29-{os.getpid()}-{next(_counter)}"
    os.makedirs("/var/tmp/vf-c29", exist_ok=True)
    try:
        with impl("npy_stack", **sig):
            da.to_npy_stack(dirname, d, axis=axis)
            files = sorted(f for f in os.listdir(dirname) if f.endswith(".npy"))
            y = da.from_npy_stack(dirname, mmap_mode=spec.get("mmap_mode", "r"))
            got = np.asarray(y.compute(scheduler="sync"))
        ensure(len(files) == len(d.chunks[axis]), f"{len(files)} .npy files for {len(d.chunks[axis])} blocks along axis {axis}", "file-count-mismatch", **sig)
        A.same_array(got, x, what="from_npy_stack(to_npy_stack(x))", sig=sig)
        ensure(y.chunks[axis] == d.chunks[axis], f"chunks along the stacking axis {y.chunks[axis]} != {d.chunks[axis]}", "stack-chunks-mismatch", **sig)
        A.check_meta(y, got, sig=sig)
    finally:
        shutil.rmtree(dirname, ignore_errors=True)


def stack_enum(tier):
    for shape in ([4], [3, 2]) if tier == "quick" else ([5], [3, 3], [2, 2, 2]):
        for i, (ch, axis) in enumerate(itertools.product(A.all_chunkings(shape), range(len(shape)))):
            yield {"array": {"shape": shape, "dtype": "f8" if i % 2 else "i8", "seed": i, "fill": "arange", "chunks": ch}, "axis": axis}


@st.composite
def stack_random(draw):
    arr = draw(A.array_spec(min_dims=1, max_dims=3, max_side=5, dtypes=("i8", "f8", "bool", "c16", "M8[ns]"), fills=("arange", "small"), allow_zero_chunks=draw(st.integers(0, 7)) == 0))
    return {"array": arr, "axis": draw(st.integers(0, len(arr["shape"]) - 1)), "mmap_mode": draw(st.sampled_from(["r", None]))}


SUBCHECKS = [
    Sub("store_enum", store_check, kind="enum", cases=store_enum, nontrivial=store_nontrivial, classes=store_classes, exhaustive=True,
        doc="all chunkings of a (3,4) source stored at an offset (every other case strided) region x lock x compute x return_stored"),
    Sub("store_tiling", tiling_check, kind="enum", cases=tiling_enum, nontrivial=lambda s: True, classes=lambda s: [s["mode"], f"tiles-{s['tiles']}"], exhaustive=True,
        doc="one source stored 2-3 times into one target under different regions (all chunkings of small sources) x {one call, one compute=False call, separate compute=False stores computed together} x lock"),
    Sub("store", store_check, strategy=lambda tier: store_random(), n={"quick": 1500, "thorough": 30000}, nontrivial=store_nontrivial, classes=store_classes,
        doc="1-3 sources per call, random regions inside larger targets, locks, compute=False then compute, return_stored/load_stored, schedulers"),
    Sub("stack_enum", stack_check, kind="enum", cases=stack_enum, nontrivial=lambda s: len(s["array"]["chunks"][s["axis"]]) > 1, exhaustive=True,
        classes=lambda s: [f"axis-{s['axis']}"], doc="to_npy_stack/from_npy_stack of small arrays under all chunkings and every axis"),
    Sub("stack", stack_check, strategy=lambda tier: stack_random(), n={"quick": 400, "thorough": 6000}, nontrivial=lambda s: len(s["array"]["chunks"][s["axis"]]) > 1,
        classes=lambda s: [f"axis-{s['axis']}", "dtype-" + s["array"]["dtype"]], doc="random arrays/dtypes/chunkings round-tripped through an npy stack"),
]
