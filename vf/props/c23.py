"""C23 — chunk normalization and rechunking are exact."""
from __future__ import annotations

import itertools
import math

import numpy as np
from hypothesis import strategies as st

from vf import arrays as A
from vf.core import Reject, Sub, Violation, count, ensure, impl, time_limit
from vf.props import _arrcommon2 as C

PROPERTY = "C23"
PRELOAD = ["dask.array"]
LEVEL = "exploration"
RULE = (
    "normalize-enum: every shape with 0-2 dims and sides 0-4 x every per-dimension spec from {1,2,3,-1,None,'auto',byte string} "
    "(plus scalar/dict/list spellings) x limits {1,8,16,24,64} x dtypes {u1,f8} x every previous_chunks chunking (or none); "
    "normalize-random: shapes 0-4 dims (sides 0-40), specs mixing ints, -1/None, 'auto', byte strings, dicts, explicit tuples, "
    "limit (int/str), 6 dtypes, optional (irregular, possibly zero-size-chunk) previous_chunks. Oracle: tuple of int tuples, one per "
    "dimension, summing to the shape; sizes positive (single 0 for an empty dimension) on every dimension whose spec leaves the choice "
    "to dask (explicit tuples only summed, DESIGN 8.4); max block bytes <= limit without previous_chunks and <= limit*array.chunk-size-"
    "tolerance with it, whenever itemsize*prod(largest explicit chunk) <= limit; must terminate and not raise on these valid specs. "
    "rechunk-enum: ALL source x target chunkings of shapes (1..6,), (3,3), (4,2), (2,2,2) x {default plan, threshold=1 + tiny "
    "block_size_limit}; rechunk-random: 1-3-d arrays, random source/target chunkings (targets as tuples/ints/-1/None/dicts with negative "
    "keys/'auto'), threshold, block_size_limit, balance, method in {None,'tasks','p2p'}; oracle: .chunks == normalize_chunks(resolved "
    "target) exactly (balance=True: only sums), values and dtype unchanged; p2p without distributed: clean exception or correct result. "
    "plan: plan_rechunk on up-to-4-d chunkings with up to ~30 blocks per axis: each stage is a valid chunking of the shape and the last "
    "is the target. Non-trivial: normalize: 'auto' on >=2 dimensions with irregular previous_chunks; rechunk/plan: the planner's graph-size "
    "estimate reaches the threshold so that intermediate stages are considered (multi-stage plans are counted as measured counter)."
)
ASSUMPTIONS = [
    "explicit per-dimension tuples are returned as given (zeros allowed by the normalize_chunks docstring) and only summed",
    "the byte limit with previous_chunks includes the configured array.chunk-size-tolerance (1.25), applied by design",
    "rechunk 'requested chunks' for int/-1/None/'auto'/dict targets are what normalize_chunks returns for the resolved target "
    "(None / missing dict keys keep the source chunks, as rechunk documents)",
    "method='p2p' cannot run (distributed absent): only its clean failure is checked",
    "explicit zero-size chunks (sources, targets, previous_chunks) are a ~10% stratum of the random sub-checks with their own sig "
    "flags; several zero-size chunks on a zero-length axis, e.g. (0, 0), are not explored (doubly degenerate: rechunk "
    "deliberately returns an all-empty array untouched, whatever the target)",
]
TECHNIQUE = "exhaustive enumeration of small chunk specs / source x target chunkings plus Hypothesis-generated specs; differential against NumPy values and the sum/positivity/byte-limit oracle"

TOL = 1.25  # default array.chunk-size-tolerance; read again from config in check


# --------------------------------------------------------------------------
# chunk-spec encoding (JSON) -> live value


def _elem(e):
    if isinstance(e, dict):
        return tuple(e["t"])
    return e


def live_spec(spec, ndim):
    k = spec["k"]
    if k == "scalar":
        return spec["v"]
    if k == "tuple":
        return tuple(_elem(e) for e in spec["v"])
    if k == "list":
        return [_elem(e) for e in spec["v"]]
    if k == "dict":
        return {int(a): _elem(e) for a, e in spec["v"].items()}
    raise ValueError(k)


def per_dim(spec, ndim):
    """The per-dimension element of the spec (None where unspecified)."""
    k = spec["k"]
    if k == "scalar":
        return [spec["v"]] * ndim
    if k in ("tuple", "list"):
        return list(spec["v"])
    return [spec["v"].get(str(i), spec["v"].get(str(i - ndim))) for i in range(ndim)]


def is_auto(e):
    return isinstance(e, str)


def is_explicit(e):
    return isinstance(e, dict)


# --------------------------------------------------------------------------
# normalize_chunks


def check_normalize(case):
    import dask
    from dask.array.core import normalize_chunks
    from dask.utils import parse_bytes

    shape = tuple(case["shape"])
    nd = len(shape)
    spec = case["spec"]
    elems = per_dim(spec, nd)
    dtype = np.dtype(case["dtype"])
    limit = case.get("limit")
    prev = case.get("prev")
    prev_t = C.tt(prev) if prev is not None else None
    autos = [i for i, e in enumerate(elems) if is_auto(e)]
    sig = dict(
        op="normalize_chunks",
        auto=bool(autos),
        prev=prev is not None,
        zero_chunk=prev is not None and A.has_zero_chunk(prev),
        # a zero-length dimension together with an 'auto' dimension
        empty_dim=bool(autos) and 0 in shape,
        # an 'auto' dimension of positive length at least half of whose previous chunks have size 0 (median below 1)
        prev_median_lt_1=prev is not None and any(shape[i] > 0 and float(np.median(prev[i])) < 1 for i in autos),
    )
    call = f"normalize_chunks({live_spec(spec, nd)!r}, {shape}, limit={limit!r}, dtype={dtype}, previous_chunks={prev_t})"
    with impl(call, raised=True, **sig), time_limit(10, call, **sig):
        got = normalize_chunks(live_spec(spec, nd), shape, limit=limit, dtype=dtype, previous_chunks=prev_t)
    what = f"{call} -> {got!r}"
    ensure(isinstance(got, tuple) and len(got) == nd and all(isinstance(c, tuple) for c in got), what + ": not a tuple of tuples", "bad-structure", **sig)
    for d in range(nd):
        ensure(all(isinstance(c, int) and not isinstance(c, bool) for c in got[d]), what + f": non-int size on dim {d}", "non-int-chunk", **sig)
        ensure(sum(got[d]) == shape[d], what + f": dim {d} sums to {sum(got[d])} != {shape[d]}", "chunks-sum-mismatch", **sig)
        if is_explicit(elems[d]):
            # returned as given (DESIGN 8.4): only summed
            continue
        if shape[d] == 0:
            ensure(got[d] == (0,), what + f": empty dim {d} is not a single 0", "empty-dim-not-single-zero", **sig)
        else:
            ensure(all(c > 0 for c in got[d]), what + f": non-positive size on dim {d}", "non-positive-chunk", **sig)
    if autos and all(s > 0 for s in shape):
        eff = limit
        for e in elems:
            if is_auto(e) and e != "auto":
                eff = parse_bytes(e)
        if eff is None:
            eff = dask.config.get("array.chunk-size")
        if isinstance(eff, str):
            eff = parse_bytes(eff)
        eff = max(1, eff)
        explicit_block = dtype.itemsize * math.prod(max(got[d]) for d in range(nd) if d not in autos)
        if explicit_block <= eff:  # "whenever a single element fits"
            block = dtype.itemsize * math.prod(max(got[d]) for d in range(nd))
            tol = dask.config.get("array.chunk-size-tolerance") if prev is not None else 1
            ensure(
                block <= eff * tol,
                what + f": largest block {block} B > limit {eff} B" + (f" x tolerance {tol}" if prev is not None else ""),
                "auto-exceeds-limit",
                **sig,
            )


def nt_normalize(case):
    nd = len(case["shape"])
    elems = per_dim(case["spec"], nd)
    return sum(1 for e in elems if is_auto(e)) >= 2 and case.get("prev") is not None and A.irregular(case["prev"])


def cls_normalize(case):
    nd = len(case["shape"])
    yield f"ndim-{nd}"
    yield "spec-" + case["spec"]["k"]
    elems = per_dim(case["spec"], nd)
    if any(is_auto(e) for e in elems):
        yield "auto"
        if any(e != "auto" for e in elems if is_auto(e)):
            yield "byte-string"
    if any(is_explicit(e) for e in elems):
        yield "explicit-tuple"
    if case.get("prev") is not None:
        yield "previous_chunks"
        if A.has_zero_chunk(case["prev"]):
            yield "zero-size-chunk"
    if 0 in case["shape"]:
        yield "zero-length-dim"
    if isinstance(case.get("limit"), str):
        yield "limit-str"


def enum_normalize(tier):
    top = 4 if tier == "quick" else 5
    shapes = [()] + [(a,) for a in range(0, top + 2)] + [(a, b) for a in range(0, top + 1) for b in range(0, top + 1)]
    limits = [1, 8, 16, 24, 64]
    for shape in shapes:
        nd = len(shape)
        per = [1, 2, 3, -1, None, "auto"]
        specs = [{"k": "tuple", "v": list(v)} for v in itertools.product(per, repeat=nd)]
        specs += [{"k": "scalar", "v": v} for v in (1, 2, 5, -1, "auto")]
        if nd == 2:
            specs += [{"k": "dict", "v": {"0": "auto"}}, {"k": "dict", "v": {"1": 2}}, {"k": "list", "v": ["auto", 2]}]
        if nd == 1:
            specs += [{"k": "dict", "v": {}}, {"k": "dict", "v": {"0": "auto"}}]
        prevs = [None] + A.all_chunkings(list(shape))
        for spec in specs:
            has_auto = any(is_auto(e) for e in per_dim(spec, nd))
            for dt in ("u1", "f8"):
                if not has_auto:
                    if dt == "u1":
                        yield {"shape": list(shape), "spec": spec, "limit": None, "dtype": dt, "prev": None}
                    continue
                for limit in limits:
                    for prev in prevs:
                        yield {"shape": list(shape), "spec": spec, "limit": limit, "dtype": dt, "prev": prev}
                # byte-string spelling of the same request
                bs = {"k": spec["k"], "v": _replace_auto(spec["v"], "16 B")}
                yield {"shape": list(shape), "spec": bs, "limit": None, "dtype": dt, "prev": None}


def _replace_auto(v, s):
    if isinstance(v, list):
        return [s if e == "auto" else e for e in v]
    if isinstance(v, dict):
        return {k: (s if e == "auto" else e) for k, e in v.items()}
    return s if v == "auto" else v


BYTE_STRINGS = ["1 B", "8B", "16 B", "24B", "64 B", "100B", "0.5kB", "1 KiB", "1kiB", "4 KiB", "1MiB"]
LIMITS = [1, 2, 3, 7, 8, 16, 20, 64, 100, 256, 1000, 4096, 2**16, 2**20]
NDTYPES = ["u1", "i2", "f4", "f8", "c16", "M8[ns]"]


@st.composite
def normalize_case(draw):
    nd = draw(st.sampled_from([0, 1, 1, 2, 2, 2, 3, 3, 4]))
    big = draw(st.booleans())
    sides = [1, 2, 3, 5, 7, 8, 12, 17, 30, 40] if big else [1, 2, 3, 4, 5, 6]
    if draw(st.integers(0, 4)) == 0:
        sides = [0] + sides
    shape = [draw(st.sampled_from(sides)) for _ in range(nd)]
    use_bytes = draw(st.integers(0, 3)) == 0
    bstr = draw(st.sampled_from(BYTE_STRINGS))
    auto_tok = bstr if use_bytes else "auto"
    want_auto = draw(st.integers(0, 7)) > 0

    def elem(i):
        n = shape[i]
        kinds = ["int", "int", "-1", "None", "explicit"] + (["auto"] * 5 if want_auto else [])
        k = draw(st.sampled_from(kinds))
        if k == "int":
            return draw(st.integers(1, max(1, n + 2)))
        if k == "-1":
            return -1
        if k == "None":
            return None
        if k == "auto":
            return auto_tok
        return {"t": draw(C.axis_chunks(n)) if draw(st.integers(0, 9)) else _with_zero(draw, draw(C.axis_chunks(n)))}

    form = draw(st.sampled_from(["tuple", "tuple", "tuple", "list", "dict", "scalar"]))
    if form == "scalar" or nd == 0:
        v = draw(st.sampled_from([1, 2, 3, 5, 100, -1, auto_tok, auto_tok]))
        spec = {"k": "scalar", "v": v}
    elif form == "dict":
        d = {}
        for i in range(nd):
            if draw(st.booleans()):
                d[str(i)] = elem(i)
        spec = {"k": "dict", "v": d}
    else:
        spec = {"k": form, "v": [elem(i) for i in range(nd)]}
    elems = per_dim(spec, nd)
    has_auto = any(is_auto(e) for e in elems)
    limit = None
    if has_auto and not (use_bytes and any(is_auto(e) and e != "auto" for e in elems)):
        limit = draw(st.sampled_from(LIMITS + [None, "64 B", "1 KiB"]))
    prev = None
    if has_auto and draw(st.integers(0, 2)) > 0:
        prev = _single_zero_on_empty_axes(draw(C.shape_chunks(shape, zero_p=0.1)))
    return {"shape": shape, "spec": spec, "limit": limit, "dtype": draw(st.sampled_from(NDTYPES)), "prev": prev}


def _with_zero(draw, parts):
    """Insert one explicit zero-size chunk -- except on a zero-length axis: (0, 0) there is doubly degenerate (rechunk
    returns an all-empty array untouched, whatever the target) and is not explored."""
    if sum(parts) == 0:
        return parts
    pos = draw(st.integers(0, len(parts)))
    return parts[:pos] + [0] + parts[pos:]


def _single_zero_on_empty_axes(chunks):
    """Zero-length axes keep the single chunk (0,) (see _with_zero)."""
    return [[0] if sum(c) == 0 else list(c) for c in chunks]


# --------------------------------------------------------------------------
# rechunk


def resolve_target(target, src_chunks, ndim):
    """What rechunk documents: dict -> missing keys / None keep the source chunks
    (negative keys allowed); tuple/list -> None keeps the source chunks."""
    k = target["k"]
    if k == "scalar":
        return target["v"]
    if k == "dict":
        out = list(src_chunks)
        for a, e in target["v"].items():
            a = int(a) % ndim
            if e is not None:
                out[a] = _elem(e)
        return tuple(out)
    out = []
    for e, s in zip(target["v"], src_chunks):
        out.append(s if e is None else _elem(e))
    return tuple(out)


def check_rechunk(case):
    import dask.array as da
    from dask.array.core import normalize_chunks

    arr = case["array"]
    x = A.build_np(arr)
    d = A.build_da(arr, x)
    nd = x.ndim
    target = case["target"]
    live = live_spec(target, nd)
    elems = per_dim(target, nd) if target["k"] != "dict" else [target["v"].get(str(i), target["v"].get(str(i - nd))) for i in range(nd)]
    bsl = case.get("bsl")
    method = case.get("method")
    balance = bool(case.get("balance"))
    tgt_zero = any(is_explicit(e) and 0 in e["t"] and len(e["t"]) > 1 for e in elems if e is not None)
    sig = dict(
        op="rechunk",
        zero_chunk=A.has_zero_chunk(arr["chunks"]) or tgt_zero,
        method=str(method),
        balance=balance,
        auto=any(is_auto(e) for e in elems),
        empty=x.size == 0,
    )
    # reference target
    resolved = resolve_target(target, C.tt(arr["chunks"]), nd)
    try:
        want = normalize_chunks(resolved, x.shape, limit=bsl, dtype=x.dtype, previous_chunks=C.tt(arr["chunks"]))
    except Exception as e:  # noqa: BLE001
        # normalize_chunks' own defects are the normalize sub-checks' business; the rechunk
        # sub-checks need a well-defined requested chunking
        raise Reject(f"target not normalizable: {e}")
    # balance=True on a dimension whose requested chunks have a median size below 1: a zero-length dimension, or at least
    # half of the (explicit) chunks of zero size
    sig["balance_median_zero"] = balance and any(float(np.median(c)) < 1 for c in want)
    kw = {}
    if case.get("threshold") is not None:
        kw["threshold"] = case["threshold"]
    if bsl is not None:
        kw["block_size_limit"] = bsl
    if balance:
        kw["balance"] = True
    if method is not None:
        kw["method"] = method
    what = f"rechunk({arr['chunks']} -> {live!r}, {kw})"
    if method == "p2p":
        # distributed is not installed: a clean exception is fine, a wrong result is not
        try:
            with time_limit(20, "rechunk p2p", **sig):
                r = d.rechunk(live, **kw)
                got = A.compute(r)
        except Violation:
            raise
        except Exception:  # noqa: BLE001
            count("p2p_clean_failure")
            return
        count("p2p_returned_result")
    else:
        with impl(what, raised=True, **sig), time_limit(30, what, **sig):
            r = d.rechunk(live, **kw)
            got = A.compute(r)
    C.check_chunks_valid(r, what, sig)
    if not balance:
        ensure(r.chunks == want, f"{what}: chunks {r.chunks} != requested {want}", "chunks-not-as-requested", **sig)
    A.same_array(got, x, what=what, sig=sig)
    A.check_meta(r, got, what=what, sig=sig)
    if method != "p2p":
        _count_stages(arr["chunks"], want, x.dtype.itemsize, case.get("threshold"), bsl)


def _count_stages(old, new, itemsize, threshold, bsl):
    from dask.array.rechunk import plan_rechunk

    try:
        steps = plan_rechunk(C.tt(old), C.tt(new), itemsize, threshold, bsl)
    except Exception:  # noqa: BLE001
        return
    if len(steps) >= 2:
        count("multi_stage_plans")


def planner_engaged(old, new, threshold):
    """Structural NT predicate: the graph-size estimate documented in plan_rechunk
    reaches threshold * (#old blocks + #new blocks), so intermediate stages are considered."""
    if len(old) <= 1 or any(0 in c for c in old) or any(0 in c for c in new):
        return False
    est = 1
    for o, n in zip(old, new):
        est *= (len(o) + len(n) - 1) if list(o) != list(n) else len(o)
    return est >= (threshold or 4) * (A.nblocks(old) + A.nblocks(new))


def nt_rechunk(case):
    arr = case["array"]
    nd = len(arr["shape"])
    t = case["target"]
    if t["k"] in ("tuple", "list") and all(is_explicit(e) for e in t["v"]):
        new = [e["t"] for e in t["v"]]
        return planner_engaged(arr["chunks"], new, case.get("threshold"))
    # other spellings: non-trivial when the source is irregular on an axis that is re-chunked
    elems = per_dim(t, nd) if t["k"] != "dict" else [t["v"].get(str(i), t["v"].get(str(i - nd))) for i in range(nd)]
    return any(e is not None and len(set(c)) > 1 for e, c in zip(elems, arr["chunks"]))


def cls_rechunk(case):
    arr = case["array"]
    yield f"ndim-{len(arr['shape'])}"
    yield "target-" + case["target"]["k"]
    yield "method-" + str(case.get("method"))
    if case.get("balance"):
        yield "balance"
    if case.get("threshold") is not None:
        yield "threshold-set"
    if case.get("bsl") is not None:
        yield "block_size_limit-set"
    if A.has_zero_chunk(arr["chunks"]):
        yield "zero-size-chunk-source"
    if 0 in arr["shape"]:
        yield "zero-length-dim"
    if nt_rechunk(case) and case["target"]["k"] in ("tuple", "list"):
        yield "planner-engaged"


def enum_rechunk(tier):
    shapes = [[n] for n in range(1, 7)] + [[3, 3], [4, 2], [2, 2, 2]]
    if tier == "thorough":
        shapes += [[7], [4, 3], [5, 2], [3, 2, 2]]
    i = 0
    for shape in shapes:
        allc = A.all_chunkings(shape)
        for src in allc:
            for tgt in allc:
                i += 1
                arr = {"shape": shape, "dtype": "i8" if i % 2 else "f4", "seed": i % 97, "fill": "arange", "chunks": src}
                target = {"k": "tuple", "v": [{"t": t} for t in tgt]}
                yield {"array": arr, "target": target, "threshold": None, "bsl": None, "balance": False, "method": None}
                if len(shape) > 1:
                    # force the multi-stage planner: tiny growth threshold and a byte limit of two elements
                    yield {"array": arr, "target": target, "threshold": 1, "bsl": 2 * np.dtype(arr["dtype"]).itemsize, "balance": False, "method": "tasks"}


@st.composite
def rechunk_case(draw):
    nd = draw(st.sampled_from([1, 2, 2, 2, 3]))
    style = draw(st.sampled_from(["free", "free", "transpose"]))
    top = {1: 14, 2: 9, 3: 5}[nd]
    shape = [draw(st.integers(0 if draw(st.integers(0, 9)) == 0 else 1, top)) for _ in range(nd)]
    arr = draw(C.arr(shape=shape, dtypes=("i8", "f8", "u1", "c16"), fills=("arange", "small"), zero_p=0.1))
    arr["chunks"] = _single_zero_on_empty_axes(arr["chunks"])
    form = draw(st.sampled_from(["tuple", "tuple", "tuple", "list", "dict", "scalar"]))
    if style == "transpose" and nd >= 2:
        # source fine along axis 0 / coarse along the last axis, target the opposite: the classic multi-stage case
        arr["chunks"][0] = [1] * shape[0] if shape[0] else [0]
        arr["chunks"][-1] = [shape[-1]]
        tgt = [draw(C.axis_chunks(n)) for n in shape]
        tgt[0] = [shape[0]]
        tgt[-1] = [1] * shape[-1] if shape[-1] else [0]
        target = {"k": "tuple", "v": [{"t": t} for t in tgt]}
        return {
            "array": arr, "target": target, "threshold": draw(st.sampled_from([1, 1, 2, None])),
            "bsl": draw(st.sampled_from([None, 1, 8, 16, 32, 64])), "balance": False, "method": draw(st.sampled_from([None, "tasks"])),
        }
    auto_ok = draw(st.integers(0, 3)) == 0

    def elem(i):
        n = shape[i]
        k = draw(st.sampled_from(["explicit", "explicit", "explicit", "int", "-1", "None"] + (["auto", "auto"] if auto_ok else [])))
        if k == "explicit":
            t = draw(C.axis_chunks(n))
            if draw(st.integers(0, 19)) == 0:
                t = _with_zero(draw, t)
            return {"t": t}
        if k == "int":
            return draw(st.integers(1, max(1, n + 1)))
        if k == "-1":
            return -1
        if k == "None":
            return None
        return "auto"

    if form == "scalar":
        target = {"k": "scalar", "v": draw(st.sampled_from([1, 2, 3, 4, -1] + (["auto"] if auto_ok else [])))}
    elif form == "dict":
        v = {}
        for i in range(nd):
            if draw(st.booleans()):
                v[str(i if draw(st.booleans()) else i - nd)] = elem(i)
        target = {"k": "dict", "v": v}
    else:
        target = {"k": form, "v": [elem(i) for i in range(nd)]}
    itemsize = np.dtype(arr["dtype"]).itemsize
    return {
        "array": arr,
        "target": target,
        "threshold": draw(st.sampled_from([None, None, 1, 2, 3])),
        "bsl": draw(st.sampled_from([None, None, itemsize, 2 * itemsize, 5 * itemsize, 16 * itemsize, 1000])),
        "balance": draw(st.integers(0, 5)) == 0,
        "method": draw(st.sampled_from([None, None, "tasks", "tasks", "p2p"])),
    }


# --------------------------------------------------------------------------
# plan_rechunk


def check_plan(case):
    from dask.array.rechunk import plan_rechunk

    old = C.tt(case["old"])
    new = C.tt(case["new"])
    shape = tuple(sum(c) for c in old)
    sig = dict(op="plan_rechunk", zero_chunk=A.has_zero_chunk(case["old"]) or A.has_zero_chunk(case["new"]))
    call = f"plan_rechunk({old} -> {new}, itemsize={case['itemsize']}, threshold={case.get('threshold')}, block_size_limit={case.get('bsl')})"
    with impl(call, raised=True, **sig), time_limit(20, call, **sig):
        steps = plan_rechunk(old, new, case["itemsize"], case.get("threshold"), case.get("bsl"))
    what = f"{call} = {steps}"
    ensure(len(steps) >= 1, what + ": empty plan", "empty-plan", **sig)
    ensure(tuple(map(tuple, steps[-1])) == new, what + ": last stage is not the target", "plan-does-not-end-at-target", **sig)
    for st_ in steps:
        ensure(len(st_) == len(shape), what + ": stage with wrong ndim", "plan-stage-bad-ndim", **sig)
        for dch, n in zip(st_, shape):
            ensure(sum(dch) == n, what + f": stage {st_} does not add up to shape {shape}", "plan-stage-sum-mismatch", **sig)
            ensure(all(isinstance(c, (int, np.integer)) and c >= 0 for c in dch), what + ": negative / non-int stage size", "plan-stage-bad-size", **sig)
            if not sig["zero_chunk"] and n > 0:
                # positive inputs: a zero-size intermediate block would be a chunk nobody asked for
                ensure(all(c > 0 for c in dch), what + f": zero-size chunk in stage {st_}", "plan-stage-zero-chunk", **sig)
    if len(steps) >= 2:
        count("multi_stage_plans")
    if len(steps) >= 3:
        count("plans_with_3plus_stages")


def nt_plan(case):
    return planner_engaged(case["old"], case["new"], case.get("threshold"))


def cls_plan(case):
    yield f"ndim-{len(case['old'])}"
    if nt_plan(case):
        yield "planner-engaged"
    if A.has_zero_chunk(case["old"]) or A.has_zero_chunk(case["new"]):
        yield "zero-size-chunk"


@st.composite
def plan_case(draw):
    nd = draw(st.sampled_from([1, 2, 2, 2, 3, 3, 4]))
    top = {1: 60, 2: 40, 3: 16, 4: 8}[nd]
    shape = [draw(st.integers(1, top)) for _ in range(nd)]
    style = draw(st.sampled_from(["free", "opposed", "opposed"]))
    zp = 0.05
    old = draw(C.shape_chunks(shape, zero_p=zp))
    new = draw(C.shape_chunks(shape, zero_p=zp))
    if style == "opposed":
        for i in range(nd):
            fine = [1] * shape[i] if draw(st.booleans()) else draw(C.axis_chunks(shape[i]))
            coarse = [shape[i]] if draw(st.booleans()) else draw(C.axis_chunks(shape[i], max_parts=2))
            if (i % 2 == 0) == draw(st.integers(0, 4)) > 0:
                old[i], new[i] = fine, coarse
            else:
                old[i], new[i] = coarse, fine
    itemsize = draw(st.sampled_from([1, 2, 4, 8, 16]))
    largest = max(math.prod(max(c) for c in old), math.prod(max(c) for c in new), 1)
    bsl = draw(st.sampled_from([None, 1, itemsize, itemsize * largest, itemsize * largest * 2, itemsize * largest * 5, 10**6]))
    return {"old": old, "new": new, "itemsize": itemsize, "threshold": draw(st.sampled_from([None, 1, 1, 2, 3, 4])), "bsl": bsl}


def enum_plan(tier):
    """All old x new chunkings of a few 2-d / 3-d shapes x planner settings."""
    shapes = [[4, 4], [5, 3], [3, 2, 2]] if tier == "quick" else [[4, 4], [5, 3], [5, 4], [3, 2, 2], [3, 3, 2]]
    for shape in shapes:
        allc = A.all_chunkings(shape)
        for old in allc:
            for new in allc:
                for thr, bsl in ((None, None), (1, 8), (1, 32), (2, 16)):
                    yield {"old": old, "new": new, "itemsize": 8, "threshold": thr, "bsl": bsl}


SUBCHECKS = [
    Sub(
        "normalize-enum", check_normalize, kind="enum", cases=enum_normalize, nontrivial=nt_normalize, classes=cls_normalize,
        exhaustive=True, doc="normalize_chunks over every small shape x per-dimension spec x limit x dtype x previous_chunks chunking",
    ),
    Sub(
        "normalize-random", check_normalize, strategy=lambda tier: normalize_case(), n={"quick": 6000, "thorough": 150000},
        nontrivial=nt_normalize, classes=cls_normalize, doc="normalize_chunks on random shapes / mixed specs / limits / dtypes / previous_chunks",
    ),
    Sub(
        "rechunk-enum", check_rechunk, kind="enum", cases=enum_rechunk, nontrivial=nt_rechunk, classes=cls_rechunk, exhaustive=True,
        doc="rechunk over all source x target chunkings of small 1-d/2-d/3-d shapes, default plan and forced multi-stage plan",
    ),
    Sub(
        "rechunk-random", check_rechunk, strategy=lambda tier: rechunk_case(), n={"quick": 2500, "thorough": 60000},
        nontrivial=nt_rechunk, classes=cls_rechunk, doc="rechunk with random target spellings, threshold, block_size_limit, balance, method",
    ),
    Sub(
        "plan-enum", check_plan, kind="enum", cases=enum_plan, nontrivial=nt_plan, classes=cls_plan, exhaustive=True,
        doc="plan_rechunk over all old x new chunkings of small 2-d/3-d shapes x 4 planner settings",
    ),
    Sub(
        "plan-random", check_plan, strategy=lambda tier: plan_case(), n={"quick": 4000, "thorough": 100000},
        nontrivial=nt_plan, classes=cls_plan, doc="plan_rechunk stages on larger random chunkings (up to 4-d)",
    ),
]
