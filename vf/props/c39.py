"""C39 — joins and concatenation equal pandas.

Anchors: dask/dataframe/dask_expr/_merge.py (Merge._lower, BlockwiseMerge, BroadcastJoin),
_merge_asof.py, _concat.py, dask/dataframe/multi.py.  p2p joins need distributed: unreachable.
"""
from __future__ import annotations

import pandas as pd
from hypothesis import strategies as st

from vf import frames as F
from vf.core import Reject, Sub, Violation, count, impl, reference
from vf.props import _dfcommon2 as C

PROPERTY = "C39"
PRELOAD = ["dask.dataframe"]
LEVEL = "exploration"
RULE = (
    "hyp. merge: two frames (0-25 rows) with key columns k0,k1 of the same kind on both sides (small-range ints, float "
    "keys with NaN, strings, int-vs-float) with heavy duplicates and keys missing on either side, overlapping payload "
    "column names, index of sorted ints with duplicates; 1-5 partitions per side (from_pandas, cuts with empty pieces, "
    "value based splits with known divisions, cleared divisions); how in inner/left/right/outer/leftsemi; on / "
    "left_on+right_on / left_index+right_index / column-vs-index; suffixes, indicator, broadcast None/True/False/0.5, "
    "shuffle_method tasks|disk, npartitions. Oracle: pandas.merge as a multiset of rows (index compared only for "
    "index-on-index joins) + dtypes. merge_asof: sorted int/datetime keys with duplicates, on/left_on+right_on/index, by, "
    "direction, tolerance, allow_exact_matches; oracle pandas.merge_asof in left order. concat: 2-3 frames with partly "
    "different columns, axis 0 (order == pandas unless interleave_partitions reorders by divisions) and axis 1 (unique "
    "index, known divisions; 30 % with every input in one partition), join inner/outer, interleave_partitions, "
    "ignore_unknown_divisions, optionally (28 %) followed by the selection of the first/last result column; zero-row "
    "inputs only as a rare stratum (6-10 % of the concat cases). "
    "Operands as results of programs: in about half of the merge cases one or both operands (concat: each input with 20 %) first "
    "run 1-3 steps: filter with a boolean combination of 2-3 comparisons/isin (a, a&b, a|b, (a&b)|(a&c), (a&b)|c, (a|b)&(a|c), "
    "~(a|b), (a&b)&c), projection that keeps the keys, assign of a new/overwritten payload column, and (merge only) "
    "shuffle(on the join keys, npartitions, max_branch) and repartition(npartitions=n | the other operand's count), incl. the "
    "stratum 'shuffle on the join keys, then repartition'; pandas applies the same filter/projection/assign (shuffle and "
    "repartition do not change the rows). "
    "Non-trivial: both sides have >= 2 partitions, a duplicated key occurs on both sides (many-to-many) and some key is "
    "missing on one side."
)
ASSUMPTIONS = [
    "row order and the index of column-on-column merge results are free (hash partitioned); compared as multisets",
    "dtype differences are accepted only when dask's own _meta announces the computed dtype (empty-partition upcasts)",
    "leftsemi reference: rows of left whose key tuple occurs in right (pandas inner merge against right's distinct keys)",
    "merge_asof inputs are sorted by the asof key and contain no missing keys, as pandas requires",
    "shuffle/repartition steps applied to an operand before the join change only the partitioning, never the rows: the pandas reference ignores them",
    "the lowering strategy (hash / broadcast-left|right / blockwise) is read from the optimized expression only to label failures and evidence counters; it never enters the oracle",
]
TECHNIQUE = "differential testing against pandas.merge / merge_asof / concat on the unpartitioned frames"

KEYK = ("key", "key", "keyna", "str", "int")


def _cfg(method):
    import dask

    return dask.config.set({"dataframe.shuffle.method": method})


def _build(spec):
    pdf = F.build_pdf(spec)
    if spec.get("sort_index", True) and not pdf.index.is_monotonic_increasing:
        pdf = pdf.sort_index(kind="stable")
    return pdf, C.build_ddf(spec, pdf)


# --------------------------------------------------------------------------
# "pre" programs: steps applied to an input BEFORE it is merged/concatenated, so that the join is lowered and optimized
# together with what produced its operands (filters with AND/OR predicates, projections, assigns: optimizer rules that
# rebuild their parent; shuffle/repartition: partitioning knowledge that Merge._lower trusts).  Every step is
# row-preserving or has an obvious pandas twin; shuffle/repartition are no-ops for pandas (row multisets are compared).
_CMP = {"gt": "__gt__", "lt": "__lt__", "ge": "__ge__", "le": "__le__", "ne": "__ne__", "eq": "__eq__"}


def _pred(node, f):
    t = node[0]
    if t == "and":
        return _pred(node[1], f) & _pred(node[2], f)
    if t == "or":
        return _pred(node[1], f) | _pred(node[2], f)
    if t == "not":
        return ~_pred(node[1], f)
    if t == "cmp":
        return getattr(f[node[1]], _CMP[node[2]])(node[3])
    if t == "isin":
        return f[node[1]].isin(list(node[2]))
    raise ValueError(t)


def _expr(node, f):
    t = node[0]
    if t == "add":
        return f[node[1]] + node[2]
    if t == "mul":
        return f[node[1]] * node[2]
    if t == "colsum":
        return f[node[1]] + f[node[2]]
    raise ValueError(t)


def _apply_pre(pdf, ddf, steps, other_n=None):
    """Returns (pdf, ddf, flags); flags['shuffle_then_fewer'] = a hash shuffle was followed by a repartition to FEWER
    partitions (input class of a known finding; read off the collections, never part of the oracle)."""
    flags = {"shuffle_then_fewer": False}
    shuffled = False
    for s in steps:
        k = s["op"]
        if k == "shuffle":
            kw = {"npartitions": s.get("npartitions")}
            if s.get("max_branch"):
                kw["max_branch"] = s["max_branch"]
            ddf = ddf.shuffle(s["on"], shuffle_method="tasks", **kw)
            shuffled = True
        elif k == "repartition":
            n = s["npartitions"]
            n = (other_n or 2) if n == "other" else n
            if shuffled and n < ddf.npartitions:
                flags["shuffle_then_fewer"] = True
            ddf = ddf.repartition(npartitions=n)
        elif k == "filter":
            pdf, ddf = pdf[_pred(s["pred"], pdf)], ddf[_pred(s["pred"], ddf)]
        elif k == "project":
            pdf, ddf = pdf[s["cols"]], ddf[s["cols"]]
        elif k == "assign":
            pdf, ddf = pdf.assign(**{s["name"]: _expr(s["expr"], pdf)}), ddf.assign(**{s["name"]: _expr(s["expr"], ddf)})
        else:
            raise ValueError(k)
    return pdf, ddf, flags


def _pre_label(*programs):
    ops = sorted({s["op"] for p in programs for s in p})
    return "+".join(ops) if ops else "none"


_LEAF_VALUES = {"int": [-20, 0, 20], "key": [0, 1, 2], "keyna": [0, 1, 2], "float": [-5.0, 0.0, 5.0]}


@st.composite
def _leaf(draw, kinds, cols):
    ok = [c for c in cols if kinds.get(c) in _LEAF_VALUES or kinds.get(c) == "str"]
    c = draw(st.sampled_from(ok))
    if kinds[c] == "str":
        return ["isin", c, draw(st.sampled_from([["a", "b"], ["", "ab", "foo"], ["b"]]))]
    if kinds[c] in ("key", "keyna") and draw(st.integers(0, 3)) == 0:
        return ["isin", c, draw(st.sampled_from([[0, 2], [1], [0, 1, 5]]))]
    return ["cmp", c, draw(st.sampled_from(["gt", "gt", "lt", "ge", "le", "ne", "eq"])), draw(st.sampled_from(_LEAF_VALUES[kinds[c]]))]


@st.composite
def predicate(draw, kinds, cols):
    """Boolean combinations of 2-3 leaves; the shapes include disjunctions of conjunctions that SHARE a term
    ((A&B)|(A&C): the optimizer factors A out and rebuilds the consumer of the filter)."""
    a, b, c = (draw(_leaf(kinds, cols)) for _ in range(3))
    shape = draw(st.sampled_from(["a", "and", "or", "or-of-and-shared", "or-of-and-shared", "or-of-and", "and-of-or", "not-or", "and-and"]))
    return {
        "a": a, "and": ["and", a, b], "or": ["or", a, b],
        "or-of-and-shared": ["or", ["and", a, b], ["and", a, c]],
        "or-of-and": ["or", ["and", a, b], c],
        "and-of-or": ["and", ["or", a, b], ["or", a, c]],
        "not-or": ["not", ["or", a, b]],
        "and-and": ["and", ["and", a, b], c],
    }[shape]


@st.composite
def pre_program(draw, fs, keep=(), shuffle_on=None, partitioning=True, max_steps=3):
    """1-3 steps for the frame spec ``fs``; columns in ``keep`` are never dropped or overwritten; ``shuffle_on``: the
    join keys (a shuffle on exactly these columns is what Merge._lower recognises as 'already partitioned')."""
    kinds = {c["name"]: c["kind"] for c in fs["columns"]}
    cols = [c["name"] for c in fs["columns"]]
    steps = []
    menu = ["filter", "filter", "filter", "project", "assign"] + (["shuffle", "repartition"] if partitioning else [])
    for _ in range(draw(st.integers(1, max_steps))):
        k = draw(st.sampled_from(menu))
        numeric = [c for c in cols if kinds.get(c) in ("int", "key", "float", "keyna")]
        if k == "filter" and any(kinds.get(c) in _LEAF_VALUES or kinds.get(c) == "str" for c in cols):
            steps.append({"op": "filter", "pred": draw(predicate(kinds, cols))})
        elif k == "project":
            free = [c for c in cols if c not in keep]
            if len(free) >= 1 and len(cols) >= 2:
                drop = draw(st.sampled_from(free))
                cols = [c for c in cols if c != drop]
                steps.append({"op": "project", "cols": list(cols)})
        elif k == "assign" and numeric:
            src = draw(st.sampled_from(numeric))
            free = [c for c in numeric if c not in keep]
            name = draw(st.sampled_from(["z"] + free[:1]))
            ex = draw(st.sampled_from([["add", src, 1], ["mul", src, 2], ["colsum", src, numeric[0]]]))
            steps.append({"op": "assign", "name": name, "expr": ex})
            if name not in cols:
                cols.append(name)
            floaty = {kinds[src]} | ({kinds[ex[2]]} if ex[0] == "colsum" else set())
            kinds[name] = "float" if floaty & {"float", "keyna"} else "int"
        elif k == "shuffle" and shuffle_on:
            steps.append({"op": "shuffle", "on": draw(st.sampled_from([list(shuffle_on), list(shuffle_on), list(keep)[:1]])), "npartitions": draw(st.sampled_from([None, None, 3, 4, 6])),
                          "max_branch": draw(st.sampled_from([None, None, 2]))})
        elif k == "repartition":
            steps.append({"op": "repartition", "npartitions": draw(st.sampled_from(["other", 1, 2, 3, 5]))})
    return steps


def _merge_kwargs(op):
    kw = dict(how=op["how"], suffixes=tuple(op["suffixes"]))
    m = op["mode"]
    if m == "on":
        kw["on"] = op["keys"]
    elif m == "left_on":
        kw["left_on"] = op["keys"]
        kw["right_on"] = ["r" + k for k in op["keys"]]
    elif m == "index":
        kw.update(left_index=True, right_index=True)
    elif m == "left_on_right_index":
        kw.update(left_on=op["keys"][0], right_index=True)
    else:
        kw.update(left_index=True, right_on=op["keys"][0])
    return kw


def _strategy(out):
    """How dask lowers this merge: a label for the failure signature and the evidence counters, never part of the
    oracle.  'broadcast-side-flipped': the BroadcastJoin node broadcasts the other side than the one Merge chose."""
    try:
        top = next((n for n in out.expr.walk() if type(n).__name__ == "Merge"), None)
        for n in out.optimize(fuse=False).expr.walk():
            nm = type(n).__name__
            if nm == "BroadcastJoin":
                # the side that is NOT broadcast is hash-split per partition; is it joined on its index?
                other_on_index = bool(n.right_index if n.broadcast_side == "left" else n.left_index)
                if top is not None and top.broadcast_side != n.broadcast_side:
                    return "broadcast-side-flipped", other_on_index
                return "broadcast-" + n.broadcast_side, other_on_index
            if nm == "HashJoinP2P":
                return "p2p", False
            if nm == "BlockwiseMerge":
                return ("hash" if any("Shuffle" in type(m).__name__ for m in n.walk()) else "blockwise"), False
    except Exception:  # noqa: BLE001 - label only; the failure itself is reported by the compute below
        return "unknown", False
    return "other", False


@C.sync_scheduler
def check_merge(spec):
    import dask.dataframe as dd

    op = spec["op"]
    with C.quiet():
        lp, ld = _build(spec["left"])
        rp, rd = _build(spec["right"])
        nl, nr = ld.npartitions, rd.npartitions
        lp, ld, lflags = _apply_pre(lp, ld, spec["left"].get("pre", []), other_n=nr)
        rp, rd, rflags = _apply_pre(rp, rd, spec["right"].get("pre", []), other_n=nl)
        if op["mode"] == "left_on":
            ren = {k: "r" + k for k in op["keys"]}
            rp, rd = rp.rename(columns=ren), rd.rename(columns=ren)
    kw = _merge_kwargs(op)
    how = op["how"]
    sig = dict(op="merge", how=how, mode=op["mode"], broadcast=str(op["broadcast"]), method=op["method"])
    # input-class labels: which kinds of steps produced the operands; was a hash shuffle followed by a repartition to fewer partitions
    sig["pre"] = _pre_label(spec["left"].get("pre", []), spec["right"].get("pre", []))
    sig["shuffle_then_fewer"] = lflags["shuffle_then_fewer"] or rflags["shuffle_then_fewer"]
    with C.quiet():
        if how == "leftsemi":
            lk = op["keys"]
            rk = ["r" + k for k in lk] if op["mode"] == "left_on" else lk
            keys = rp[rk].drop_duplicates().rename(columns=dict(zip(rk, lk)))
            status, want = reference(lambda: lp.reset_index().merge(keys, on=lk, how="inner").set_index(lp.index.name or "index")[list(lp.columns)])
        else:
            status, want = reference(pd.merge, lp, rp, indicator=op["indicator"], **kw)
    if status == "err":
        raise Reject(f"pandas rejects: {want}")
    dkw = dict(kw, shuffle_method=op["method"], broadcast=op["broadcast"], npartitions=op.get("npartitions"))
    if how != "leftsemi":
        dkw["indicator"] = op["indicator"]
    with impl("merge", **sig), C.quiet(), _cfg(op["method"]):
        out = dd.merge(ld, rd, **dkw)
        sig["strategy"], sig["bcast_other_on_index"] = _strategy(out)
    count("strategy-" + sig["strategy"])
    with impl("merge", **sig), C.quiet(), _cfg(op["method"]):
        got = F.compute(out)
    with_index = op["mode"] == "index"
    C.same_rows(got, want, what=f"merge({kw}, broadcast={op['broadcast']}) of {ld.npartitions}x{rd.npartitions} partitions", sig=sig, with_index=with_index, meta=out._meta)


def _nparts(fs):
    p = fs["partition"]
    if p["how"] == "bydivs":
        return len(set(p["pos"])) + 1
    if p["how"] == "cuts":
        return len(p["cuts"]) + 1
    return min(p["n"], max(fs["nrows"], 1)) if p["how"] == "npartitions" else -(-fs["nrows"] // max(p["n"], 1))


def nt_merge(spec):
    return _nparts(spec["left"]) >= 2 and _nparts(spec["right"]) >= 2 and spec["left"]["nrows"] >= 6 and spec["right"]["nrows"] >= 6


def cls_merge(spec):
    op = spec["op"]
    yield "how-" + op["how"]
    yield "mode-" + op["mode"]
    yield "broadcast-" + str(op["broadcast"])
    yield "method-" + op["method"]
    yield "keykind-" + spec["left"]["columns"][0]["kind"] + "/" + spec["right"]["columns"][0]["kind"]
    for side in ("left", "right"):
        yield side + "-" + spec[side]["partition"]["how"] + ("-cleared" if spec[side]["partition"].get("clear") else "")
    yield from _cls_pre([spec["left"].get("pre", []), spec["right"].get("pre", [])])


def _cls_pre(programs):
    if not any(programs):
        yield "pre-none"
    for prog in programs:
        ops = [s["op"] for s in prog]
        for o in sorted(set(ops)):
            yield "pre-" + o
        if "shuffle" in ops and "repartition" in ops[ops.index("shuffle"):]:
            yield "pre-shuffle-then-repartition"
        for s in prog:
            if s["op"] == "filter" and s["pred"][0] == "or" and s["pred"][1][0] == "and" and s["pred"][2][0] == "and":
                yield "pre-filter-or-of-and-shared"


@st.composite
def side_spec(draw, kinds, payload, max_rows=25):
    req = [dict(k) for k in kinds]
    spec = draw(F.frame_spec(min_rows=0, max_rows=max_rows, kinds=("int", "float", "str"), min_cols=1, max_cols=1, index_kinds=("sorted_dups", "sorted_dups", "range"), required=req))
    spec["columns"][-1]["name"] = "c"
    spec["columns"].append({"name": payload, "kind": "int"})
    spec["index"]["name"] = None
    if draw(st.integers(0, 9)) < 6:
        spec["nrows"] = max(spec["nrows"], draw(st.integers(6, 16)))
    if spec["nrows"] and draw(st.integers(0, 9)) < 3:
        spec["partition"] = draw(C.bydivs_partition(spec["nrows"]))
    elif draw(st.integers(0, 9)) < 4:
        spec["partition"] = {"how": "npartitions", "n": draw(st.integers(2, 5)), "sort": True}
    if draw(st.integers(0, 9)) < 2:
        spec["partition"]["clear"] = True
    return spec


@st.composite
def merge_case(draw):
    k0 = draw(F.column_spec("k0", KEYK))
    k1 = draw(F.column_spec("k1", ("key", "str")))
    for k in (k0, k1):
        k["card"] = draw(st.sampled_from([2, 3, 6]))
    r0 = dict(k0)
    if k0["kind"] == "key" and draw(st.integers(0, 4)) == 0:
        r0 = {"name": "k0", "kind": "keyna", "card": k0["card"], "nan": 0.2}  # int keys left, float keys (NaN) right
    left = draw(side_spec([k0, k1], "d"))
    right = draw(side_spec([r0, dict(k1)], "e"))
    how = draw(st.sampled_from(["inner", "left", "right", "outer", "leftsemi"]))
    mode = draw(st.sampled_from(["on", "on", "left_on", "index", "left_on_right_index", "left_index_right_on"] if how != "leftsemi" else ["on", "left_on"]))
    keys = draw(st.sampled_from([["k0"], ["k0"], ["k0", "k1"], ["k1"]]))
    if mode in ("left_on_right_index", "left_index_right_on"):
        keys = ["k0"]
        # the key column is matched against an int index
        for s in (left, right):
            s["columns"][0] = {"name": "k0", "kind": "key", "card": 6}
    op = {
        "how": how, "mode": mode, "keys": keys,
        "suffixes": draw(st.sampled_from([["_x", "_y"], ["_l", "_r"], ["", "_r"]])),
        "indicator": draw(st.sampled_from([False, False, True])),
        "broadcast": draw(st.sampled_from([None, None, True, False, 0.5])),
        "method": draw(st.sampled_from(["tasks", "tasks", "disk"])),
        "npartitions": draw(st.sampled_from([None, None, 1, 3])),
    }
    # ~45 % of the cases: one or both operands are the result of a small program
    which = draw(st.sampled_from(["none", "none", "none", "none", "none", "left", "left", "right", "right", "both", "shuffle-repartition"]))
    skeys = keys if mode in ("on", "left_on") else ["k0"]
    if which in ("left", "both"):
        left["pre"] = draw(pre_program(left, keep=("k0", "k1"), shuffle_on=skeys))
    if which in ("right", "both"):
        right["pre"] = draw(pre_program(right, keep=("k0", "k1"), shuffle_on=skeys))
    if which == "shuffle-repartition":
        # one operand hash-shuffled on the join keys, then coalesced (often to the partition count of the other operand)
        side = draw(st.sampled_from([left, right]))
        side["pre"] = [{"op": "shuffle", "on": list(skeys), "npartitions": draw(st.sampled_from([None, 4, 6])), "max_branch": None},
                       {"op": "repartition", "npartitions": draw(st.sampled_from(["other", "other", 2, 3]))}]
    return {"left": left, "right": right, "op": op}


# --------------------------------------------------------------------------
@C.sync_scheduler
def check_asof(spec):
    import dask.dataframe as dd

    op = spec["op"]
    with C.quiet():
        lp, _ = _build(dict(spec["left"], partition={"how": "npartitions", "n": 1}))
        rp, _ = _build(dict(spec["right"], partition={"how": "npartitions", "n": 1}))
        if op["mode"] != "index":
            # asof keys are ordinary columns: sorted, NaN free; index is a plain range
            lp = lp.sort_values("t", kind="stable").reset_index(drop=True)
            rp = rp.sort_values("t", kind="stable").reset_index(drop=True)
        else:
            lp, rp = lp.drop(columns="t"), rp.drop(columns="t")
        ld = C.build_ddf(dict(spec["left"], index={"kind": "range"}) if op["mode"] != "index" else spec["left"], lp)
        rd = C.build_ddf(dict(spec["right"], index={"kind": "range"}) if op["mode"] != "index" else spec["right"], rp)
    kw = dict(direction=op["direction"], allow_exact_matches=op["exact"], suffixes=("_x", "_y"))
    if op["tolerance"] is not None:
        kw["tolerance"] = pd.Timedelta(hours=op["tolerance"]) if spec["left"]["tkind"] == "datetime" else op["tolerance"]
    if op["by"]:
        kw["by"] = "k0"
    if op["mode"] == "on":
        kw["on"] = "t"
    elif op["mode"] == "left_on":
        rp, rd = rp.rename(columns={"t": "rt"}), rd.rename(columns={"t": "rt"})
        kw.update(left_on="t", right_on="rt")
    else:
        kw.update(left_index=True, right_index=True)
    sig = dict(op="merge_asof", mode=op["mode"], direction=op["direction"], by=bool(op["by"]))
    with C.quiet():
        status, want = reference(pd.merge_asof, lp, rp, **kw)
    if status == "err":
        raise Reject(f"pandas rejects: {want}")
    try:
        with impl("merge_asof", **sig), C.quiet(), _cfg("tasks"):
            out = dd.merge_asof(ld, rd, **kw)
            got = F.compute(out)
    except Violation as v:
        if "merge_asof input must be sorted" in v.message and not (ld.known_divisions and rd.known_divisions):
            raise Reject("index merge_asof needs known divisions (documented error)") from None
        raise
    C.same_rows(got, want, what=f"merge_asof({kw}) of {ld.npartitions}x{rd.npartitions} partitions", sig=sig, with_index=op["mode"] == "index", ordered=True, meta=out._meta)


def nt_asof(spec):
    return _nparts(spec["left"]) >= 2 and _nparts(spec["right"]) >= 2 and spec["left"]["nrows"] >= 5 and spec["right"]["nrows"] >= 5


def cls_asof(spec):
    op = spec["op"]
    yield "mode-" + op["mode"]
    yield "direction-" + op["direction"]
    yield "by" if op["by"] else "no-by"
    yield "tolerance" if op["tolerance"] is not None else "no-tolerance"
    yield "t-" + spec["left"]["tkind"]


@st.composite
def asof_case(draw):
    tkind = draw(st.sampled_from(["int", "datetime"]))
    mode = draw(st.sampled_from(["on", "on", "left_on", "index"]))
    ikind = {"int": "sorted_dups", "datetime": "datetime"}[tkind] if mode == "index" else "range"
    sides = []
    for payload in ("d", "e"):
        tcol = {"name": "t", "kind": "key" if tkind == "int" else "datetime", "card": 12}
        s = draw(F.frame_spec(min_rows=1, max_rows=20, kinds=("int", "float"), min_cols=1, max_cols=1, index_kinds=(ikind,), allow_cuts=False,
                              required=[tcol, {"name": "k0", "kind": "key", "card": 2}]))
        s["columns"][-1]["name"] = payload
        s["index"]["name"] = None
        s["tkind"] = tkind
        if draw(st.booleans()):
            s["partition"] = {"how": "npartitions", "n": draw(st.integers(2, 4)), "sort": True}
        sides.append(s)
    op = {"mode": mode, "direction": draw(st.sampled_from(["backward", "forward", "nearest"])), "exact": draw(st.sampled_from([True, True, False])),
          "tolerance": draw(st.sampled_from([None, None, 1, 3])), "by": draw(st.sampled_from([False, False, True]))}
    return {"left": sides[0], "right": sides[1], "op": op}


# --------------------------------------------------------------------------
@C.sync_scheduler
def check_concat(spec):
    import dask.dataframe as dd

    op = spec["op"]
    with C.quiet():
        built = [_apply_pre(*_build(fs), fs.get("pre", [])) for fs in spec["frames"]]
    pdfs = [b[0] for b in built]
    ddfs = [b[1] for b in built]
    axis, join = op["axis"], op["join"]
    sig = dict(op="concat", axis=axis, join=join, interleave=bool(op["interleave"]), projected=bool(op.get("project")), empty_input=any(len(p) == 0 for p in pdfs),
               pre=_pre_label(*[fs.get("pre", []) for fs in spec["frames"]]))
    if axis == 1:
        if not all(p.index.is_unique for p in pdfs) or not all(d.known_divisions for d in ddfs):
            raise Reject("axis=1 needs unique index (pandas) and known divisions (dask, documented)")
        pdfs = [p.rename(columns={c: f"{c}{i}" for c in p.columns}) for i, p in enumerate(pdfs)]
        ddfs = [d.rename(columns={c: f"{c}{i}" for c in d.columns}) for i, d in enumerate(ddfs)]
    with C.quiet():
        status, want = reference(pd.concat, pdfs, axis=axis, join=join)
    if status == "err":
        raise Reject(f"pandas rejects: {want}")
    # optional column selection on the result (a one-step program: the optimizer pushes it into the inputs)
    proj = None
    if op.get("project") and len(want.columns):
        proj = [want.columns[0] if op["project"] == "first" else want.columns[-1]]
        want = want[proj]
    all_known = all(d.known_divisions for d in ddfs)
    ordered_divs = all_known and all(a.divisions[-1] < b.divisions[0] for a, b in zip(ddfs, ddfs[1:]))
    try:
        with impl("concat", **sig), C.quiet():
            out = dd.concat(ddfs, axis=axis, join=join, interleave_partitions=op["interleave"], ignore_unknown_divisions=op["ignore_unknown"])
            if proj is not None:
                out = out[proj]
            got = F.compute(out)
    except Violation as v:
        if axis == 0 and all_known and not ordered_divs and not op["interleave"] and "interleave_partitions=True" in v.message:
            count("documented-refusal-unordered-divisions")
            raise Reject("documented ValueError") from None
        raise
    # axis 0: dask stacks the inputs in order, like pandas, unless interleave_partitions merges overlapping divisions
    ordered = axis == 0 and not (op["interleave"] and all_known and not ordered_divs)
    sig["ordered"] = ordered
    C.same_rows(got, want, what=f"concat(axis={axis}, join={join}, interleave={op['interleave']}) of {[d.npartitions for d in ddfs]} partitions, divisions known={all_known}", sig=sig, with_index=True, ordered=ordered, meta=out._meta)


def nt_concat(spec):
    return sum(_nparts(f) >= 2 for f in spec["frames"]) >= 2 and len({tuple(c["name"] for c in f["columns"]) for f in spec["frames"]}) >= 2


def cls_concat(spec):
    op = spec["op"]
    yield f"axis-{op['axis']}-{op['join']}"
    yield "interleave" if op["interleave"] else "no-interleave"
    yield "projected" if op.get("project") else "not-projected"
    if any(f["nrows"] == 0 for f in spec["frames"]):
        yield "empty-input"
    if op["axis"] == 1 and all(f["partition"].get("n") == 1 and f["partition"]["how"] == "npartitions" for f in spec["frames"]):
        yield "axis-1-all-single-partition"
    yield f"nframes-{len(spec['frames'])}"
    for f in spec["frames"]:
        yield "src-" + f["partition"]["how"] + ("-cleared" if f["partition"].get("clear") else "")
    yield from _cls_pre([f.get("pre", []) for f in spec["frames"]])


@st.composite
def concat_case(draw):
    axis = draw(st.sampled_from([0, 0, 1]))
    n = draw(st.integers(2, 3))
    ikind = draw(st.sampled_from(["sorted_unique", "range"] if axis == 1 else ["sorted_dups", "sorted_unique", "range", "str"]))
    frames = []
    for _ in range(n):
        fs = draw(F.frame_spec(min_rows=1, max_rows=16, kinds=("int", "float", "str", "key"), min_cols=1, max_cols=3, index_kinds=(ikind,), allow_cuts=axis == 0))
        # partly different column sets: drop a prefix of the generated names
        if len(fs["columns"]) > 1 and draw(st.booleans()):
            fs["columns"] = fs["columns"][1:]
        fs["index"]["name"] = None
        if axis == 0 and draw(st.sampled_from(range(20))) == 19:
            # zero-row input: a separate, rare stratum (measured: 6-10 % of all concat cases; sig flag empty_input).  sampled_from,
            # not integers(): Hypothesis draws the bounds of an integer range far more often than 1/n
            fs["nrows"] = 0
        if fs["nrows"] and draw(st.integers(0, 9)) < 4:
            fs["partition"] = draw(C.bydivs_partition(fs["nrows"]))
        elif axis == 0 and draw(st.integers(0, 9)) < 2:
            fs["partition"]["clear"] = True
        if draw(st.sampled_from(range(10))) < 2:
            # the input is the result of a small row-order preserving program (filter with AND/OR predicate, projection, assign)
            fs["pre"] = draw(pre_program(fs, partitioning=False, max_steps=2))
        frames.append(fs)
    if axis == 1 and draw(st.integers(0, 9)) < 3:
        # every input in ONE partition: dask concatenates them blockwise (ConcatIndexed) instead of aligning divisions
        for fs in frames:
            fs["partition"] = {"how": "npartitions", "n": 1, "sort": True}
    return {"frames": frames, "op": {"axis": axis, "join": draw(st.sampled_from(["outer", "outer", "inner"])), "interleave": draw(st.booleans()), "ignore_unknown": draw(st.booleans()),
                                     "project": draw(st.sampled_from([None, None, None, None, None, "first", "last"]))}}


def check_concat_ranges(case):
    """axis-0 concat of frames with KNOWN divisions whose index ranges are strictly ordered, touch (last index of one == first
    index of the next) or overlap: rows == pandas.concat, and when the result claims known divisions they are truthful
    (every partition's index inside its division interval).  Touching / overlapping ranges without interleave_partitions are
    refused with the documented ValueError."""
    import dask.dataframe as dd
    from vf.props import _dfcommon2 as C2

    pdfs, lo = [], 0
    for i, (length, gap) in enumerate(zip(case["lengths"], [0] + case["gaps"])):
        lo = lo + gap if i else 0
        idx = list(range(lo, lo + length))
        pdfs.append(pd.DataFrame({"v": [10 * i + j for j in range(length)], "w": [float(j) for j in range(length)]}, index=idx))
        lo = idx[-1]
    ordered = all(a.index[-1] < b.index[0] for a, b in zip(pdfs, pdfs[1:]))
    touching = not ordered and all(a.index[-1] <= b.index[0] for a, b in zip(pdfs, pdfs[1:]))
    sig = dict(op="concat", axis=0, interleave=bool(case["interleave"]), known_ranges="ordered" if ordered else ("touching" if touching else "overlapping"))
    with C.quiet():
        ddfs = [dd.from_pandas(p, npartitions=n, sort=True) for p, n in zip(pdfs, case["nparts"])]
    want = pd.concat(pdfs)
    try:
        with impl("concat", **sig), C.quiet():
            out = dd.concat(ddfs, interleave_partitions=case["interleave"])
            got = F.compute(out)
    except Violation as v:
        if not ordered and not case["interleave"] and "interleave_partitions=True" in v.message:
            count("documented-refusal-unordered-divisions")
            return
        raise
    C.same_rows(got, want, what=f"concat of known ranges {[(int(p.index[0]), int(p.index[-1])) for p in pdfs]} (interleave={case['interleave']})", sig=sig, with_index=True, ordered=ordered, meta=out._meta)
    if out.known_divisions:
        with impl("partitions of the concat result", **sig), C.quiet():
            C2.check_divisions_truthful(out, f"concat of known ranges {[(int(p.index[0]), int(p.index[-1])) for p in pdfs]} (interleave={case['interleave']})", sig)


def concat_range_cases(tier):
    import itertools

    for nframes in (2, 3):
        for gaps in itertools.product((-2, 0, 1, 3), repeat=nframes - 1):
            for nparts in itertools.product((1, 2), repeat=nframes):
                for inter in (False, True):
                    yield {"lengths": [5, 4, 6][:nframes], "gaps": list(gaps), "nparts": list(nparts), "interleave": inter}


SUBCHECKS = [
    Sub("merge", check_merge, strategy=lambda tier: merge_case(), n={"quick": 900, "thorough": 20000}, nontrivial=nt_merge, classes=cls_merge,
        doc="merge/join == pandas.merge as row multisets (+dtypes), hash/broadcast/index-aligned strategies"),
    Sub("merge_asof", check_asof, strategy=lambda tier: asof_case(), n={"quick": 400, "thorough": 8000}, nontrivial=nt_asof, classes=cls_asof,
        doc="merge_asof == pandas.merge_asof (left order)"),
    Sub("concat-ranges", check_concat_ranges, kind="enum", cases=concat_range_cases, nontrivial=lambda c: 0 in c["gaps"] or -2 in c["gaps"], classes=lambda c: ["gaps" + str(sorted(set(c["gaps"])))], exhaustive=True,
        doc="axis-0 concat of 2-3 frames with known divisions whose index ranges overlap / touch / are adjacent / apart x partition counts x interleave_partitions: rows == pandas, claimed divisions truthful, documented refusal otherwise"),
    Sub("concat", check_concat, strategy=lambda tier: concat_case(), n={"quick": 500, "thorough": 10000}, nontrivial=nt_concat, classes=cls_concat,
        doc="concat axis 0/1, join inner/outer, interleave_partitions == pandas.concat"),
]
