"""C36 - row-wise and elementwise DataFrame operations equal pandas.

A case is a frame spec (vf.frames) x a partitioning x a pipeline of 1-3 typed
operations (vf.props._dfcommon1).  The *same* program (``apply_op``) runs on the
pandas frame and on the dask frame; the computed dask result must be the same
object as the pandas result: kind, columns, dtypes, index, values, row order.

Freedoms that are NOT turned into alarms (each is documented dask behaviour or
pandas itself being ambiguous):

* aligning with an object that comes from ANOTHER partitioning when one side has
  unknown divisions: dask documents that it then has to shuffle (hash partition)
  both sides, so the row order of the result is not promised; it may also refuse
  (raise).  Checked: it raises, or the result is the pandas result up to row order.
  With known divisions on both sides the comparison is exact, order included.
* the same situation with a non-unique index is outside the domain: pandas itself
  only handles it because both operands share one identical index object.
* programs pandas rejects are outside the domain (Reject).
* ``NotImplementedError`` raised by dask while *building* the graph is a documented
  refusal, not a wrong result (Reject, counted).
"""
from __future__ import annotations

import warnings

import pandas as pd
from hypothesis import strategies as st

from vf import frames as F
from vf.core import Reject, Sub, Violation, count, impl, reference
from vf.props import _dfcommon1 as D

PROPERTY = "C36"
PRELOAD = ["dask.dataframe"]
LEVEL = "exploration"
RULE = (
    "random: vf.frames.frame_spec frames (0-30 rows, 2-5 columns of kinds int/float/bool/str/object/datetime/categorical/"
    "Int64/Float64/boolean/low-cardinality keys, six index kinds incl. duplicates and unsorted) x partitioning "
    "(from_pandas npartitions/chunksize, hand cuts via from_map with EMPTY partitions, with/without divisions, optional "
    "clear_divisions) x a pipeline of 1-3 operations from a typed grammar: projection, boolean filter (column predicates, "
    "predicates against a reduction such as df[df.a > df.a.max()]), assign (new and shadowing, scalar and expression), "
    "column arithmetic/comparison/logic, frame (op) scalar / frame.add(series, axis=0) / frame (op) frame, a series or "
    "frame coming from ANOTHER partitioning of the same index, astype, fillna (scalar, dict, reduction of the frame), where/mask, "
    "isin (list, dict per column), filter predicates on shift/diff/ffill/bfill of a column, clip, Series.map/apply and "
    "DataFrame.map/apply(axis=1) with meta, rename, abs/neg/round, .str (upper/lower/len/contains/startswith/slice/cat/"
    "getitem/replace/zfill), .dt (year/dayofweek/hour/floor/ceil/normalize), .cat (codes/as_known/as_ordered/"
    "add_categories/rename_categories). Oracle: the same program on the pandas frame. Non-trivial: >= 3 partitions one of "
    "which is empty, or a non-unique index with >= 2 partitions and a pipeline of >= 2 operations."
)
ASSUMPTIONS = [
    "pandas 3.0 (python-backed str dtype) on the whole frame is the reference; warnings are ignored",
    "from_pandas(sort=True) on an unsorted index may order equal labels freely: the reference input is then ddf.compute(), "
    "checked to be a sorted permutation of the pandas frame",
    "alignment with unknown divisions may raise or lose row order (documented shuffle), never values",
    "predicates compare against reductions only where the reduction is independent of summation order",
]
TECHNIQUE = "differential testing against pandas with Hypothesis-generated frames, partitionings and typed operation pipelines"


D_SEQ = ("shift", "diff", "ffill", "bfill")


def flags(ops, case):
    """Structural input classes (booleans) used to key known findings: an operation whose
    expression is rewritten when a later step selects columns ("..._then"), and friends."""
    head = ops[:-1]
    assigned = [n for o in ops if o["op"] == "assign" for n in [o["name"]] + [m[0] for m in o.get("more", [])]]
    foreign = [i for i, o in enumerate(ops) if o["op"] == "assign" and (D.uses(o, "other") or D.uses(o, "root"))]
    return dict(
        frame_where_then=any(o["op"] in ("where", "mask") for o in head),
        frame_methodop_then=any(o["op"] == "frame_bin" and o.get("method") and o["fn"] not in D.CMP for o in head),
        frame_cmpmethod_then=any(o["op"] == "frame_bin" and o.get("method") and o["fn"] in D.CMP for o in head),
        frame_frame_then=any(o["op"] == "frame_frame" for o in head),
        fmap_then=any(o["op"] == "fmap" for o in head),
        fillna_dict_then=any(o["op"] == "fillna" and isinstance(o["value"], dict) and "red" not in o["value"] for o in head),
        # df.fillna(df.max()) / df.isin({col: values}) followed by a later step (e.g. a column selection)
        fillna_red_then=any(o["op"] == "fillna" and isinstance(o["value"], dict) and "red" in o["value"] for o in head),
        isin_dict_then=any(o["op"] == "isin" and isinstance(o["values"], dict) for o in head),
        # a filter applied to the result of a frame-level astype (the predicate sees the CONVERTED columns)
        astype_then_filter=any(o["op"] == "filter" and any(q["op"] == "astype" for q in ops[:i]) for i, o in enumerate(ops)),
        # a filter whose predicate looks at neighbouring rows (shift/diff/ffill/bfill), applied to an already filtered frame
        seq_pred_after_filter=any(
            o["op"] == "filter" and any(n.get("e") == "meth" and n.get("m") in D_SEQ for n in D.walk(o["pred"])) and any(q["op"] == "filter" for q in ops[:i])
            for i, o in enumerate(ops)
        ),
        # string concatenation `str column + "literal"` somewhere in the program (pandas evaluates it to OBJECT dtype on
        # a zero-row str series and to str on any other, so a partition without rows yields another dtype)
        str_plus_literal=any(
            n.get("e") == "bin" and n.get("op") == "add" and isinstance(n.get("r"), dict) and n["r"].get("e") == "lit" and isinstance(n["r"].get("v"), str)
            for n in D.walk(ops)
        ),
        assign_twice=len(set(assigned)) < len(assigned),
        # a column converted with astype('category') (lazily: unknown categories; computed: per-partition categories)
        # in a frame that a LATER step aligns with an object of another partitioning
        astype_category_then_other=any(
            o["op"] == "astype" and "category" in dict(o["dtypes"].get("dict", [])).values() and any(D.uses(q, "other") for q in ops[i + 1:])
            for i, o in enumerate(ops)
        ),
        assign_other_then=any(o["op"] == "assign" and D.uses(o, "other") for o in head),
        # a filter whose predicate comes from ANOTHER partitioning (FilterAlign), followed by a later step (e.g. a
        # column selection) / by a later filter
        filter_other_then=any(o["op"] == "filter" and D.uses(o["pred"], "other") for o in head),
        filter_other_then_filter=any(
            o["op"] == "filter" and D.uses(o["pred"], "other") and any(q["op"] == "filter" for q in ops[i + 1:]) for i, o in enumerate(ops)
        ),
        # a series of another collection / of the unfiltered frame assigned into a frame that may have an
        # empty partition (one was empty from the start, or a filter ran before)
        assign_foreign_maybe_empty=any(case.has_empty or any(o["op"] == "filter" for o in ops[:i]) for i in foreign),
        cmp_method_other=any(
            o["op"] == "frame_bin" and o.get("method") and o["fn"] in D.CMP and (D.uses(o["other"], "other") or D.uses(o["other"], "root"))
            for o in ops
        ),
    )


def align_flags(case, envd):
    """How the operands of an alignment are partitioned: every one in a single partition / some with known and some
    with unknown divisions."""
    known = [bool(case.known_div)] + [k for _, k in envd.others]
    return dict(
        align_single_partitions=bool(envd.others) and case.nparts == 1 and all(n == 1 for n, _ in envd.others),
        align_known_unknown_mix=bool(envd.others) and len(set(known)) > 1,
    )


def same_nparts(case, envd):
    """Both operands of an alignment have UNKNOWN divisions and the same number of partitions."""
    return (not case.known_div) and any(n == case.nparts and not known for n, known in envd.others)


def check(spec):
    ops = spec["ops"]
    case = D.build_case(spec["frame"], spec.get("clear_div", False))
    envp, envd = D.Env(case, "pd"), D.Env(case, "dd")
    with warnings.catch_warnings():
        warnings.simplefilter("ignore")
        status, want = reference(D.run_pipeline, case.base, ops, envp)
        if status == "err":
            raise Reject(f"pandas rejects the program: {want!r}")
        feats = D.features(ops)
        sig = dict(
            ops="+".join(o["op"] for o in ops),
            feat=",".join(f for f in feats if not f.startswith("op:")),
            empty_part=case.has_empty,
            known_div=case.known_div,
            other=envp.used_other,
            obj_col=any(c["kind"] == "obj" for c in spec["frame"]["columns"]),
            zero_rows=len(case.pdf) == 0,
            # the pandas result has no rows (although the input may have some)
            empty_result=isinstance(want, (pd.Series, pd.DataFrame)) and len(want) == 0,
            str_accessor=any(f.startswith("str.") for f in feats),
            align_shuffle=False,
            **flags(ops, case),
        )
        loose = False
        if (envp.used_other or envp.used_root) and not case.unique_index and any(o["op"] == "filter" for o in ops):
            # pandas aligns two NON-identical indexes with duplicate labels by a join (cartesian product per
            # label) but two identical ones positionally; whether they are identical is a whole-frame fact
            # (a filter removed a row somewhere), so partition-wise evaluation cannot and need not match
            raise Reject("alignment of non-identical indexes with duplicate labels")
        if envp.used_other:
            unknown = (not case.known_div) or any(n.get("e") == "other" and n.get("unknown") for n in D.walk(ops))
            if unknown and not case.unique_index:
                raise Reject("alignment across partitionings with unknown divisions and duplicate labels")
            loose = unknown
            # the alignment has to repartition by hash (shuffle) because some operand has unknown divisions
            sig["align_shuffle"] = loose
            if loose:
                # after such an alignment the row order is not promised (see the module docstring), so a LATER step
                # that looks at neighbouring rows (shift/diff/ffill/bfill) legitimately sees other neighbours than
                # pandas: its values are outside the property.  (The same step, or an earlier one, is fine: the
                # neighbour-dependent expression is then evaluated on the still ordered input.)
                first = min(i for i, o in enumerate(ops) if D.uses(o, "other"))
                if any(n.get("e") == "meth" and n.get("m") in D_SEQ for o in ops[first + 1:] for n in D.walk(o)):
                    raise Reject("neighbour-dependent step after an alignment that does not promise row order")
        try:
            with impl("pipeline", **sig):
                res = D.run_pipeline(case.ddf, ops, envd)
                got = F.compute(res)
        except Violation as v:
            v.sig["unknown_div_same_nparts"] = same_nparts(case, envd)
            v.sig.update(align_flags(case, envd))
            cause = v.__cause__
            # a TypeError about an operand of the bare class `object` ("bad operand type for abs(): 'object'",
            # "'>=' not supported between instances of 'object' and 'object'"): the opaque object() placeholder
            # of dask's non-empty meta for object columns took part in a real operation
            v.sig["object_placeholder_operand"] = isinstance(cause, TypeError) and "'object'" in str(cause)
            if isinstance(cause, NotImplementedError):
                count("dask-notimplemented")
                raise Reject("dask refuses: NotImplementedError") from None
            if isinstance(cause, ValueError) and "All NaN partition encountered" in str(cause):
                # ffill/bfill look one partition back; dask documents (in the message) that it refuses when a whole
                # partition is missing - a limitation of ffill/bfill (C46), not of filtering
                count("dask-refuses-all-nan-partition")
                raise Reject("dask refuses: ffill/bfill over an all-NaN (or empty) partition") from None
            if loose:
                if isinstance(cause, AssertionError) or (isinstance(cause, TypeError) and "not supported between instances" in str(cause)):
                    # an internal invariant failing (assert) or None divisions being compared is a crash inside the
                    # alignment code, not the refusal dask documents for unknown divisions
                    raise
                # documented: without divisions dask may refuse to align
                count("unknown-div-align-raised")
                return
            raise
    sig["unknown_div_same_nparts"] = same_nparts(case, envd)
    sig.update(align_flags(case, envd))
    maybe_empty = case.has_empty or len(case.pdf) == 0 or any(o["op"] == "filter" for o in ops)
    D.compare(got, want, res._meta, what=f"{sig['ops']}", check_order=not loose, sig=sig, maybe_empty=maybe_empty, cat_free="cat.as_known" in feats)


def nontrivial(spec):
    c = D.case_info(spec["frame"], spec.get("clear_div", False))
    if c is None:
        return False
    if c.nparts >= 3 and c.has_empty and len(c.pdf) > 0:
        return True
    return (not c.unique_index) and c.nparts >= 2 and len(spec["ops"]) >= 2


def classes(spec):
    yield from D.frame_classes(spec)
    yield "len-%d" % len(spec["ops"])
    for f in D.features(spec["ops"]):
        yield f


@st.composite
def random_case(draw):
    # one numeric column and one string/datetime/categorical column are always present so that the
    # accessor part of the grammar is exercised in most cases; the remaining columns are free
    req = [draw(F.column_spec("a", D.NUM_KINDS)), draw(F.column_spec("b", ["str", "str", "obj", "datetime", "cat"]))]
    fs = draw(F.frame_spec(max_rows=30, required=req, min_cols=0, max_cols=3))
    ops = D.gen_pipeline(draw, fs, max_ops=3, ext=True)
    return {"frame": fs, "clear_div": draw(st.integers(0, 5)) == 0, "ops": ops}


def _c(n):
    return {"e": "col", "name": n}


def _cmp(op, l, v):
    return {"e": "bin", "op": op, "l": l, "r": {"e": "lit", "v": v}}


def grid_cases(tier):
    """Exhaustive small grid over two fixed frames (float column with missing values; unique / duplicate index):
    partitionings (1-3 partitions, known / cleared divisions) x hand-written programs of the classes
    (a) fillna(reduction) / isin(dict) / fillna(dict) followed by every kind of column selection,
    (b) a chain of two filters whose second predicate is row-wise, a reduction, or neighbour-dependent,
    (d) astype followed by a filter on a converted column,
    (c) every binary form between the frame and a series/frame of ANOTHER partitioning with 1-3 partitions and
        known / unknown divisions (so that known x unknown and 1 x 1 partitions are all met)."""
    # a: integers 0..5 (so that the isin value lists hit), b/c: floats with missing values
    cols = [{"kind": "key", "name": "a", "card": 6}, {"kind": "float", "name": "b", "nan": 0.2}, {"kind": "float", "name": "c", "nan": 0.5}]
    frames = [
        {"columns": cols, "index": {"kind": "range", "name": None}, "nrows": 12, "seed": 3},
        {"columns": cols, "index": {"kind": "sorted_dups", "name": None}, "nrows": 9, "seed": 4},
    ]
    selections = [[{"op": "getcol", "col": "b"}], [{"op": "getcol", "col": "a"}], [{"op": "project", "cols": ["b"]}], [{"op": "project", "cols": ["b", "a"]}], []]
    firsts = [
        {"op": "fillna", "cols": ["a", "b", "c"], "value": {"red": "max"}},
        {"op": "fillna", "cols": ["b", "c"], "value": {"red": "min"}},
        {"op": "isin", "cols": ["a", "b", "c"], "values": {"dict": [["a", [1, 2, -1, 0]]]}},
        {"op": "isin", "cols": ["a", "b", "c"], "values": {"dict": [["a", [1, 2]], ["b", [0.5, 1.0]]]}},
        {"op": "isin", "cols": ["a", "b"], "values": {"dict": [["b", [0.5]], ["a", [0, 1, 2, 3]], ["nope", [1]]]}},
        {"op": "isin", "cols": ["a", "b", "c"], "values": [0, 1, 2]},
        {"op": "fillna", "value": {"dict": [["b", -1.5], ["c", 0.5]]}},
    ]
    progs = [[f] + sel for f in firsts for sel in selections]
    first_filter = {"op": "filter", "pred": _cmp("ge", _c("a"), 2)}  # drops the rows with a in {0, 1}
    seconds = [_cmp("gt", {"e": "meth", "x": _c(c), "m": m, "args": args}, v)
               for c in ("a", "b") for m, args in (("shift", [1]), ("shift", [-1]), ("diff", [1]), ("ffill", []), ("bfill", [])) for v in (0, 5)]
    seconds += [_cmp("lt", _c("b"), 5), {"e": "bin", "op": "ge", "l": _c("a"), "r": {"e": "red", "x": _c("a"), "r": "max"}}]
    progs += [[first_filter, {"op": "filter", "pred": p}] for p in seconds]
    progs += [[{"op": "filter", "pred": p}] for p in seconds[:4]]
    # (d) a filter on converted columns: after float -> Float64 a missing value compares as <NA> (row dropped), before as NaN
    to_nullable = {"op": "astype", "dtypes": {"dict": [["b", "Float64"]]}}
    progs += [[to_nullable, {"op": "filter", "pred": _cmp("ne", _c("b"), 0)}], [to_nullable, {"op": "filter", "pred": {"e": "inv", "x": _cmp("gt", _c("b"), 0)}}],
              [{"op": "astype", "dtypes": {"dict": [["a", "float64"]]}}, {"op": "filter", "pred": _cmp("gt", _c("a"), 2)}]]
    for fs in frames:
        unique = fs["index"]["kind"] == "range"
        for n in (1, 2, 3):
            for clear in (False, True):
                frame = dict(fs, partition={"how": "npartitions", "n": n, "sort": True})
                for ops in progs:
                    yield {"frame": frame, "clear_div": clear, "ops": ops}
                if not unique:
                    continue  # alignment across partitionings needs unique labels when divisions are unknown
                for n2 in (1, 2, 3):
                    for unknown in (False, True):
                        ser = {"e": "other", "col": "b", "n": n2, "unknown": unknown}
                        fr = {"e": "other", "cols": ["a", "b"], "n": n2, "unknown": unknown}
                        aligned = [
                            [{"op": "expr", "value": {"e": "bin", "op": "add", "l": _c("a"), "r": ser}}],
                            [{"op": "expr", "value": {"e": "bin", "op": "mul", "l": ser, "r": _c("c")}}],
                            [{"op": "frame_frame", "cols": ["a", "b"], "fn": "add", "other": fr}],
                            [{"op": "frame_bin", "cols": ["a", "c"], "fn": "sub", "other": ser, "method": True, "axis": 0}],
                            [{"op": "assign", "name": "z", "value": ser}],
                            [{"op": "expr", "value": {"e": "where", "x": _c("a"), "cond": _cmp("gt", ser, 0), "other": {"e": "lit", "v": 0}}}],
                            [{"op": "expr", "value": {"e": "meth", "x": _c("c"), "m": "fillna", "args": [ser]}}],
                        ]
                        for ops in aligned:
                            yield {"frame": frame, "clear_div": clear, "ops": ops}
    # (e) a NARROWING astype (values wrap around in int8: the column holds 0..899) followed by a filter on the converted
    # column: the predicate must see the converted values (a filter pushed below the cast would see the original ones)
    import itertools

    wide = [{"kind": "key", "name": "a", "card": 900}, {"kind": "float", "name": "b", "nan": 0.0}]
    for n, seed, (tgt, pred) in itertools.product((1, 3), (1, 2), [("int8", _cmp("gt", _c("a"), 0)), ("int8", _cmp("lt", _c("a"), 100)), ("uint8", _cmp("ge", _c("a"), 128)),
                                                                      ("int16", _cmp("gt", _c("a"), 500)), ("int32", _cmp("le", _c("a"), 450))]):
        frame = {"columns": wide, "index": {"kind": "range", "name": None}, "nrows": 14, "seed": seed, "partition": {"how": "npartitions", "n": n, "sort": True}}
        for tail in ([], [{"op": "getcol", "col": "a"}], [{"op": "project", "cols": ["b"]}]):
            yield {"frame": frame, "clear_div": False, "ops": [{"op": "astype", "dtypes": {"dict": [["a", tgt]]}}, {"op": "filter", "pred": pred}] + tail}


SUBCHECKS = [
    Sub(
        "random",
        check,
        strategy=lambda tier: random_case(),
        n={"quick": 2400, "thorough": 40000},
        nontrivial=nontrivial,
        classes=classes,
        doc="random frames x partitionings (incl. empty partitions, unknown divisions) x 1-3 step elementwise pipelines",
    ),
    Sub(
        "grid",
        check,
        kind="enum",
        cases=grid_cases,
        nontrivial=nontrivial,
        classes=classes,
        exhaustive=True,
        doc="two fixed frames x 1-3 partitions x known/cleared divisions x hand-written programs: fillna(reduction)/isin(dict) then a "
        "column selection; chained filters with row-wise / reduction / neighbour-dependent second predicates; every binary form "
        "against a series/frame of another partitioning (1-3 partitions, known/unknown divisions)",
    ),
]
