"""C21 — array item assignment equals NumPy assignment; chunks unchanged; earlier references keep the old values."""
from __future__ import annotations

import itertools

import numpy as np
from hypothesis import strategies as st

from vf import arrays as A
from vf.core import Reject, Sub, Violation, count, ensure, impl, reference
from vf.props import _arrcommon1 as C
from vf.props.c20 import describe_index

PROPERTY = "C21"
PRELOAD = ["dask.array"]
LEVEL = "exploration"
RULE = (
    "enum-1d: EVERY slice(start,stop,step) with start,stop in {None,-5..5}, step in {None,1,-1,2,-2,3} on a length-4 array under all "
    "8 chunkings, assigned a scalar, a full-size NumPy value, a full-size dask value and a size-1 array; enum-2d: 11 representative per-axis "
    "indices (ints, slices of both step signs, integer list, boolean list) in all pairs on a 3x3 array under all 16 chunkings "
    "x {scalar, full-shape value, broadcast row/column}; random: arrays of 0-3 dims (sides 1..5; zero-length axes in <=10% and "
    "explicit zero-size chunks in ~10% of the cases, as separate strata), 1-2 consecutive assignments whose index combines slices (any step sign), ints, Ellipsis and "
    "at most one 1-d integer indexer (list/NumPy/dask; duplicates, negative, empty) or 1-d boolean mask (list/NumPy/dask), or "
    "is one full-shape dask mask; values: Python scalars, NumPy arrays and dask arrays (random chunking) of any shape "
    "broadcastable to the selection (dropped leading dims, size-1 dims, extra leading size-1 dims), values derived from the "
    "array itself (x[idx] = -x[idx]-1). Oracle: the same assignments on a NumPy copy; x.chunks unchanged after every "
    "assignment; y = x + 0 and x.copy() taken before the assignment, and the source buffer, still hold the old values. "
    "Non-trivial: along some axis the assigned region touches >= 2 chunks, at least one of them partially, and the value "
    "needs broadcasting (non-scalar value whose shape differs from the selection)."
)
ASSUMPTIONS = [
    "index kinds follow docs/source/array-assignment.rst: ints, slices, one 1-d list/NumPy/dask integer indexer or 1-d "
    "boolean indexer, one full-shape dask boolean array; None, several array indexers, 0-d array indexers and NumPy masks "
    "with ndim >= 2 are documented/explicitly refused and not generated",
    "an assignment NumPy itself rejects (value not broadcastable) is outside the property (counted as rejected)",
    "x[dask_mask] = non-scalar value is refused by dask with ValueError (sizes unknown; stated in Array.__setitem__) and is "
    "counted as out-of-domain",
    "integer indices are not combined with an array indexer across a slice (NumPy's transposition rule for separated "
    "advanced indices: dask's differing layout is C20's listed finding advanced-dim-not-moved-first)",
    "length-1 axes split into several blocks by an explicit zero-size chunk are not generated (C19's listed finding)",
    "zero-length axes and explicit zero-size chunks are separate low-probability strata (<= ~10 % of the random cases each); an empty "
    "selection with a non-scalar value is generated only occasionally (listed finding empty-selection-nonscalar-value)",
    "every compute, including implicit ones inside dask (a dask scalar as slice bound), runs on the synchronous scheduler",
]
TECHNIQUE = "differential testing against NumPy assignment over exhaustive chunkings of small arrays and Hypothesis-generated index/value combinations"


# --------------------------------------------------------------------------
# values


def build_value(vs, x_np_before, d_before, nidx, didx):
    """-> (numpy value, dask-side value)"""
    k = vs["kind"]
    if k == "scalar":
        return vs["v"], vs["v"]
    if k == "neg-self":
        # value derived from the array being assigned to
        return -x_np_before[nidx] - 1, -d_before[didx] - 1
    shape = tuple(vs["shape"])
    size = int(np.prod(shape)) if shape else 1
    v = (100 + vs.get("base", 0) + np.arange(size)).reshape(shape).astype(vs.get("dtype", "i8"))
    if vs.get("frac"):
        v = v + 0.75
    if k == "np":
        return v, v
    if k == "list":
        return v.tolist(), v.tolist()
    import dask.array as da

    return v, da.from_array(v, chunks=tuple(tuple(c) for c in vs["chunks"]))


def int_before_reversed_or_array_index(items, value_spec):
    """An integer index precedes a negative-step slice, or precedes a 1-d integer/boolean indexer while the value is not a
    scalar (setitem_array mixes positions in the array with positions in the index-implied shape)."""
    seen_int = False
    scalar = value_spec["kind"] == "scalar" or (value_spec["kind"] in ("np", "da", "list") and all(s == 1 for s in value_spec["shape"]))
    for it in items:
        if it["k"] == "int":
            seen_int = True
        elif seen_int and it["k"] == "slice" and it["v"][2] is not None and it["v"][2] < 0:
            return True
        elif seen_int and it["k"] in ("ints", "bools") and not scalar:
            return True
    return False


def bools_aligned_value_dim(items, ndim, sel_shape, vshape):
    """Size of the value dimension that lines up with the (1-d boolean) indexer, or None."""
    axes = C.item_axes(items, ndim)
    p = 0
    for it, ax in zip(items, axes):
        if it["k"] == "bools":
            break
        if it["k"] != "int":
            p += len(ax)
    else:
        return None
    j = len(vshape) - (len(sel_shape) - p)
    return vshape[j] if 0 <= j < len(vshape) else None


# --------------------------------------------------------------------------
# check


def check(case):
    import dask

    try:
        # implicit computes inside dask (a dask scalar used as a slice bound, bool(dask array), ...) must use the synchronous
        # scheduler as well: committed replays run in the parent process, and a thread pool created there before the
        # worker pool forks leaves the workers with a pool that has no threads (they would wait forever)
        with dask.config.set(scheduler="synchronous"):
            return _check(case)
    except Violation as v:
        # `raises` separates crashes from wrong answers in known-finding matches that cannot name a single exception type
        v.sig["raises"] = str(v.sig.get("symptom", "")).startswith("raises:")
        raise


def _check(case):
    import dask.array as da

    arr = case["array"]
    x0 = A.build_np(arr)
    src = x0.copy()
    d = A.build_da(arr, src)
    expect = x0.copy()
    # references taken before any assignment
    y_before = d + 0
    d_copy = d.copy()
    chunks_before = d.chunks
    for step in case["steps"]:
        items = step["index"]
        sig = dict(
            fancy=C.fancy_kind(items),
            value=step["value"]["kind"],
            zero_chunk=A.has_zero_chunk(arr["chunks"]),
            neg_step=any(it["k"] == "slice" and it["v"][2] is not None and it["v"][2] < 0 for it in items),
            # normalize_slice is shared with __getitem__: C20's finding F-C20 shows up here too
            neg_step_start_below_minus_n=C.neg_step_start_below_minus_n(items, arr["shape"]),
            int_before_reversed_or_array_index=int_before_reversed_or_array_index(items, step["value"]),
            nsteps=len(case["steps"]),
        )
        what = f"x{arr['shape']}chunks={arr['chunks']}[{describe_index(items)}] = {step['value']}"
        nidx, didx = C.build_index(items, arr["shape"], step.get("bare", False))
        try:
            nval, dval = build_value(step["value"], expect, d, nidx, didx)
        except (IndexError, NotImplementedError, ValueError) as e:
            raise Reject(f"value cannot be built: {e}")

        def assign_np():
            e = expect.copy()
            e[nidx] = nval
            return e

        with np.errstate(all="ignore"):
            status, res = reference(assign_np)
        if status == "err":
            # NumPy rejects (value not broadcastable to the selection): outside the property
            count("rejected-numpy-raises")
            raise Reject(f"NumPy rejects the assignment: {res}")
        sel_shape = expect[nidx].shape
        vshape = np.shape(nval)
        expect = res
        # x[m] = v with a dask boolean m of x's shape takes the da.where path (a bare 1-d dask mask on a 1-d array too)
        full_dask_mask = any(it["k"] == "mask" for it in items) or (
            len(arr["shape"]) == 1 and step.get("bare") and len(items) == 1 and items[0]["k"] == "bools" and items[0]["as"] == "da"
        )
        # input classes of the findings listed for C21 (stable flags for known_findings matching)
        sig["empty_selection_nonscalar_value"] = 0 in sel_shape and bool(vshape) and max(vshape) != 1
        bools_da = sig["fancy"] == "bools-da" and not full_dask_mask
        sig["bools_da_value_fewer_dims"] = bools_da and 0 < len(vshape) < len(sel_shape)
        sig["bools_da_size1_value"] = bools_da and bools_aligned_value_dim(items, len(arr["shape"]), sel_shape, vshape) == 1
        sig["int_index_value_ndim_exceeds_selection"] = any(it["k"] == "int" for it in items) and len(vshape) > len(sel_shape)
        sig["mask_chunks_differ"] = any(it["k"] == "mask" and [list(c) for c in it["chunks"]] != [list(c) for c in arr["chunks"]] for it in items) or (
            full_dask_mask and items[0]["k"] == "bools" and list(items[0]["chunks"]) != list(arr["chunks"][0])
        )
        with impl(what, **sig):
            try:
                d[didx] = dval
            except NotImplementedError as e:
                count("rejected-notimplemented")
                raise Reject(f"dask refuses: {e}")
            except ValueError as e:
                if full_dask_mask and "broadcast" in str(e) and len(vshape) > 0:
                    # documented in Array.__setitem__: with a dask boolean mask the selection size is unknown, only
                    # scalars can be assigned
                    count("rejected-mask-nonscalar-value")
                    raise Reject(str(e))
                raise
            got = A.compute(d)
        A.same_array(got, expect, what=what, sig=sig)
        ensure(d.chunks == chunks_before, f"{what}: chunks changed from {chunks_before} to {d.chunks}", "chunks-changed", **sig)
        ensure(d.dtype == x0.dtype, f"{what}: dtype changed to {d.dtype}", "dtype-changed", **sig)
    sig = dict(sig, phase="earlier-reference")
    with impl("earlier reference y = x + 0", **sig):
        y = A.compute(y_before)
        c = A.compute(d_copy)
    A.same_array(y, x0, what="y = x + 0 taken before the assignment", sig=dict(sig, ref="x+0"))
    A.same_array(c, x0, what="x.copy() taken before the assignment", sig=dict(sig, ref="copy"))
    ensure(np.array_equal(src, x0, equal_nan=x0.dtype.kind in "fc"), "the NumPy buffer wrapped by from_array was modified", "source-buffer-modified", **sig)
    if not isinstance(d, da.Array):
        raise Violation("x is no longer a dask array", "type-changed", **sig)


# --------------------------------------------------------------------------
# non-triviality, classes


def selection_positions(item, n):
    k = item["k"]
    if k == "slice":
        return list(range(*slice(*item["v"]).indices(n)))
    if k == "int":
        v = item["v"]
        return [v + n if v < 0 else v]
    if k == "ints":
        return [v + n if v < 0 else v for v in item["v"]]
    if k == "bools":
        return [i for i, b in enumerate(item["v"]) if b]
    return list(range(n))


def step_nontrivial(arr, step):
    items = step["index"]
    vs = step["value"]
    if vs["kind"] in ("scalar", "neg-self") or any(it["k"] == "mask" for it in items):
        return False
    shape, chunks = arr["shape"], arr["chunks"]
    sel_shape = []
    spans = False
    for it, axes in zip(items, C.item_axes(items, len(shape))):
        for ax in axes:
            if ax >= len(shape):
                return False
            n = shape[ax]
            pos = selection_positions(it, n) if it["k"] != "ellipsis" else list(range(n))
            if any(p < 0 or p >= n for p in pos):
                return False
            if it["k"] != "int":
                sel_shape.append(len(pos))
            ids = C.chunk_ids(pos, chunks[ax])
            touched = sorted(set(ids))
            if len(touched) >= 2:
                edges = np.concatenate([[0], np.cumsum(chunks[ax])])
                sel = set(pos)
                if any(any(q not in sel for q in range(int(edges[c]), int(edges[c + 1]))) for c in touched):
                    spans = True
    # trailing axes not mentioned by the index are selected completely
    mentioned = sum(len(a) for a in C.item_axes(items, len(shape)))
    sel_shape += list(shape[mentioned:])
    return spans and list(vs["shape"]) != sel_shape


def nontrivial(case):
    return any(step_nontrivial(case["array"], s) for s in case["steps"])


def classes(case):
    arr = case["array"]
    yield f"ndim-{len(arr['shape'])}"
    yield f"steps-{len(case['steps'])}"
    if A.has_zero_chunk(arr["chunks"]):
        yield "zero-size-chunk"
    if 0 in arr["shape"]:
        yield "zero-length-axis"
    for step in case["steps"]:
        yield "value-" + step["value"]["kind"]
        vs = step["value"]
        if vs["kind"] in ("np", "da", "list") and 1 in vs["shape"]:
            yield "value-has-size1-dim"
        for it in step["index"]:
            k = it["k"]
            if k == "slice":
                s = it["v"][2]
                yield "slice-neg-step" if (s is not None and s < 0) else "slice-pos-step"
            elif k in ("ints", "bools", "mask"):
                yield f"{k}-{it['as']}"
                if k == "ints" and len(set(it["v"])) < len(it["v"]):
                    yield "ints-duplicates"
            else:
                yield k
        if int_before_reversed_or_array_index(step["index"], vs):
            yield "int-before-reversed-or-array-index"


# --------------------------------------------------------------------------
# enumerations


def arange_spec(shape, chunks, dtype="f8"):
    return {"shape": list(shape), "dtype": dtype, "seed": 0, "fill": "arange", "chunks": [list(c) for c in chunks]}


def enum_1d(tier):
    n = 4
    bounds = [None] + list(range(-5, 6))
    steps = [None, 1, -1, 2, -2, 3]
    for ch in A.all_chunkings([n]):
        for a, b, s in itertools.product(bounds, bounds, steps):
            m = len(range(*slice(a, b, s).indices(n)))
            idx = [{"k": "slice", "v": [a, b, s]}]
            vals = [{"kind": "scalar", "v": -7}]
            if m:
                vals.append({"kind": "np", "shape": [m], "dtype": "f8"})
                vals.append({"kind": "da", "shape": [m], "dtype": "f8", "chunks": [[1] * m] if (a or 0) % 2 else [[m]]})
            if m >= 2:
                vals.append({"kind": "np", "shape": [1], "dtype": "f8"})  # size-1 value broadcast along the selection
            for v in vals:
                yield {"array": arange_spec([n], ch), "steps": [{"index": idx, "value": v, "bare": True}]}


AXIS_INDICES_2D = [
    {"k": "int", "v": 0},
    {"k": "int", "v": -1},
    {"k": "slice", "v": [None, None, None]},
    {"k": "slice", "v": [1, None, None]},
    {"k": "slice", "v": [None, 2, None]},
    {"k": "slice", "v": [None, None, -1]},
    {"k": "slice", "v": [2, 0, -1]},
    {"k": "slice", "v": [None, None, 2]},
    {"k": "slice", "v": [-1, None, -2]},
    {"k": "ints", "v": [2, 0], "as": "list"},
    {"k": "bools", "v": [True, False, True], "as": "np"},
]


def enum_2d(tier):
    shape = [3, 3]
    for ch in A.all_chunkings(shape):
        for a, b in itertools.product(AXIS_INDICES_2D, repeat=2):
            if a["k"] in ("ints", "bools") and b["k"] in ("ints", "bools"):
                continue  # two array indexers: documented as unsupported
            sel = [len(selection_positions(it, 3)) for it in (a, b) if it["k"] != "int"]
            vals = [{"kind": "scalar", "v": -7}, {"kind": "np", "shape": sel, "dtype": "f8"}]
            if len(sel) == 2:
                vals.append({"kind": "np", "shape": [sel[1]], "dtype": "f8"})  # broadcast row
                vals.append({"kind": "da", "shape": [sel[0], 1], "dtype": "f8", "chunks": [[sel[0]], [1]]})  # broadcast column
            for v in vals:
                if v["kind"] != "scalar" and 0 in v["shape"]:
                    continue
                yield {"array": arange_spec(shape, ch), "steps": [{"index": [a, b], "value": v}]}


# --------------------------------------------------------------------------
# random cases


def selection_shape(arr, items, bare):
    """Shape of x[index] for NumPy (None if NumPy rejects the index)."""
    x = np.zeros(tuple(arr["shape"]), dtype=bool)
    nidx, _ = C.build_index([dict(it, **({"as": "np"} if it.get("as") == "da" else {})) for it in items], arr["shape"], bare)
    try:
        return list(x[nidx].shape)
    except Exception:  # noqa: BLE001
        return None


@st.composite
def value_st(draw, sel_shape, dtype, allow_self=True, scalar_only=False):
    # (an empty selection with a non-scalar value hits the finding empty-selection-nonscalar-value almost always:
    # keep that combination occasional)
    if scalar_only or C.chance(draw, 20) or (0 in sel_shape and C.chance(draw, 80)):
        v = draw(st.sampled_from([-7, 0, 3, 2.5, -0.5] if dtype == "f8" else [-7, 0, 3, 41]))
        return {"kind": "scalar", "v": v}
    if allow_self and C.chance(draw, 10):
        return {"kind": "neg-self"}
    # a shape broadcastable to sel_shape
    k = draw(st.integers(0, len(sel_shape)))
    shp = [1 if (s != 1 and C.chance(draw, 25)) else s for s in sel_shape[len(sel_shape) - k :]]
    if C.chance(draw, 12):
        shp = [1] * draw(st.integers(1, 2)) + shp  # extra leading size-1 dims
    kind = draw(st.sampled_from(["np", "np", "da", "da", "list"]))
    if kind == "list" and 0 in shp:
        kind = "np"
    vs = {"kind": kind, "shape": shp, "dtype": draw(st.sampled_from(["i8", "f8"])) if dtype == "f8" else "i8", "base": draw(st.integers(0, 50))}
    if dtype == "f8" and vs["dtype"] == "f8" and draw(st.booleans()):
        vs["frac"] = True
    if kind == "da":
        vs["chunks"] = draw(A.chunks_for_shape(shp))
    return vs


@st.composite
def wide_slice_st(draw, n):
    """Slices that cover most of the axis (so the region spans several chunks), both step signs."""
    lo = draw(st.sampled_from([None, 0, 1]))
    hi = draw(st.sampled_from([None, n, n - 1, -1]))
    step = draw(st.sampled_from([None, 1, 2, -1, -2]))
    if step is not None and step < 0:
        a = {None: None, n: None, n - 1: n - 1, -1: -2}.get(hi, None)
        b = {None: None, 0: None, 1: 0}[lo]
        return {"k": "slice", "v": [a, b, step]}
    return {"k": "slice", "v": [lo, hi, step]}


@st.composite
def step_st(draw, arr):
    shape, chunks = arr["shape"], arr["chunks"]
    nd = len(shape)
    dtype = arr["dtype"]
    if nd >= 1 and C.chance(draw, 8):
        item = draw(C.mask_item_st(shape, chunks, kinds=("da",)))
        # (always x[mask] = v, never x[(mask,)] = v: only the former is documented; the tuple form is refused with IndexError)
        return {"index": [item], "value": draw(value_st([], dtype, allow_self=False, scalar_only=True)), "bare": True}
    fancy_axis = draw(st.integers(0, nd - 1)) if nd and C.chance(draw, 45) else None
    items = []
    for ax, n in enumerate(shape):
        if ax == fancy_axis:
            if C.chance(draw, 67):
                items.append(draw(C.ints_item_st(n, oob=0.0)))
            else:
                items.append(draw(C.bools_item_st(n, chunks_like=chunks[ax])))
        else:
            kind = draw(st.sampled_from(["slice"] * 11 + ["int"] * 4 + ["full"] * 5))
            if kind == "slice":
                items.append(draw(st.one_of(C.slice_item_st(n), wide_slice_st(n))))
            elif kind == "int" and n > 0:
                items.append(draw(C.int_item_st(n, oob=0.0)))
            else:
                items.append({"k": "slice", "v": [None, None, None]})
    if C.advanced_nonadjacent(items):
        # keep integer indices adjacent to the array indexer (see ASSUMPTIONS): spell the others as length-1 slices
        fa = next(i for i, it in enumerate(items) if it["k"] in ("ints", "bools"))
        lo = hi = fa
        while lo - 1 >= 0 and items[lo - 1]["k"] == "int":
            lo -= 1
        while hi + 1 < len(items) and items[hi + 1]["k"] == "int":
            hi += 1
        for i, it in enumerate(items):
            if it["k"] == "int" and not (lo <= i <= hi):
                v = it["v"] + shape[i] if it["v"] < 0 else it["v"]
                items[i] = {"k": "slice", "v": [v, v + 1, None]}
    items = C.add_structure(draw, items, allow_none=False)
    if C.advanced_nonadjacent(items):
        # add_structure put a zero-width Ellipsis between the integer and the array indexer (all axes are indexed explicitly);
        # NumPy applies its transposition rule even then (see ASSUMPTIONS): drop it, the index means the same without it
        items = [it for it in items if it["k"] != "ellipsis"]
    bare = len(items) == 1 and draw(st.booleans())
    sel = selection_shape(arr, items, bare)
    if sel is None:
        sel = []
    # the self-derived value is built with __getitem__: keep C20's findings about dask indexers / zero-size chunks out of it
    has_da = any(it.get("as") == "da" for it in items) or A.has_zero_chunk(chunks)
    if nd == 1 and bare and items[0]["k"] == "bools" and items[0]["as"] == "da":
        sel = []  # the da.where path: scalars only (see check)
    # (0-d selections: scalars only.  NumPy lets x[0] = array of shape (1,) for 1-d x; dask's chunk-level assignment rejects
    # a value with more dimensions than the 0-d selection)
    return {"index": items, "value": draw(value_st(sel, dtype, allow_self=not has_da, scalar_only=len(sel) == 0)), "bare": bare}


@st.composite
def random_case(draw):
    arr = draw(C.array_st(min_dims=0, max_dims=3, min_side=draw(st.sampled_from([0, 1, 1, 2, 2, 2, 2, 3, 3, 3])), max_side=5, dtypes=("f8", "f8", "i8"), fills=("arange", "small")))
    nsteps = draw(st.sampled_from([1, 1, 1, 2]))
    return {"array": arr, "steps": [draw(step_st(arr)) for _ in range(nsteps)]}


SUBCHECKS = [
    Sub(
        "enum-1d",
        check,
        kind="enum",
        cases=enum_1d,
        nontrivial=nontrivial,
        classes=classes,
        exhaustive=True,
        doc="every slice (start,stop in {None,-5..5}, step in {None,1,-1,2,-2,3}) of a length-4 array, all chunkings, scalar / NumPy / dask value",
    ),
    Sub(
        "enum-2d",
        check,
        kind="enum",
        cases=enum_2d,
        nontrivial=nontrivial,
        classes=classes,
        exhaustive=True,
        doc="11 per-axis indices in all pairs on a 3x3 array, all 16 chunkings, scalar / full / broadcast-row / broadcast-column values",
    ),
    Sub(
        "random",
        check,
        strategy=lambda tier: random_case(),
        n={"quick": 4000, "thorough": 100000},
        nontrivial=nontrivial,
        classes=classes,
        doc="random arrays, 1-2 assignments with random index kinds and broadcastable values (scalar/NumPy/dask/self-derived)",
    ),
]
