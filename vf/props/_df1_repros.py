"""Standalone reproducers (plain pandas + dask, no harness code) of the dask.dataframe
defects found by the C36/C37/C38/C42 checks on the pinned tree.

    PYTHONPATH=/repo:/verif/shim DASK_DATAFRAME__CONVERT_STRING=False /venv/bin/python -W ignore vf/props/_df1_repros.py [ID ...]

Each case prints ``DEFECT`` (dask raises / differs from pandas) or ``ok`` (no longer
reproduces).  Case names correspond to the ids in ``findings/C36.json`` ... ``findings/C42.json``.
"""
import sys
import warnings

import numpy as np
import pandas as pd

import dask.dataframe as dd

warnings.simplefilter("ignore")


def c(x):
    return x.compute(scheduler="sync")


class Pieces:
    def __init__(self, p):
        self.p = p

    def __call__(self, i):
        return self.p[i]


def from_pieces(pdf, cuts):
    cuts = [0] + list(cuts) + [len(pdf)]
    ps = [pdf.iloc[a:b] for a, b in zip(cuts, cuts[1:])]
    return dd.from_map(Pieces(ps), list(range(len(ps))), meta=pdf.iloc[:0])


CASES = {}


def case(name):
    def deco(f):
        CASES[name] = f
        return f

    return deco


def same(got, want, order=True, names=True):
    if isinstance(want, (pd.DataFrame, pd.Series)) and type(got) is not type(want):
        return f"computed a {type(got).__name__}, pandas a {type(want).__name__}"
    try:
        if isinstance(want, pd.DataFrame):
            if not order:
                got, want = got.sort_index(), want.sort_index()
            pd.testing.assert_frame_equal(got, want, check_names=names)
        elif isinstance(want, pd.Series):
            if not order:
                got, want = got.sort_index(), want.sort_index()
            pd.testing.assert_series_equal(got, want, check_names=names)
        else:
            assert (pd.isna(got) and pd.isna(want)) or (not pd.isna(got) and not pd.isna(want) and (got == want or np.isclose(got, want))), (got, want)
        return None
    except (AssertionError, TypeError, ValueError) as e:
        return str(e).replace("\n", " | ")[:300]


PDF = pd.DataFrame({"a": [1, -5, 3, 4], "b": [1.0, np.nan, 3.0, 4.0], "c": [5, 6, 7, 8]})


def two():
    return PDF, dd.from_pandas(PDF, npartitions=2)


# ------------------------------------------------------------------ C36
@case("C36/where-frame-cond-projection")
def _():
    p, d = two()
    return lambda: c(d.where(d < 3, 0)["a"]), p.where(p < 3, 0)["a"]


@case("C36/methodop-projection")
def _():
    p, d = two()
    return lambda: c(d.add(d.a, axis=0)["c"]), p.add(p.a, axis=0)["c"]


@case("C36/binop-frames-projection-assert")
def _():
    p, d = two()
    return lambda: c((d[["a"]] + d[["b"]])["b"]), (p[["a"]] + p[["b"]])["b"]


@case("C36/cmpmethodop-projection")
def _():
    p, d = two()
    return lambda: c(d[["a", "c"]].lt(d.a, axis=0)[["a"]]), p[["a", "c"]].lt(p.a, axis=0)[["a"]]


@case("C36/align-projection")
def _():
    p, d = two()
    other = dd.from_pandas(p[["a", "c"]], npartitions=1)
    return lambda: c((d[["a", "c"]] + other)["a"]), (p[["a", "c"]] + p[["a", "c"]])["a"]


@case("C36/comparison-method-unaligned")
def _():
    p, d = two()
    other = dd.from_pandas(p["a"], npartitions=1)
    return lambda: c(d[["a"]].lt(other, axis=0)), p[["a"]].lt(p["a"], axis=0)


@case("C36/assign-align-then-filter")
def _():
    p = pd.DataFrame({"a": np.arange(25), "b": 1.5, "c": np.arange(25) % 3 == 0})
    d = dd.from_pandas(p, chunksize=17)
    other = dd.from_pandas(p["a"], npartitions=3)
    x = d.assign(a=other - d.a)
    return lambda: c(x[x.c]), p.assign(a=p.a - p.a)[p.c]


@case("C36/fillna-dict-projection")
def _():
    p, d = two()
    return lambda: c(d.fillna({"a": 0, "b": -1.5})["b"]), p.fillna({"a": 0, "b": -1.5})["b"]


@case("C36/assign-twice-column-order")
def _():
    p, d = two()
    return lambda: c(d.assign(z=1).assign(y=1).assign(z=2)), p.assign(z=1).assign(y=1).assign(z=2)


@case("C36/assign-into-empty-partition")
def _():
    p = pd.DataFrame({"a": [1, 2, 3, 4], "b": [0, 0, 9, 9]})
    d = dd.from_pandas(p, npartitions=2)
    return lambda: c(d[d.b > 5].assign(z=d.a * 10)), p[p.b > 5].assign(z=p.a * 10)


@case("C36/frame-map-dict-meta-projection")
def _():
    p = pd.DataFrame({"a": [1, 2, 3], "b": ["x", "y", "z"]})
    d = dd.from_pandas(p, npartitions=1)
    inc = lambda x: x + 1  # noqa: E731
    return lambda: c(d[["a"]].map(inc, meta={"a": "int64"})["a"].between(0, 5)), p[["a"]].map(inc)["a"].between(0, 5)


@case("C36/unknown-divisions-equal-npartitions-assumed-aligned")
def _():
    p = pd.DataFrame({"a": [35, 13]})
    d = from_pieces(p, [0])  # partitions: [], [row0,row1]; unknown divisions
    other = dd.from_pandas(p["a"], npartitions=2).clear_divisions()  # [row0], [row1]
    return lambda: c(d["a"] + other), p["a"] + p["a"]


# ------------------------------------------------------------------ C37
@case("C37/idx-frame-result-sorted-by-label")
def _():
    p = pd.DataFrame({"b": [3, 1, 2, 5], "a": [9, 8, 7, 6]})
    d = dd.from_pandas(p, npartitions=2)
    return lambda: c(d.idxmin()), p.idxmin()


@case("C37/var-nullable")
def _():
    p = pd.DataFrame({"a": pd.array([1, 2, None, 4], dtype="Int64")})
    d = dd.from_pandas(p, npartitions=2)
    return lambda: c(d.var()), p.var()


@case("C37/idx-all-na-partition")
def _():
    p = pd.DataFrame({"x": [np.nan, np.nan, 3.0, 1.0]})
    d = dd.from_pandas(p, npartitions=2)
    return lambda: c(d.x.idxmin()), p.x.idxmin()


@case("C37/all-nullable-skipna-false")
def _():
    p = pd.DataFrame({"x": pd.array([1, None, 3], dtype="Int64")})
    d = dd.from_pandas(p, npartitions=1)
    return lambda: c(d.x.all(skipna=False)), p.x.all(skipna=False)


@case("C37/cov-min-periods-ignored")
def _():
    p = pd.DataFrame({"a": [1.0, 2.0], "b": [3.0, 5.0]})
    d = dd.from_pandas(p, npartitions=1)
    return lambda: c(d.cov(min_periods=3)), p.cov(min_periods=3)


@case("C37/min-skipna-false-wrong-value")
def _():
    p = pd.DataFrame({"a": [1, 2, 3, 4], "b": [1.0, np.nan, 3.0, 4.0], "c": [True, False, True, True]})
    d = dd.from_pandas(p, npartitions=2)
    return lambda: c(d.min(skipna=False)), p.min(skipna=False)


@case("C37/minmax-nullable-skipna-false-crash")
def _():
    p = pd.DataFrame({"a": pd.array([None, 5], dtype="Int64"), "b": [1, 2], "d": [True, False]})
    d = dd.from_pandas(p, npartitions=2)
    return lambda: c(d.min(skipna=False, numeric_only=True)), p.min(skipna=False, numeric_only=True)


@case("C37/idx-nullable-skipna-false")
def _():
    p = pd.DataFrame({"a": pd.array([3, 1], dtype="Int64")})
    d = dd.from_pandas(p, npartitions=1)
    return lambda: c(d.idxmin(skipna=False)), p.idxmin(skipna=False)


@case("C37/empty-partition-int-result-becomes-float")
def _():
    p = pd.DataFrame({"a": [5, 6, -7, -8]})
    d = dd.from_pandas(p, npartitions=2)
    return lambda: c(d[d.a < 0].min()), p[p.a < 0].min()


@case("C37/var-ddof-ge-count-not-nan")
def _():
    p = pd.DataFrame({"a": [1, 3]})
    d = dd.from_pandas(p, npartitions=1)
    return lambda: c(d.a.std(ddof=2)), p.a.std(ddof=2)


@case("C37/minmax-str-column-all-na-partition")
def _():
    p = pd.DataFrame({"a": [1, 2], "s": pd.array([None, "x"], dtype="str")})
    d = dd.from_pandas(p, npartitions=2)
    return lambda: c(d.min()), p.min()


# ------------------------------------------------------------------ C38
GP = pd.DataFrame(
    {"a": [0, 0, 1, 1, 0, 1, 0, 1], "b": [0, 1, 2, 3, 4, 5, 6, 7], "c": [1.0, 2, 3, 4, 5, 6, 7, 8], "d": [5, 4, 3, 2, 1, 0, 9, 8]}
)


def three():
    return GP, dd.from_pandas(GP, npartitions=3)


@case("C38/idxmin-first-partition")
def _():
    p, d = three()
    return lambda: c(d.groupby("a").d.idxmin()), p.groupby("a").d.idxmin()


@case("C38/idxmin-all-na-group-in-partition")
def _():
    p = pd.DataFrame({"k": [0, 0, 0, 0], "v": [np.nan, np.nan, 2.0, 1.0]})
    d = dd.from_pandas(p, npartitions=2)
    return lambda: c(d.groupby("k").v.idxmin()), p.groupby("k").v.idxmin()


@case("C38/nunique-ignores-dropna-false")
def _():
    p = pd.DataFrame({"k": [0.0, np.nan, 0.0, np.nan], "v": [1, 2, 3, 4]})
    d = dd.from_pandas(p, npartitions=2)
    return lambda: c(d.groupby("k", dropna=False).v.nunique()), p.groupby("k", dropna=False).v.nunique()


@case("C38/nunique-ignores-sort")
def _():
    p = pd.DataFrame({"k": [1, 0, 1, 0], "v": [1, 2, 3, 4]})
    d = dd.from_pandas(p, npartitions=2)
    return lambda: c(d.groupby("k", sort=True).v.nunique()), p.groupby("k", sort=True).v.nunique()


@case("C38/list-slice-column-order")
def _():
    p, d = three()
    return lambda: c(d.groupby("a")[["d", "c"]].mean()), p.groupby("a")[["d", "c"]].mean()


@case("C38/cum-by-series")
def _():
    p, d = three()
    return lambda: c(d.groupby(d.b % 2).c.cumsum()), p.groupby(p.b % 2).c.cumsum()


@case("C38/cum-by-index")
def _():
    p, d = three()
    return lambda: c(d.groupby(d.index).c.cumsum()), p.groupby(p.index).c.cumsum()


@case("C38/median-agg-sort-true-keyerror")
def _():
    p, d = three()
    return lambda: c(d.groupby("a", sort=True).agg({"c": ["median", "sum"]})), p.groupby("a", sort=True).agg({"c": ["median", "sum"]})


@case("C38/by-index-unnamed-result-index-called-index")
def _():
    p, d = three()
    return lambda: c(d.groupby(d.index).c.min(split_out=2)).sort_index(), p.groupby(p.index).c.min()


@case("C38/first-last-split-out")
def _():
    p, d = three()
    return lambda: c(d.groupby("a").d.last(split_out=2)).sort_index(), p.groupby("a").d.last()


@case("C38/transform-drops-na-key-rows")
def _():
    p = pd.DataFrame({"k": [0.0, 1.0, 1.0, 0.0, 0.0, np.nan], "v": [1.0, 2.0, np.nan, 4.0, 5.0, 6.0]})
    d = from_pieces(p, [3])
    # pandas keeps the row of the NA key (value NaN); only the number of rows is compared here
    return lambda: len(c(d.groupby("k").v.bfill())), len(p.groupby("k").v.bfill())


@case("C38/transform-empty-shuffled-partition")
def _():
    p = pd.DataFrame({"k": [0, 0, 0, 0, 0, 0], "v": [1.0, np.nan, 3.0, 4.0, np.nan, 6.0]})
    d = dd.from_pandas(p, npartitions=3)
    return lambda: c(d.groupby("k")[["v"]].ffill()).sort_index(), p.groupby("k")[["v"]].ffill()


@case("C38/value-counts-by-series")
def _():
    p, d = three()
    return lambda: c(d.groupby(d.b % 2).b.value_counts(split_out=2)).sort_index(), p.groupby(p.b % 2).b.value_counts().sort_index()


@case("C38/value-counts-zero-rows")
def _():
    p = GP.iloc[:0]
    d = dd.from_pandas(p, npartitions=2)
    return lambda: c(d.groupby(["a", "b"]).d.value_counts()), p.groupby(["a", "b"]).d.value_counts()


@case("C38/value-counts-split-out")
def _():
    p = GP
    d = from_pieces(GP, [2, 5, 5])  # unknown divisions, one empty partition
    return lambda: c(d.groupby("a", sort=False).d.value_counts(split_out=True, split_every=2)).sort_index(), p.groupby("a").d.value_counts().sort_index()


@case("C38/value-counts-na-key-counts-wrong")
def _():
    p = pd.DataFrame({"k": [np.nan, np.nan, np.nan, 1.0, np.nan, np.nan], "v": [0, 0, 0, 0, 0, 0]})
    d = dd.from_pandas(p, npartitions=3)
    return lambda: c(d.groupby("k", dropna=False).v.value_counts()).sort_index(), p.groupby("k", dropna=False).v.value_counts().sort_index()


@case("C38/cov-by-index")
def _():
    p, d = three()
    return lambda: c(d.groupby(d.index // 4)[["c", "d"]].cov()), p.groupby(p.index // 4)[["c", "d"]].cov()


@case("C38/cov-valueerror")
def _():
    p = pd.DataFrame({"a": [0.0, 1.0, 0.0, 1.0], "c": [1.0, 2, 3, 4], "d": [4.0, 3, 2, 1]})
    d = dd.from_pandas(p, npartitions=1)
    return lambda: c(d.groupby(["a"])[["c", "d"]].cov(split_out=1)), p.groupby(["a"])[["c", "d"]].cov()


@case("C38/cov-missing-values")
def _():
    p = pd.DataFrame({"k": [0] * 6, "x": [1.0, np.nan, 3.0, 4.0, 7.0, 6.0], "y": [2.0, 1.0, 4.0, 3.0, 5.0, 9.0]})
    d = dd.from_pandas(p, npartitions=2)
    return lambda: c(d.groupby("k")[["x", "y"]].cov()), p.groupby("k")[["x", "y"]].cov()


@case("C38/cum-all-nan-partition-group")
def _():
    p = pd.DataFrame({"a": [0, 0, 0, 0], "d": [np.nan, np.nan, 3.0, 5.0]})
    d = dd.from_pandas(p, npartitions=2)
    return lambda: c(d.groupby("a").d.cumsum()), p.groupby("a").d.cumsum()


@case("C38/mean-default-dropna-keeps-na-groups")
def _():
    p = pd.DataFrame({"k": [0.0, np.nan, 0.0, np.nan], "v": [1, 2, 3, 4]})
    d = dd.from_pandas(p, npartitions=2)
    return lambda: c(d.groupby("k").v.mean()), p.groupby("k").v.mean()


@case("C38/median-ignores-sort")
def _():
    p = pd.DataFrame({"k": [2, 0, 1, 2, 0, 1], "v": [1, 2, 3, 4, 5, 6]})
    d = dd.from_pandas(p, npartitions=2)
    return lambda: c(d.groupby("k", sort=True).v.median()), p.groupby("k", sort=True).v.median()


@case("C38/agg-median-series-returns-frame")
def _():
    p, d = three()
    return lambda: c(d.groupby("a").c.agg("median")), p.groupby("a").c.agg("median")


@case("C38/unobserved-categories-duplicated")
def _():
    p = pd.DataFrame({"k": pd.Categorical(list("uvuvuvuvuvuv"), categories=["u", "v", "w"]), "b": range(12)})
    d = dd.from_pandas(p, npartitions=4)
    return lambda: c(d.groupby(["k"], observed=False, sort=False).b.min(split_out=3)).sort_index(), p.groupby(["k"], observed=False, sort=False).b.min().sort_index()


@case("C38/size-name-nan")
def _():
    p = pd.DataFrame({"k": pd.Categorical(["u", None, "u", None], categories=["u", "v"]), "x": [1, 2, 3, 4], "y": [1, 2, 3, 4]})
    d = dd.from_pandas(p, npartitions=2)
    return lambda: c(d.groupby(["k"], dropna=False, observed=True)[["x", "y"]].size(split_out=3)).sort_index(), p.groupby(["k"], dropna=False, observed=True)[["x", "y"]].size().sort_index()


@case("C38/cumcount-name")
def _():
    p = pd.DataFrame({"a": [0], "b": [1]})
    d = from_pieces(p, [0, 0])
    return lambda: c(d.groupby(["b", "a"]).cumcount()), p.groupby(["b", "a"]).cumcount()


# ------------------------------------------------------------------ C42 (lazy meta vs computed)
def meta_vs_computed(lazy):
    g = c(lazy)
    m = lazy._meta
    md = m.dtypes.tolist() if isinstance(m, pd.DataFrame) else getattr(m, "dtype", type(m))
    gd = g.dtypes.tolist() if isinstance(g, pd.DataFrame) else getattr(g, "dtype", type(g))
    return (md, getattr(m, "name", None)), (gd, getattr(g, "name", None))


@case("C42/str-plus-literal-meta-object")
def _():
    p = pd.DataFrame({"s": pd.array(["x", "yy"], dtype="str")})
    d = dd.from_pandas(p, npartitions=2)
    a, b = meta_vs_computed(d.s + "!")
    return lambda: a, b


@case("C42/object-column-str-accessor-meta")
def _():
    p = pd.DataFrame({"s": pd.Series(["x", None, "Yy"], dtype=object)})
    d = dd.from_pandas(p, npartitions=2)
    a, b = meta_vs_computed(d.s.str.upper())
    return lambda: a, b


@case("C42/frame-nunique-meta-float")
def _():
    p, d = two()
    a, b = meta_vs_computed(d.nunique(axis=1))
    return lambda: a, b


@case("C42/cumcount-partition-name")
def _():
    p, d = three()
    lazy = d.groupby("a").cumcount()
    return lambda: (lazy._meta.name, c(lazy).name), (c(lazy.partitions[1]).name, c(lazy).name)


def main():
    want_ids = sys.argv[1:]
    for name, f in CASES.items():
        if want_ids and not any(w in name for w in want_ids):
            continue
        try:
            run, want = f()
        except Exception as e:  # noqa: BLE001
            print(f"{name}: DEFECT (raises while building: {type(e).__name__}: {str(e)[:150]})")
            continue
        try:
            got = run()
        except Exception as e:  # noqa: BLE001
            print(f"{name}: DEFECT (raises {type(e).__name__}: {(str(e).splitlines() or [""])[0][:150]})")
            continue
        if isinstance(want, tuple):
            diff = None if got == want else f"{got} != {want}"
        else:
            diff = same(got, want)
        print(f"{name}: " + ("ok" if diff is None else f"DEFECT ({diff})"))


if __name__ == "__main__":
    main()
