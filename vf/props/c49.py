"""C49 — bag sampling returns valid samples reproducibly.

* ``dask.bag.random.sample(b, k)``: for k <= len(b) exactly k elements forming a
  sub-multiset of b.  For k > len(b) EXACTLY two outcomes are accepted
  (DESIGN §8.3): all of b (the property statement), or
  ``ValueError("Sample larger than population")`` (required by the pinned test
  ``test_sample_k_bigger_than_bag_size``).  Anything else is a violation.
* ``dask.bag.random.choices(b, k)``: exactly k elements, each an element of b.
  An EMPTY population is outside the domain (nothing can be chosen; the docs
  promise nothing and ``random.choices([], k=1)`` raises as well).
* ``Bag.random_sample(prob, random_state=s)``: the same list when computed
  twice, when the collection is rebuilt from scratch with the same seed, and
  on the threaded scheduler; and a subsequence of the bag.

dask.bag.random draws from the *global* ``random`` module, so every case seeds
it with ``spec["seed"]`` right before computing (scheduler="sync" keeps the
draw order deterministic).

k == 0 lives in its own sub-check (``k_zero``): it is a finding on the pinned
tree (ZeroDivisionError / ValueError) and must not stop the search elsewhere.
"""
from __future__ import annotations

import itertools
import json
import random
from collections import Counter

from hypothesis import strategies as st

from vf.core import Reject, Sub, Violation, count, ensure, impl, short

PROPERTY = "C49"
LEVEL = "exploration"
PRELOAD = ["dask.bag", "dask.bag.random"]
TECHNIQUE = "validity oracle (sub-multiset / membership / subsequence / reproducibility) over exhaustive small layouts and Hypothesis-generated populations"
RULE = (
    "enum (EXHAUSTIVE): populations [0,1,1,2,2,2][:n] for n=0..5 (choices: n>=1) x EVERY layout of the n elements into 1..3 "
    "partitions (empty partitions included) x k=1..n+3 x split_every in {None,2} x op in {sample, choices} x seeds {0,1}; "
    "k_zero: the layouts of n=0..4 with k=0, split_every in {None,2}; random: populations of 0..25 small ints or strings (duplicates frequent, or all "
    "distinct), 1..9 partitions given as explicit sizes (zeros allowed) or from_sequence(npartitions), k=1..size+3, "
    "split_every in {None,2,3,False}; random_sample: prob in {0,.1,.3,.5,.9,1}, random_state int or random.Random, computed "
    "twice on sync, rebuilt and computed on threads.  Non-trivial: k exceeds the smallest partition size or a partition is "
    "empty (sample/choices); >=2 partitions, non-empty, 0<prob<1 (random_sample)."
)
ASSUMPTIONS = [
    "the global `random` module is seeded from spec['seed'] before each computation (dask.bag.random uses it)",
    "for k > len(b) both 'all of b' and ValueError('Sample larger than population') are accepted (DESIGN 8.3)",
    "choices on an empty population is outside the domain",
    "split_every=1 is not a valid grouping size and is not generated",
    "the process scheduler is not used for random_sample (checks run inside daemonic pool workers); sync and threads are",
]


def _piece(s):
    return json.loads(s)


def build_bag(spec):
    import dask.bag as db
    from dask import delayed

    data = spec["data"]
    lay = spec["layout"]
    if lay["how"] == "npartitions":
        return db.from_sequence(data, npartitions=lay["n"]), None
    sizes = lay["sizes"]
    assert sum(sizes) == len(data), "generator bug: sizes"
    pieces, i = [], 0
    for s in sizes:
        pieces.append(data[i : i + s])
        i += s
    # one Delayed per partition; the piece travels as a JSON string so that nothing in it is traversed as a graph
    # (deterministic key names: a case must be a pure function of its spec)
    import hashlib

    tag = hashlib.sha1(json.dumps([data, sizes], default=str).encode()).hexdigest()[:12]
    return db.from_delayed([delayed(_piece, pure=True)(json.dumps(p), dask_key_name=f"piece-{tag}-{i}") for i, p in enumerate(pieces)]), sizes


def _sizes(spec):
    lay = spec["layout"]
    return lay["sizes"] if lay["how"] == "sizes" else None


def _sig(spec):
    s = _sizes(spec)
    n = len(spec["data"])
    k = spec.get("k", 0)
    return dict(
        op=spec["op"],
        k_zero=k == 0,
        k_gt_size=k > n,
        empty_partition=bool(s) and 0 in s,
        empty_population=n == 0,
    )


def check_sampling(spec):
    from dask.bag import random as dbr

    op, k, data = spec["op"], spec["k"], spec["data"]
    if op == "choices" and not data:
        raise Reject("choices on an empty population")
    sig = _sig(spec)
    b, _ = build_bag(spec)
    fn = dbr.sample if op == "sample" else dbr.choices
    desc = f"{op}(bag={data!r} layout={spec['layout']}, k={k}, split_every={spec['split_every']})"
    random.seed(spec["seed"])
    try:
        with impl(op, **sig):
            res = fn(b, k, split_every=spec["split_every"]).compute(scheduler="sync")
    except Violation as v:
        cause = v.__cause__
        if op == "sample" and k > len(data) and isinstance(cause, ValueError) and "Sample larger than population" in str(cause):
            count("sample_k_gt_size_valueerror")
            return  # the outcome the pinned test requires
        raise
    ensure(isinstance(res, list), f"{desc} computed {type(res).__name__}, not a list", "result-type", **sig)
    pop = Counter(data)
    if op == "sample":
        if k > len(data):
            ensure(Counter(res) == pop, f"{desc} = {short(res)}: k exceeds the population, expected all of it or ValueError", "k-gt-size-wrong-result", **sig)
            count("sample_k_gt_size_all")
            return
        ensure(len(res) == k, f"{desc} returned {len(res)} elements: {short(res)}", "wrong-length", **sig)
        extra = Counter(res) - pop
        ensure(not extra, f"{desc} = {short(res)} is not a sub-multiset of the population (surplus {dict(extra)})", "not-a-sub-multiset", **sig)
    else:
        ensure(len(res) == k, f"{desc} returned {len(res)} elements: {short(res)}", "wrong-length", **sig)
        bad = [x for x in res if x not in pop]
        ensure(not bad, f"{desc} = {short(res)} contains {short(bad)} which is not in the population", "not-in-population", **sig)


def is_subsequence(small, big):
    it = iter(big)
    return all(any(x == y for y in it) for x in small)


def check_random_sample(spec):
    data, prob = spec["data"], spec["prob"]
    sig = dict(op="random_sample", rs=spec["rs"], empty_partition=bool(_sizes(spec)) and 0 in _sizes(spec))

    def rs():
        return random.Random(spec["seed"]) if spec["rs"] == "Random" else spec["seed"]

    desc = f"random_sample(bag={data!r} layout={spec['layout']}, prob={prob}, random_state={spec['rs']}({spec['seed']}))"
    random.seed(spec["seed"] + 1)  # the global generator must be irrelevant
    with impl("random_sample", **sig):
        b, _ = build_bag(spec)
        s = b.random_sample(prob, random_state=rs())
        r1 = s.compute(scheduler="sync")
        r2 = s.compute(scheduler="sync")
    random.seed(spec["seed"] + 2)
    with impl("random_sample-rebuilt-threads", **sig):
        b2, _ = build_bag(spec)
        r3 = b2.random_sample(prob, random_state=rs()).compute(scheduler="threads", num_workers=3)
    ensure(isinstance(r1, list), f"{desc} computed {type(r1).__name__}", "result-type", **sig)
    ensure(r1 == r2, f"{desc}: recomputing the same collection gives {short(r2)} after {short(r1)}", "recompute-differs", **sig)
    ensure(r1 == r3, f"{desc}: rebuilt + threaded scheduler gives {short(r3)}, sync gave {short(r1)}", "scheduler-or-rebuild-differs", **sig)
    ensure(is_subsequence(r1, data), f"{desc} = {short(r1)} is not a subsequence of the bag", "not-a-subsequence", **sig)
    # the same bag sampled with the same seed and OTHER probabilities (and the same probability with another seed), all in
    # one graph: every sample is what it is when computed alone
    import dask

    others = [(p, spec["seed"]) for p in (0.0, 1.0, round(1.0 - prob, 3)) if p != prob] + [(prob, spec["seed"] + 1)]
    with impl("random_sample siblings in one graph", together=True, **sig):
        sibs = [b.random_sample(p, random_state=(random.Random(sd) if spec["rs"] == "Random" else sd)) for p, sd in others]
        alone = [x.compute(scheduler="sync") for x in sibs]
        tog = dask.compute(s, *sibs, scheduler="sync")
    ensure(tog[0] == r1, f"{desc}: computed in one graph with random_sample{others} of the same bag gives {short(tog[0])}, alone {short(r1)}", "together-differs", **sig)
    for (p, sd), a, t in zip(others, alone, tog[1:]):
        ensure(a == t, f"random_sample(prob={p}, random_state={sd}) computed in one graph with {desc} gives {short(t)}, alone {short(a)}", "together-differs", **sig)
    ensure(alone[others.index((1.0, spec["seed"]))] == list(data) if (1.0, spec["seed"]) in others else True, "random_sample(1.0) must keep every element", "prob-one-drops", **sig)


def nontrivial(spec):
    n = len(spec["data"])
    s = _sizes(spec)
    if spec["op"] == "random_sample":
        np_ = len(s) if s else spec["layout"]["n"]
        return n >= 2 and np_ >= 2 and 0 < spec["prob"] < 1
    if s:
        return len(s) >= 2 and (0 in s or spec["k"] > min(s))
    npart = spec["layout"]["n"]
    return npart >= 2 and n >= 2 and spec["k"] > n // npart


def classes(spec):
    yield "op-" + spec["op"]
    n = len(spec["data"])
    s = _sizes(spec)
    if s and 0 in s:
        yield "empty-partition"
    if n == 0:
        yield "empty-population"
    if len(set(map(str, spec["data"]))) < n:
        yield "duplicates"
    if spec["op"] != "random_sample":
        k = spec["k"]
        yield "k>size" if k > n else ("k==size" if k == n else "k<size")
        nparts = len(s) if s else spec["layout"]["n"]
        se = spec["split_every"]
        if se not in (None, False) and nparts > se:
            yield "multi-level-reduction"
    else:
        yield "rs-" + spec["rs"]


# ----------------------------------------------------------------- enumeration
BASE = [0, 1, 1, 2, 2, 2]


def _layouts(n, maxparts=3):
    for p in range(1, maxparts + 1):
        for cuts in itertools.combinations_with_replacement(range(n + 1), p - 1):
            b = [0, *cuts, n]
            yield [b[i + 1] - b[i] for i in range(p)]


def enum_cases(tier):
    nmax = 5 if tier == "quick" else 6
    seeds = (0, 1) if tier == "quick" else (0, 1, 2, 3)
    for n in range(0, nmax + 1):
        data = BASE[:n]
        for sizes in _layouts(n):
            for op in ("sample", "choices"):
                if op == "choices" and n == 0:
                    continue
                for k in range(1, n + 4):
                    for se in (None, 2):
                        for seed in seeds:
                            yield {"op": op, "data": data, "layout": {"how": "sizes", "sizes": sizes}, "k": k, "split_every": se, "seed": seed}


def enum_k_zero(tier):
    for n in range(0, 5):
        data = BASE[:n]
        for sizes in _layouts(n):
            for op in ("sample", "choices"):
                if op == "choices" and n == 0:
                    continue
                for se in (None, 2):
                    yield {"op": op, "data": data, "layout": {"how": "sizes", "sizes": sizes}, "k": 0, "split_every": se, "seed": 0}


# ----------------------------------------------------------------- random
@st.composite
def _population(draw):
    n = draw(st.sampled_from([0, 1, 2, 3, 4, 5, 6, 8, 10, 13, 17, 25]))
    kind = draw(st.sampled_from(["dups", "dups", "distinct", "strs"]))
    if kind == "distinct":
        data = list(draw(st.permutations(list(range(n)))))
    elif kind == "dups":
        data = draw(st.lists(st.integers(0, max(1, n // 3)), min_size=n, max_size=n))
    else:
        data = draw(st.lists(st.sampled_from(["a", "b", "ab", "", "c"]), min_size=n, max_size=n))
    if draw(st.integers(0, 3)) == 0:
        layout = {"how": "npartitions", "n": draw(st.integers(1, 6))}
    else:
        p = draw(st.integers(1, 9))
        cuts = sorted(draw(st.lists(st.integers(0, n), min_size=p - 1, max_size=p - 1)))
        b = [0, *cuts, n]
        layout = {"how": "sizes", "sizes": [b[i + 1] - b[i] for i in range(p)]}
    return data, layout


@st.composite
def random_sampling(draw):
    data, layout = draw(_population())
    op = draw(st.sampled_from(["sample", "choices"]))
    if op == "choices" and not data:
        data = [draw(st.integers(0, 3))]
        layout = {"how": "sizes", "sizes": [1]} if layout["how"] == "sizes" else layout
    k = draw(st.integers(1, len(data) + 3))
    se = draw(st.sampled_from([None, None, 2, 3, False]))
    return {"op": op, "data": data, "layout": layout, "k": k, "split_every": se, "seed": draw(st.integers(0, 10**6))}


@st.composite
def random_random_sample(draw):
    data, layout = draw(_population())
    return {
        "op": "random_sample",
        "data": data,
        "layout": layout,
        "prob": draw(st.sampled_from([0, 0.1, 0.3, 0.5, 0.5, 0.9, 1])),
        "rs": draw(st.sampled_from(["int", "Random"])),
        "seed": draw(st.integers(0, 10**6)),
    }


SUBCHECKS = [
    Sub(
        "enum",
        check_sampling,
        kind="enum",
        cases=enum_cases,
        nontrivial=nontrivial,
        classes=classes,
        exhaustive=True,
        doc="sample/choices: populations of 0..5 (thorough 6) elements with duplicates x all layouts into <=3 partitions x k=1..n+3 x split_every None/2 x seeds",
    ),
    Sub(
        "k_zero",
        check_sampling,
        kind="enum",
        cases=enum_k_zero,
        nontrivial=lambda spec: len(spec["layout"]["sizes"]) >= 2,
        classes=classes,
        exhaustive=True,
        doc="sample/choices with k=0 over populations of 0..4 elements x all layouts into <=3 partitions (expected: [])",
    ),
    Sub(
        "random",
        check_sampling,
        strategy=lambda tier: random_sampling(),
        n={"quick": 2500, "thorough": 60000},
        nontrivial=nontrivial,
        classes=classes,
        doc="sample/choices: populations to 25 elements (duplicates, strings), up to 9 partitions incl. empty ones, k=1..size+3, split_every None/2/3/False",
    ),
    Sub(
        "random_sample",
        check_random_sample,
        strategy=lambda tier: random_random_sample(),
        n={"quick": 1200, "thorough": 30000},
        nontrivial=nontrivial,
        classes=classes,
        doc="Bag.random_sample(prob, random_state): recompute, rebuild, threads scheduler, subsequence",
    ),
]
