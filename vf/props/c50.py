"""C50 — block-wise text reading reproduces the file exactly.

read_bytes clauses: the blocks of every file concatenate to the file's bytes and
every block boundary position 0 < p < len(content) lies just after an
occurrence of the delimiter (a block that finds no further delimiter runs to
EOF; the blocks after it are empty — boundaries at p == len(content) are EOF,
not delimiter boundaries, and are not judged).

read_text clauses: for every blocksize (None = streaming) the computed lines
equal the reference "split after each delimiter, no empty trailing element"
list of the files in order; with include_path every line is paired with the
path of the file it came from; files_per_partition only regroups.

Files are written under /var/tmp/vf-c50/<pid>/ and removed in ``finally``.

Newline handling (why "\\r" is kept out of the alphabet when linedelimiter is
None): without an explicit delimiter both code paths read in universal-newline
mode (io docs: "\\r" and "\\r\\n" are translated to "\\n"), so the file is not
reproduced verbatim by design.  With an explicit "\\n", "\\r" or "\\r\\n" the io
layer splits on exactly that string and translates nothing; with any other
delimiter no newline processing happens.  Those cases keep "\\r"/"\\n" in the
alphabet as inert characters.

Delimiters that can overlap themselves ("aa", "a|a", "\\n\\n": a proper prefix
equals a suffix) are exercised in their own sub-checks (text_overlap*): for
them "the" split is the left-to-right non-overlapping one (str.split), which
is what blocksize=None computes.
"""
from __future__ import annotations

import itertools
import os
import shutil

from hypothesis import strategies as st

from vf.core import Sub, Violation, count, ensure, impl, short

PROPERTY = "C50"
LEVEL = "exploration"
PRELOAD = ["dask.bag", "dask.bytes"]
TECHNIQUE = "differential testing against str.split/bytes slicing on real files: exhaustive small alphabet x all blocksizes + Hypothesis (unicode, several files)"
RULE = (
    "bytes_enum / text_enum / text_overlap (EXHAUSTIVE): every content over the alphabet {a,b,|} of length <=5 (quick) / <=6 "
    "(thorough) x delimiter in {'|','a|','aa'} (bytes; text_enum: '|','a|'; text_overlap: 'aa','a|a') x EVERY blocksize "
    "1..len+2 (text: plus None).  bytes_random / text_random: 1-3 files, contents built from tokens (delimiter, its single "
    "characters, a, b, space, 2- and 3-byte UTF-8 characters, U+2028, inert \\r/\\n where the documentation allows), delimiters "
    "'|','a|','ab','\\n','\\r\\n','\\r','→','é|' and None (text), blocksize None or 1..max+2, files_per_partition, "
    "include_path.  Non-trivial: some file has >=2 nominal blocks and contains the delimiter and (ends with the "
    "delimiter, or blocksize < len(delimiter), or a multiple of blocksize falls strictly inside a delimiter occurrence); "
    "for text also: blocksize None with a file ending in the delimiter."
)
ASSUMPTIONS = [
    "local files through fsspec's LocalFileSystem; fsspec.utils.read_block is part of the system under test",
    "encoding utf-8 is passed explicitly; delimiters are valid UTF-8 strings, so they cannot match inside a multi-byte character",
    "linedelimiter=None is exercised only on contents without '\\r' (universal-newline translation is documented io behaviour)",
    "linedelimiter='' is not exercised (it is no delimiter for read_bytes)",
]

SCRATCH = "/var/tmp/vf-c50"
_counter = itertools.count()


class _Files:
    """write the spec's files into a fresh per-process directory; remove it afterwards"""

    def __init__(self, contents):
        self.contents = contents

    def __enter__(self):
        self.dir = os.path.join(SCRATCH, str(os.getpid()), f"c{next(_counter)}")
        os.makedirs(self.dir, exist_ok=True)
        paths = []
        for i, c in enumerate(self.contents):
            p = os.path.join(self.dir, f"f{i}.txt")
            with open(p, "wb") as fh:
                fh.write(c)
            paths.append(p)
        return paths

    def __exit__(self, *exc):
        shutil.rmtree(self.dir, ignore_errors=True)
        try:
            os.rmdir(os.path.dirname(self.dir))
        except OSError:
            pass
        return False


def TEARDOWN():
    # per-pid directories are removed by the workers; drop leftovers of killed workers older than this run
    if os.path.isdir(SCRATCH):
        for name in os.listdir(SCRATCH):
            p = os.path.join(SCRATCH, name)
            if name.isdigit() and os.path.isdir(p) and not os.listdir(p):
                try:
                    os.rmdir(p)
                except OSError:
                    pass
        try:
            os.rmdir(SCRATCH)  # only succeeds when nothing is left
        except OSError:
            pass


def self_overlapping(d):
    return any(d[:i] == d[-i:] for i in range(1, len(d)))


def overlapping_occurrences(text, d):
    """two occurrences of d in text overlap each other (e.g. 'aaa' for 'aa'): only then does "the" split depend on
    where scanning starts, which is what distinguishes the block-wise readers from the left-to-right str.split"""
    i = text.find(d)
    while i != -1:
        j = text.find(d, i + 1)
        if j != -1 and j - i < len(d):
            return True
        i = j
    return False


def delim_class(d):
    if d is None:
        return "default"
    if d == "\n":
        return "newline"
    if d in ("\r", "\r\n"):
        return "cr-newline"
    if self_overlapping(d):
        return "overlap"
    return "single" if len(d.encode()) == 1 else "multi"


# --------------------------------------------------------------------- read_bytes
def check_bytes(spec):
    import dask
    from dask.bytes import read_bytes

    contents = [c.encode("utf-8") for c in spec["files"]]
    d = spec["delim"].encode("utf-8")
    bs = spec["blocksize"]
    sig = dict(delim=delim_class(spec["delim"]), blocksize_none=bs is None, nfiles=min(len(contents), 2))
    with _Files(contents) as paths:
        with impl("read_bytes", **sig):
            out = read_bytes(paths if len(paths) > 1 else paths[0], delimiter=d, blocksize=bs, sample=False, include_path=spec.get("include_path", False))
            if spec.get("include_path"):
                _, blocks, rpaths = out
            else:
                _, blocks = out
                rpaths = None
            values = [list(dask.compute(*bl, scheduler="sync")) if bl else [] for bl in blocks]
    ensure(len(values) == len(contents), f"{len(contents)} files but {len(values)} block lists", "block-lists", **sig)
    if rpaths is not None:
        ensure(list(rpaths) == paths, f"paths {rpaths} != {paths}", "paths", **sig)
    for content, vals in zip(contents, values):
        ensure(all(isinstance(v, bytes) for v in vals), f"non-bytes block in {short(vals)}", "block-type", **sig)
        joined = b"".join(vals)
        ensure(
            joined == content,
            f"blocks {vals} join to {joined!r}, file is {content!r} (delimiter {d!r}, blocksize {bs})",
            "blocks-do-not-reproduce-file",
            **sig,
        )
        p = 0
        for v in vals[:-1]:
            p += len(v)
            if 0 < p < len(content):
                ensure(
                    content[max(0, p - len(d)) : p] == d,
                    f"block boundary at byte {p} of {content!r} is not just after delimiter {d!r} (blocks {vals}, blocksize {bs})",
                    "boundary-not-after-delimiter",
                    **sig,
                )
        count("blocks", len(vals))


def _cuts_delim(content, d, bs):
    """a multiple of bs falls strictly inside an occurrence of d"""
    i = content.find(d)
    while i != -1:
        for p in range(i + 1, i + len(d)):
            if p % bs == 0:
                return True
        i = content.find(d, i + 1)
    return False


def _nt_file(content, d, bs):
    if bs is None or bs >= len(content) or d not in content:
        return False
    return content.endswith(d) or bs < len(d) or _cuts_delim(content, d, bs)


def nontrivial_bytes(spec):
    d = spec["delim"].encode("utf-8")
    return any(_nt_file(c.encode("utf-8"), d, spec["blocksize"]) for c in spec["files"])


def classes_bytes(spec):
    d = spec["delim"]
    yield "delim-" + delim_class(d)
    bs = spec["blocksize"]
    yield "blocksize-none" if bs is None else ("blocksize<delim" if bs < len(d.encode()) else "blocksize>=delim")
    for c in spec["files"]:
        if not c:
            yield "empty-file"
        elif d not in c:
            yield "no-delimiter"
        else:
            if c.endswith(d):
                yield "trailing-delimiter"
            if d + d in c:
                yield "run-of-delimiters"
        if bs is not None and _cuts_delim(c.encode(), d.encode(), bs):
            yield "cut-inside-delimiter"
        if any(ord(ch) > 127 for ch in c):
            yield "multibyte"
    if len(spec["files"]) > 1:
        yield "several-files"


# --------------------------------------------------------------------- read_text
def ref_lines(text, d):
    """the file split after each delimiter, no empty trailing element"""
    parts = text.split(d)
    out = [p + d for p in parts[:-1]]
    if parts[-1]:
        out.append(parts[-1])
    return out


def check_text(spec):
    import dask.bag as db

    texts = spec["files"]
    contents = [c.encode("utf-8") for c in texts]
    d = spec["delim"]
    bs = spec["blocksize"]
    fpp = spec.get("fpp")
    ip = bool(spec.get("include_path"))
    all_empty = all(not c for c in contents)
    sig = dict(
        blocksize_none=bs is None,
        delim=delim_class(d),
        all_files_empty=all_empty,
        # a delimiter that the io layer does not treat as a newline convention (read_text splits the text itself)
        custom_delim=d not in (None, "\n", "\r", "\r\n"),
        # some file contains two occurrences of the delimiter that overlap each other (only possible for
        # self-overlapping delimiters); the known block-alignment findings need this, nothing else may hide behind them
        overlapping_occurrences=d is not None and any(overlapping_occurrences(t, d) for t in texts),
    )
    with _Files(contents) as paths:
        want = []
        for t, p in zip(texts, paths):
            for line in ref_lines(t, d if d is not None else "\n"):
                want.append((line, p) if ip else line)
        with impl("read_text", **sig):
            bag = db.read_text(
                paths if len(paths) > 1 else paths[0],
                blocksize=bs,
                linedelimiter=d,
                encoding="utf-8",
                files_per_partition=fpp,
                include_path=ip,
            )
            got = list(bag.compute(scheduler="sync"))
    if got == want:
        return
    desc = f"read_text(files={texts!r}, linedelimiter={d!r}, blocksize={bs}, files_per_partition={fpp}, include_path={ip})"
    line_of = (lambda e: e[0]) if ip else (lambda e: e)
    ok_shape = all((isinstance(e, tuple) and len(e) == 2 and isinstance(e[0], str)) if ip else isinstance(e, str) for e in got)
    ensure(ok_shape, f"{desc}: malformed elements {short(got)}", "element-shape", **sig)
    if [e for e in got if line_of(e) != ""] == want:
        raise Violation(f"{desc} yields empty-string lines: {got!r}; expected {want!r}", "trailing-empty-line", **sig)
    if ip and [line_of(e) for e in got] == [line_of(e) for e in want]:
        raise Violation(f"{desc}: lines are right but paired with the wrong path: {got!r} vs {want!r}", "wrong-path", **sig)
    if "".join(line_of(e) for e in got) != "".join(texts):
        raise Violation(f"{desc} loses or invents text: lines {got!r} join to something else than the files; expected {want!r}", "text-not-reproduced", **sig)
    raise Violation(f"{desc} = {got!r}; expected {want!r}", "lines-differ", **sig)


def nontrivial_text(spec):
    d = spec["delim"] if spec["delim"] is not None else "\n"
    bs = spec["blocksize"]
    if bs is None:
        return any(c.endswith(d) for c in spec["files"])
    return any(_nt_file(c.encode("utf-8"), d.encode("utf-8"), bs) for c in spec["files"])


def classes_text(spec):
    s2 = dict(spec)
    s2["delim"] = spec["delim"] if spec["delim"] is not None else "\n"
    yield from classes_bytes(s2)
    if spec["delim"] is None:
        yield "delim-None"
    if spec.get("fpp"):
        yield "files-per-partition"
    if spec.get("include_path"):
        yield "include-path"
    if spec["delim"] is not None and any(overlapping_occurrences(t, spec["delim"]) for t in spec["files"]):
        yield "overlapping-occurrences"


# --------------------------------------------------------------------- enumeration
def _contents(maxlen):
    for n in range(maxlen + 1):
        for t in itertools.product("ab|", repeat=n):
            yield "".join(t)


def _maxlen(tier):
    return 5 if tier == "quick" else 6


def enum_bytes(tier):
    for c in _contents(_maxlen(tier)):
        for d in ("|", "a|", "aa"):
            for bs in range(1, len(c) + 3):
                yield {"files": [c], "delim": d, "blocksize": bs}


def _enum_text(delims):
    def cases(tier):
        for c in _contents(_maxlen(tier)):
            for d in delims:
                for bs in [None, *range(1, len(c) + 3)]:
                    yield {"files": [c], "delim": d, "blocksize": bs}

    return cases


# --------------------------------------------------------------------- random
DELIMS_BYTES = ["|", "a|", "ab", "\n", "\r\n", "→", "é|", "aa", "||"]
DELIMS_TEXT = [None, "\n", "|", "a|", "ab", "\r\n", "\r", "→", "é|"]
DELIMS_OVERLAP = ["aa", "||", "\n\n", "a|a", "abab"]


def _alphabet(d, for_text):
    base = ["a", "b", " ", "é", "→", "\u2028", "ü"]
    dd = "\n" if d is None else d
    toks = [dd, dd, dd] + list(dict.fromkeys(dd)) + base
    if not for_text or d is not None:
        # explicit delimiter: no newline translation anywhere -> \r and \n are ordinary characters
        toks += ["\n", "\r"]
    elif d is None:
        toks += ["\n"]
    return toks


@st.composite
def _file_set(draw, d, for_text):
    toks = _alphabet(d, for_text)
    nfiles = draw(st.sampled_from([1, 1, 2, 3]))
    files = []
    for _ in range(nfiles):
        n = draw(st.sampled_from([0, 1, 2, 3, 5, 8, 12]))
        files.append("".join(draw(st.lists(st.sampled_from(toks), min_size=n, max_size=n))))
    return files


def _blocksizes(files):
    m = max([len(c.encode("utf-8")) for c in files] + [1])
    return st.one_of(st.integers(1, min(m + 2, 6)), st.integers(1, m + 2))


@st.composite
def random_bytes(draw):
    d = draw(st.sampled_from(DELIMS_BYTES))
    files = draw(_file_set(d, False))
    bs = draw(st.one_of(st.none(), _blocksizes(files), _blocksizes(files), _blocksizes(files)))
    return {"files": files, "delim": d, "blocksize": bs, "include_path": draw(st.booleans())}


def _random_text(delims):
    @st.composite
    def s(draw):
        d = draw(st.sampled_from(delims))
        files = draw(_file_set(d, True))
        bs = draw(st.one_of(st.none(), _blocksizes(files), _blocksizes(files)))
        fpp = None
        if bs is None and draw(st.booleans()):
            fpp = draw(st.integers(1, 3))
        return {"files": files, "delim": d, "blocksize": bs, "fpp": fpp, "include_path": draw(st.booleans())}

    return s()


SUBCHECKS = [
    Sub(
        "bytes_enum",
        check_bytes,
        kind="enum",
        cases=enum_bytes,
        nontrivial=nontrivial_bytes,
        classes=classes_bytes,
        exhaustive=True,
        doc="read_bytes: all contents over {a,b,|} up to length 5 (quick) / 6 (thorough) x delimiters '|','a|','aa' x all blocksizes 1..len+2",
    ),
    Sub(
        "bytes_random",
        check_bytes,
        strategy=lambda tier: random_bytes(),
        n={"quick": 1500, "thorough": 40000},
        nontrivial=nontrivial_bytes,
        classes=classes_bytes,
        doc="read_bytes: 1-3 files, UTF-8 multibyte contents, multi-byte / newline / self-overlapping delimiters, blocksize None or 1..max+2, include_path",
    ),
    Sub(
        "text_enum",
        check_text,
        kind="enum",
        cases=_enum_text(("|", "a|")),
        nontrivial=nontrivial_text,
        classes=classes_text,
        exhaustive=True,
        doc="read_text: all contents over {a,b,|} up to length 5/6 x linedelimiter '|','a|' x blocksize None and 1..len+2",
    ),
    Sub(
        "text_random",
        check_text,
        strategy=lambda tier: _random_text(DELIMS_TEXT),
        n={"quick": 1500, "thorough": 40000},
        nontrivial=nontrivial_text,
        classes=classes_text,
        doc="read_text: 1-3 files, unicode, delimiters None/newlines/custom/multibyte, blocksize None or int, files_per_partition, include_path",
    ),
    Sub(
        "text_overlap",
        check_text,
        kind="enum",
        cases=_enum_text(("aa", "a|a")),
        nontrivial=nontrivial_text,
        classes=classes_text,
        exhaustive=True,
        doc="read_text with SELF-OVERLAPPING delimiters 'aa','a|a': all contents over {a,b,|} up to length 5/6 x blocksize None and 1..len+2",
    ),
    Sub(
        "text_overlap_random",
        check_text,
        strategy=lambda tier: _random_text(DELIMS_OVERLAP),
        n={"quick": 400, "thorough": 10000},
        nontrivial=nontrivial_text,
        classes=classes_text,
        doc="read_text with self-overlapping delimiters ('aa','||','\\n\\n','a|a','abab'), several files, unicode",
    ),
]
