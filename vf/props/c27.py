"""C27 — counting, set, search and histogram routines equal NumPy."""
from __future__ import annotations

import itertools

import numpy as np
from hypothesis import strategies as st

from vf import arrays as A
from vf.core import Reject, Sub, Violation, ensure, impl, reference
from vf.props import _arrcommon2 as C

PROPERTY = "C27"
PRELOAD = ["dask.array"]
LEVEL = "exploration"
RULE = (
    "One case = one routine with NumPy-valid arguments on small-range integer or float data (values 0..4 / -9..9, so duplicates are "
    "everywhere and straddle chunk boundaries; bin edges are drawn from the same integer grid so many samples sit exactly on edges; "
    "floats optionally with NaN) under random irregular chunkings incl. a ~10 % stratum with explicit zero-size chunks. Routines: unique "
    "(all 8 combinations of return_index/return_inverse/return_counts), bincount (weights, minlength), histogram and histogram2d (explicit "
    "non-uniform edges or (bins, range), weights, density), digitize (right, increasing/decreasing bins), searchsorted (side, sorted dask "
    "haystack, n-d needles), isin (invert, assume_unique, list/ndarray/dask test elements), nonzero/argwhere/flatnonzero/count_nonzero "
    "(axis), ravel_multi_index/unravel_index (mode, order), coarsen (sum/max/min/mean, trim_excess), compress (axis, short conditions, dask "
    "conditions). enum: ALL chunkings of (6,), (7,) and (3,2)/(2,4) x a fixed list of ~45 routine/argument combinations. Oracle: the NumPy "
    "routine on the concatenated data: equal shape, dtype and values (exact; density/mean within 1e-12 relative); outputs of unknown length "
    "are compared after compute; tuple results element-wise. NumPy rejecting the arguments => case rejected. Non-trivial: some value occurs "
    "in two different blocks of the input (and for the histogram family additionally a sample lies exactly on a bin edge)."
)
ASSUMPTIONS = [
    "NumPy 2.x is the reference (np.unique inverse has the input's shape for axis=None)",
    "documented dask preconditions are generated: weights chunked like the data, histogram needs explicit bins or (bins, range), "
    "histogram2d coordinates chunked identically, searchsorted haystack is sorted, assume_unique only with unique inputs",
    "weights are integer-valued or multiples of 0.25 so that per-block partial sums are exact",
    "coarsen has no NumPy counterpart: the reference is reshape-and-reduce of the (trimmed) array, as its docstring describes",
    "NOT explored (pathological strata whose failures lie in shared machinery owned by other properties, see tame()): explicit "
    "zero-size chunks on axes of length <= 1 (elementwise broadcasting defect, C19 finding zero-chunk-on-len1-axis); n-d inputs with "
    "explicit zero-size chunks or zero-length axes for the routines that flatten their input (unique, nonzero/argwhere/flatnonzero, "
    "compress(axis=None)) and n-d searchsorted needles with zero-size chunks (da.ravel/reshape and reductions over zero-size chunks "
    "raise there: C24/C22). 1-d inputs keep the zero-size-chunk and zero-length strata for every routine",
]
TECHNIQUE = "differential testing against NumPy; exhaustive chunkings of small shapes x fixed routine list plus Hypothesis-generated routines/arguments/chunkings"

INT_FILLS = ("dups", "dups", "small")


# --------------------------------------------------------------------------
# apply


def _arr(lib_is_da, xs, k, kinds):
    return xs[k]


def apply(op, a, xs, is_da):
    """xs: list of NumPy arrays (reference) or dask/NumPy arrays (implementation)."""
    import dask.array as da

    lib = da if is_da else np
    x = xs[0]
    if op == "unique":
        return lib.unique(x, return_index=a["index"], return_inverse=a["inverse"], return_counts=a["counts"])
    if op == "bincount":
        kw = {}
        if a.get("weights") is not None:
            kw["weights"] = xs[a["weights"]]
        if a.get("minlength"):
            kw["minlength"] = a["minlength"]
        return lib.bincount(x, **kw)
    if op == "histogram":
        kw = {}
        bins = a["bins"]
        if isinstance(bins, list):
            bins = np.asarray(bins) if a.get("bins_array", True) else list(bins)
        if a.get("range") is not None:
            kw["range"] = tuple(a["range"])
        if a.get("weights") is not None:
            kw["weights"] = xs[a["weights"]]
        if a.get("density") is not None:
            kw["density"] = a["density"]
        return lib.histogram(x, bins=bins, **kw)
    if op == "histogram2d":
        kw = {}
        bins = a["bins"]
        if isinstance(bins, list) and bins and isinstance(bins[0], list):
            bins = [np.asarray(b) for b in bins]
        if a.get("range") is not None:
            kw["range"] = tuple(tuple(r) for r in a["range"])
        if a.get("weights") is not None:
            kw["weights"] = xs[a["weights"]]
        if a.get("density") is not None:
            kw["density"] = a["density"]
        return lib.histogram2d(x, xs[1], bins=bins, **kw)
    if op == "digitize":
        return lib.digitize(x, np.asarray(a["bins"]), right=a["right"])
    if op == "searchsorted":
        return lib.searchsorted(x, xs[1], side=a["side"])
    if op == "isin":
        test = xs[1] if a.get("test") == "array" else a["values"]
        return lib.isin(x, test, assume_unique=a.get("assume_unique", False), invert=a.get("invert", False))
    if op == "nonzero":
        return lib.nonzero(x)
    if op == "argwhere":
        return lib.argwhere(x)
    if op == "flatnonzero":
        return lib.flatnonzero(x)
    if op == "count_nonzero":
        ax = a.get("axis")
        return lib.count_nonzero(x, axis=tuple(ax) if isinstance(ax, list) else ax)
    if op == "ravel_multi_index":
        mi = tuple(xs) if a.get("form", "tuple") == "tuple" else lib.stack(list(xs))
        return lib.ravel_multi_index(mi, tuple(a["dims"]), mode=a.get("mode", "raise"), order=a.get("order", "C"))
    if op == "unravel_index":
        return lib.unravel_index(x, tuple(a["shape"]), order=a.get("order", "C"))
    if op == "coarsen":
        red = {"sum": np.sum, "max": np.max, "min": np.min, "mean": np.mean}[a["reduction"]]
        axes = {int(k): v for k, v in a["axes"].items()}
        if is_da:
            return da.coarsen(red, x, axes, trim_excess=a["trim_excess"])
        return np_coarsen(red, x, axes, a["trim_excess"])
    if op == "compress":
        cond = xs[1] if a.get("cond") == "array" else a["condition"]
        return lib.compress(cond, x, axis=a.get("axis"))
    raise ValueError(op)


def np_coarsen(red, x, axes, trim_excess):
    """Reference: trim the excess, split every coarsened axis into (n // k, k), reduce the k axes."""
    sl = []
    for i, n in enumerate(x.shape):
        k = axes.get(i, 1)
        if n % k and not trim_excess:
            raise ValueError("does not align")
        sl.append(slice(0, n // k * k))
    x = x[tuple(sl)]
    shp = []
    for i, n in enumerate(x.shape):
        k = axes.get(i, 1)
        shp += [n // k, k]
    return red(x.reshape(shp), axis=tuple(range(1, 2 * x.ndim, 2)))


INEXACT = {"histogram", "histogram2d", "coarsen"}


def build(case):
    nps, dks = [], []
    for arr, kind in zip(case["arrays"], case["kinds"]):
        x = A.build_np(arr)
        if arr.get("sorted"):
            x = np.sort(x, axis=None).reshape(x.shape)
        if arr.get("unique"):
            # distinct values (assume_unique precondition): a permutation of 0..size-1 scaled
            rng = np.random.default_rng(arr.get("seed", 0))
            x = (rng.permutation(x.size) - arr.get("offset", 0)).astype(x.dtype).reshape(x.shape)
        if arr.get("abs"):
            x = np.abs(x)
        if arr.get("quarter"):
            x = x * 0.25
        if arr.get("as_bool"):
            x = x % 2 == 0
        nps.append(x)
        dks.append(A.build_da(arr, x) if kind == "da" else x)
    return nps, dks


def has_nan(x):
    return x.dtype.kind == "f" and bool(np.isnan(x).any())


def check(case):
    import dask.array as da

    op, a = case["op"], case["args"]
    nps, dks = build(case)
    with np.errstate(all="ignore"):
        status, want = reference(apply, op, a, nps, False)
    if status == "err":
        raise Reject(f"NumPy rejects the arguments: {want}")
    das = [arr for arr, k in zip(case["arrays"], case["kinds"]) if k == "da"]
    sig = dict(op=op, zero_chunk=C.zero_chunk(*das), empty=any(0 in arr["shape"] for arr in case["arrays"]), nan=has_nan(nps[0]))
    if op == "bincount":
        # NumPy: minlength is a *minimum* number of bins
        m = a.get("minlength") or 0
        sig["minlength_below_max"] = bool(nps[0].size and 0 < m <= int(nps[0].max()))
    if op == "unique":
        sig["flags"] = "".join(f for f, on in (("i", a["index"]), ("v", a["inverse"]), ("c", a["counts"])) if on) or "-"
    with impl(op, **sig), np.errstate(all="ignore"):
        r = apply(op, a, dks, True)
        parts = list(r) if isinstance(r, (tuple, list)) else [r]
        got = [np.asarray(A.compute(p)) if isinstance(p, da.Array) else np.asarray(p) for p in parts]
    wparts = list(want) if isinstance(want, (tuple, list)) else [want]
    what = f"{op}({a}) on chunks {[arr['chunks'] for arr in case['arrays']]}"
    ensure(len(got) == len(wparts), f"{what}: {len(got)} results, NumPy returns {len(wparts)}", "result-count", **sig)
    ensure(any(isinstance(p, da.Array) for p in parts), f"{what}: no dask array in the result", "not-a-dask-array", **sig)
    for j, (g, w, p) in enumerate(zip(got, wparts, parts)):
        psig = dict(sig, part=j)
        w = np.asarray(w)
        if op in INEXACT and w.dtype.kind == "f":
            A.same_array(g, w, exact=False, rtol=1e-12, atol=1e-12, what=f"{what} [result {j}]", sig=psig)
        elif op == "unique" and sig["nan"] and j > 0:
            # input class of finding 'unique-nan-*': say whether a mismatch is confined to the collapsed NaN entry
            try:
                A.same_array(g, w, what=f"{what} [result {j}]", sig=psig)
            except Violation as v:
                if v.sig.get("symptom") != "value-mismatch":
                    raise
                kind = [k for k, on in (("index", a["index"]), ("inverse", a["inverse"]), ("counts", a["counts"])) if on][j - 1]
                nanpos = np.isnan(nps[0]) if kind == "inverse" else np.isnan(np.asarray(wparts[0]))
                confined = g.shape == w.shape == nanpos.shape and np.array_equal(g[~nanpos], w[~nanpos])
                raise Violation(v.message, "value-mismatch", **dict(psig, part_kind=kind, only_nan_entry=bool(confined))) from None
        elif op == "bincount" and a.get("weights") is not None and nps[0].size == 0:
            # NumPy quirk: for an EMPTY input np.bincount ignores the weights and returns intp zeros, while for any non-empty input the
            # result has the weights' (float) type.  dask returns the weighted dtype in both cases, which is the consistent reading;
            # the dtype of this one corner is not demanded (shape and values still are).
            A.same_array(g, w, what=f"{what} [result {j}]", sig=psig, check_dtype=False)
        else:
            A.same_array(g, w, what=f"{what} [result {j}]", sig=psig)
        if isinstance(p, da.Array):
            A.check_meta(p, g, what=f"{what} [result {j}]", sig=psig)
            if C.known_chunks(p.chunks):
                C.check_chunks_valid(p, what, psig)


# --------------------------------------------------------------------------
# non-triviality, classes


def value_in_two_blocks(arr, x):
    sl = C.block_slices(arr["chunks"])
    if len(sl) < 2:
        return False
    seen = {}
    for idx in sorted(sl):
        vals = np.unique(x[sl[idx]])
        for v in vals.tolist():
            if v in seen and seen[v] != idx:
                return True
            seen.setdefault(v, idx)
    return False


def nontrivial(case):
    nps, _ = build(case)
    arr = case["arrays"][0]
    if case["kinds"][0] != "da" or not value_in_two_blocks(arr, nps[0]):
        return False
    if case["op"] in ("histogram", "histogram2d", "digitize"):
        bins = case["args"]["bins"]
        if isinstance(bins, list):
            edges = bins[0] if bins and isinstance(bins[0], list) else bins
        else:
            rng = case["args"].get("range")
            if rng is None:
                return False
            r0 = rng[0] if isinstance(rng[0], list) else rng
            nb = bins if isinstance(bins, int) else bins[0]
            edges = np.linspace(r0[0], r0[1], nb + 1).tolist()
        return bool(np.isin(nps[0], np.asarray(edges)).any())
    return True


def classes(case):
    yield "op-" + case["op"]
    das = [arr for arr, k in zip(case["arrays"], case["kinds"]) if k == "da"]
    if C.zero_chunk(*das):
        yield "zero-size-chunk"
    if any(0 in arr["shape"] for arr in case["arrays"]):
        yield "zero-length"
    if case["arrays"][0].get("special"):
        yield "nan-injected"
    yield "dtype-" + case["arrays"][0]["dtype"]
    if case["op"] == "unique":
        a = case["args"]
        yield "unique-flags-" + ("".join(f for f, on in (("i", a["index"]), ("v", a["inverse"]), ("c", a["counts"])) if on) or "none")


def mk(op, arrays, args, kinds=None):
    return {"op": op, "arrays": arrays, "kinds": kinds or ["da"] * len(arrays), "args": args}


# --------------------------------------------------------------------------
# strategies


def tame(arr, ravels=False):
    """Remove the pathological strata that are NOT explored here because they fail in shared machinery that other properties
    own, not in the routines C27 is about (see ASSUMPTIONS):
    * an explicit zero-size chunk on an axis of length <= 1 (chunks (1, 0) / (0, 1) / (0, 0)): elementwise broadcasting treats the
      axis as length-1-broadcastable and merges it to one block while the output keeps two (``(d + 1).compute()`` has the wrong
      length) -- C19's finding 'zero-chunk-on-len1-axis';
    * for routines that flatten their input first (``ravels``: unique, nonzero/argwhere/flatnonzero, compress(axis=None)) n-d
      inputs with explicit zero-size chunks or zero-length axes: ``da.ravel``/``reshape`` itself raises there (C24's subject).
      1-d inputs keep both strata."""
    shape, chunks = list(arr["shape"]), [list(c) for c in arr["chunks"]]
    nd_ravel = ravels and len(shape) > 1
    for i, n in enumerate(shape):
        if nd_ravel and n == 0:
            shape[i], chunks[i] = 1, [1]
        elif n <= 1 or nd_ravel:
            chunks[i] = [c for c in chunks[i] if c] or [0]
    return dict(arr, shape=shape, chunks=chunks)


@st.composite
def data(draw, nd=None, max_dims=2, top=None, dtypes=("i8", "f8", "i4"), nan=False, min_side=1, zero_p=0.1, fills=INT_FILLS, shape=None, ravels=False):
    if shape is None:
        nd = draw(st.integers(1, max_dims)) if nd is None else nd
        top = top or {1: 12, 2: 6, 3: 4}[nd]
        lo = 0 if 40 <= draw(st.integers(0, 99)) < 46 else min_side
        shape = [draw(st.integers(lo, top)) for _ in range(nd)]
    arr = tame(draw(C.arr(shape=shape, dtypes=dtypes, fills=fills, zero_p=zero_p)), ravels)
    if nan and np.dtype(arr["dtype"]).kind == "f" and draw(st.integers(0, 2)) == 0:
        arr["special"] = ["nan"] * draw(st.integers(1, 3))
    return arr


def like(arr, draw, dtype=None, **extra):
    """A second array with the same shape and chunks (weights, second coordinate)."""
    out = {"shape": arr["shape"], "dtype": dtype or arr["dtype"], "seed": draw(st.integers(0, 2**16)), "fill": "dups", "chunks": arr["chunks"]}
    out.update(extra)
    return out


@st.composite
def edges(draw, lo=-1, hi=6, decreasing=False):
    pts = sorted(draw(st.lists(st.integers(lo, hi), min_size=2, max_size=6, unique=True)))
    if draw(st.integers(0, 3)) == 0:
        pts = [p + 0.5 if draw(st.booleans()) else p for p in pts]
        pts = sorted(set(pts))
        if len(pts) < 2:
            pts = [0, 1]
    return pts[::-1] if decreasing else pts


@st.composite
def unique_case(draw):
    arr = draw(data(max_dims=3, nan=True, ravels=True))
    return mk("unique", [arr], {"index": draw(st.booleans()), "inverse": draw(st.booleans()), "counts": draw(st.booleans())})


@st.composite
def bincount_case(draw):
    arr = draw(data(nd=1, dtypes=("i8", "i4", "u1"), fills=("dups", "dups", "small")))
    arr["abs"] = True
    arrays = [arr]
    args = {"minlength": draw(st.sampled_from([0, 0, 0, 10, 12, 16, 1, 5]))}
    w = draw(st.sampled_from([None, "int", "float", "quarter"]))
    if w:
        arrays.append(like(arr, draw, dtype={"int": "i8", "float": "f8", "quarter": "f8"}[w], quarter=w == "quarter"))
        args["weights"] = 1
    return mk("bincount", arrays, args)


@st.composite
def histogram_case(draw):
    arr = draw(data(max_dims=2, nan=True))
    arrays = [arr]
    args = {}
    if draw(st.booleans()):
        args["bins"] = draw(edges())
        args["bins_array"] = draw(st.booleans())
    else:
        args["bins"] = draw(st.integers(1, 6))
        lo = draw(st.integers(-2, 2))
        args["range"] = [lo, lo + draw(st.integers(1, 6))]
    w = draw(st.sampled_from([None, None, "int", "quarter"]))
    if w:
        arrays.append(like(arr, draw, dtype={"int": "i8", "quarter": "f8"}[w], quarter=w == "quarter"))
        args["weights"] = 1
    args["density"] = draw(st.sampled_from([None, False, True]))
    return mk("histogram", arrays, args)


@st.composite
def histogram2d_case(draw):
    arr = draw(data(nd=1, nan=False))
    y = like(arr, draw, dtype=draw(st.sampled_from(["i8", "f8"])))
    arrays = [arr, y]
    args = {}
    mode = draw(st.sampled_from(["edges", "edges", "int", "ints"]))
    if mode == "edges":
        args["bins"] = [draw(edges()), draw(edges())]
    else:
        args["bins"] = draw(st.integers(1, 4)) if mode == "int" else [draw(st.integers(1, 4)), draw(st.integers(1, 4))]
        args["range"] = [[lo, lo + draw(st.integers(1, 5))] for lo in (draw(st.integers(-1, 2)), draw(st.integers(-1, 2)))]
    if draw(st.integers(0, 2)) == 0:
        arrays.append(like(arr, draw, dtype="f8", quarter=True))
        args["weights"] = 2
    args["density"] = draw(st.sampled_from([None, False, True]))
    return mk("histogram2d", arrays, args)


@st.composite
def search_case(draw):
    op = draw(st.sampled_from(["digitize", "searchsorted"]))
    if op == "digitize":
        arr = draw(data(max_dims=3, nan=False))
        dec = draw(st.booleans())
        return mk(op, [arr], {"bins": draw(edges(decreasing=dec)), "right": draw(st.booleans())})
    hay = draw(data(nd=1, nan=False, dtypes=("i8", "f8")))
    hay["sorted"] = True
    # (n-d needles with explicit zero-size chunks are not explored: the max(axis=0) over the per-block results then fails inside
    # the reduction/concatenate machinery, which is C22's zero-size-chunk finding, not searchsorted's offset logic)
    needles = draw(data(max_dims=2, nan=False, dtypes=("i8", "f8"), fills=("dups", "small"), ravels=True))
    return mk(op, [hay, needles], {"side": draw(st.sampled_from(["left", "right"]))})


@st.composite
def isin_case(draw):
    arr = draw(data(max_dims=3, nan=True))
    inv = draw(st.booleans())
    mode = draw(st.sampled_from(["list", "array", "array", "unique"]))
    if mode == "list":
        return mk("isin", [arr], {"values": draw(st.lists(st.integers(-2, 5), max_size=5)), "invert": inv})
    if mode == "unique":
        arr = dict(arr, unique=True, special=[])
        test = draw(data(max_dims=1, dtypes=(arr["dtype"],)))
        test = dict(test, unique=True, offset=draw(st.integers(0, 4)))
        return mk("isin", [arr, test], {"test": "array", "assume_unique": True, "invert": inv}, ["da", draw(st.sampled_from(["da", "np"]))])
    test = draw(data(max_dims=2, dtypes=("i8", "f8")))
    return mk("isin", [arr, test], {"test": "array", "invert": inv}, ["da", draw(st.sampled_from(["da", "np"]))])


@st.composite
def nonzero_case(draw):
    op = draw(st.sampled_from(["nonzero", "argwhere", "flatnonzero", "count_nonzero", "count_nonzero"]))
    arr = draw(data(max_dims=3, dtypes=("i8", "f8", "bool"), nan=True, ravels=op != "count_nonzero"))
    if op == "count_nonzero":
        nd = len(arr["shape"])
        mode = draw(st.sampled_from(["none", "int", "tuple"]))
        ax = None if mode == "none" else draw(st.integers(-nd, nd - 1)) if mode == "int" else draw(st.lists(st.integers(0, nd - 1), min_size=1, unique=True))
        return mk(op, [arr], {"axis": ax})
    return mk(op, [arr], {})


@st.composite
def indexconv_case(draw):
    op = draw(st.sampled_from(["ravel_multi_index", "unravel_index"]))
    dims = [draw(st.integers(1, 4)) for _ in range(draw(st.integers(1, 3)))]
    order = draw(st.sampled_from(["C", "F"]))
    if op == "unravel_index":
        arr = draw(data(max_dims=2, dtypes=("i8",), fills=("dups",)))
        total = int(np.prod(dims))
        # indices in range: dups fill gives 0..3; restrict dims so that they are valid, else NumPy rejects (=> Reject)
        if total < 4:
            dims = dims + [4]
        return mk(op, [arr], {"shape": dims, "order": order})
    first = draw(data(max_dims=2, dtypes=("i8",), fills=("dups",)))
    arrays = [first] + [like(first, draw) for _ in dims[1:]]
    mode = draw(st.sampled_from(["raise", "wrap", "clip"]))
    if mode == "raise":
        dims = [max(d, 4) for d in dims]
    return mk(op, arrays, {"dims": dims, "mode": mode, "order": order, "form": draw(st.sampled_from(["tuple", "tuple", "stacked"]))})


@st.composite
def coarsen_case(draw):
    nd = draw(st.integers(1, 3))
    ks = [draw(st.sampled_from([1, 2, 2, 3])) for _ in range(nd)]
    trim = draw(st.booleans())
    shape = []
    for k in ks:
        m = draw(st.integers(1, 4))
        shape.append(m * k + (draw(st.integers(0, k - 1)) if trim else 0))
    arr = draw(data(shape=shape, dtypes=("i8", "f8")))
    axes = {str(i): k for i, k in enumerate(ks) if k > 1 or draw(st.booleans())}
    return mk("coarsen", [arr], {"reduction": draw(st.sampled_from(["sum", "max", "min", "mean"])), "axes": axes, "trim_excess": trim})


@st.composite
def compress_case(draw):
    arr = draw(data(max_dims=3, dtypes=("i8", "f8")))
    nd = len(arr["shape"])
    axis = draw(st.sampled_from([None] + list(range(-nd, nd))))
    if axis is None:
        arr = tame(arr, ravels=True)
    n = int(np.prod(arr["shape"])) if axis is None else arr["shape"][axis]
    m = max(0, n - draw(st.sampled_from([0, 0, 0, 1, 2])))  # conditions may be shorter than the axis
    if draw(st.integers(0, 2)) == 0:
        cond = {"shape": [m], "dtype": "i8", "seed": draw(st.integers(0, 999)), "fill": "dups", "chunks": draw(C.shape_chunks([m], zero_p=0.05)), "as_bool": True}
        cond = tame(cond)
        return mk("compress", [arr, cond], {"cond": "array", "axis": axis}, ["da", draw(st.sampled_from(["da", "np"]))])
    return mk("compress", [arr], {"condition": [draw(st.booleans()) for _ in range(m)], "axis": axis})


# --------------------------------------------------------------------------
# exhaustive


def enum_cases(tier):
    shapes = [[6], [7], [3, 2], [2, 4]] if tier == "quick" else [[6], [7], [8], [3, 2], [2, 4], [3, 3], [2, 2, 2]]
    i = 0
    for shape in shapes:
        nd = len(shape)
        n = int(np.prod(shape))
        ops = []
        for fl in itertools.product([False, True], repeat=3):
            ops.append(("unique", {"index": fl[0], "inverse": fl[1], "counts": fl[2]}))
        ops += [
            ("histogram", {"bins": [0, 1, 2, 4], "density": None}),
            ("histogram", {"bins": 3, "range": [0, 3], "density": True}),
            ("histogram", {"bins": [0, 1.5, 3], "weights": 1, "density": False}),
            ("digitize", {"bins": [0, 1, 3], "right": False}),
            ("digitize", {"bins": [0, 1, 3], "right": True}),
            ("digitize", {"bins": [3, 2, 0], "right": False}),
            ("isin", {"values": [0, 3], "invert": False}),
            ("isin", {"values": [1], "invert": True}),
            ("nonzero", {}), ("argwhere", {}), ("flatnonzero", {}), ("count_nonzero", {"axis": None}), ("count_nonzero", {"axis": 0}),
            ("unravel_index", {"shape": [2, 2], "order": "C"}),
            ("unravel_index", {"shape": [2, 2], "order": "F"}),
            ("compress", {"condition": [True, False, True], "axis": None}),
            ("compress", {"condition": [i % 2 == 0 for i in range(shape[0])], "axis": 0}),
            ("coarsen", {"reduction": "sum", "axes": {"0": 2}, "trim_excess": True}),
        ]
        if shape[0] >= 3:
            ops.append(("coarsen", {"reduction": "max", "axes": {"0": 3}, "trim_excess": True}))
        if nd == 1:
            ops += [
                ("bincount", {"minlength": 0}), ("bincount", {"minlength": 6}), ("bincount", {"minlength": 0, "weights": 1}),
                ("searchsorted", {"side": "left"}), ("searchsorted", {"side": "right"}),
                ("histogram2d", {"bins": [[0, 1, 2, 4], [0, 2, 4]]}), ("histogram2d", {"bins": 2, "range": [[0, 4], [0, 4]], "weights": 2, "density": True}),
                ("ravel_multi_index", {"dims": [4, 4], "mode": "raise", "order": "C", "form": "tuple"}),
                ("ravel_multi_index", {"dims": [3, 2], "mode": "wrap", "order": "F", "form": "stacked"}),
            ]
        else:
            ops += [("coarsen", {"reduction": "mean", "axes": {"0": shape[0], "1": 2}, "trim_excess": False}), ("count_nonzero", {"axis": [0, 1]})]
        for ch in A.all_chunkings(shape):
            for op, args in ops:
                i += 1
                arr = {"shape": shape, "dtype": "i8" if i % 3 else "f8", "seed": (i * 7) % 101, "fill": "dups", "chunks": ch}
                arrays = [arr]
                if op == "searchsorted":
                    arr = dict(arr, sorted=True)
                    arrays = [arr, {"shape": [5], "dtype": "i8", "seed": i % 13, "fill": "dups", "chunks": [[2, 3]]}]
                elif op in ("histogram2d", "ravel_multi_index"):
                    arrays = [arr, dict(arr, seed=arr["seed"] + 1, dtype="i8")] if op == "ravel_multi_index" else [arr, dict(arr, seed=arr["seed"] + 1)]
                    if op == "ravel_multi_index":
                        arrays[0] = dict(arr, dtype="i8")
                    if args.get("weights"):
                        arrays.append(dict(arr, seed=arr["seed"] + 2, dtype="f8", quarter=True))
                elif op == "unravel_index":
                    arrays = [dict(arr, dtype="i8")]
                elif args.get("weights"):
                    arrays.append(dict(arr, seed=arr["seed"] + 2, dtype="f8", quarter=True))
                if op == "bincount":
                    arrays[0] = dict(arrays[0], dtype="i8")
                yield mk(op, arrays, dict(args))


def _sub(name, strat, n, doc):
    return Sub(name, check, strategy=lambda tier: strat(), n=n, nontrivial=nontrivial, classes=classes, doc=doc)


SUBCHECKS = [
    Sub("enum", check, kind="enum", cases=enum_cases, nontrivial=nontrivial, classes=classes, exhaustive=True,
        doc="~40 routine/argument combinations (unique with all 8 flag sets, bincount, histogram(2d), digitize, searchsorted, isin, nonzero family, "
            "unravel/ravel, compress, coarsen) over ALL chunkings of (6,), (7,), (3,2), (2,4)"),
    _sub("unique", unique_case, {"quick": 1200, "thorough": 30000}, "unique with every flag combination, ints/floats (NaN), 1-3-d"),
    _sub("bincount", bincount_case, {"quick": 800, "thorough": 20000}, "bincount with weights / minlength"),
    _sub("histogram", histogram_case, {"quick": 1200, "thorough": 30000}, "histogram: explicit edges or (bins, range), weights, density, NaN data"),
    _sub("histogram2d", histogram2d_case, {"quick": 800, "thorough": 20000}, "histogram2d: edges / ints+range, weights, density"),
    _sub("search", search_case, {"quick": 1200, "thorough": 30000}, "digitize (right, increasing/decreasing) and searchsorted (side, sorted dask haystack)"),
    _sub("isin", isin_case, {"quick": 1000, "thorough": 25000}, "isin with list / NumPy / dask test elements, invert, assume_unique"),
    _sub("nonzero", nonzero_case, {"quick": 1000, "thorough": 25000}, "nonzero / argwhere / flatnonzero / count_nonzero(axis)"),
    _sub("indexconv", indexconv_case, {"quick": 800, "thorough": 20000}, "ravel_multi_index (mode, order, tuple/stacked) and unravel_index"),
    _sub("coarsen", coarsen_case, {"quick": 800, "thorough": 20000}, "coarsen with sum/max/min/mean, trim_excess on/off"),
    _sub("compress", compress_case, {"quick": 800, "thorough": 20000}, "compress along an axis / flattened, short and dask conditions"),
]
