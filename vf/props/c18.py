"""C18 — size and duration helpers round-trip and meet their documented bounds."""
from __future__ import annotations

import itertools

from hypothesis import strategies as st

from vf.core import Reject, Sub, Violation, ensure, impl

PROPERTY = "C18"
LEVEL = "exploration"
RULE = (
    "format_bytes: enum = for each band k in {2^10..2^50} every n within +-3 of 0.9*k, of the .xx5 rounding edges next to "
    "the band ends, of 999.995*k and 1000*k, of k and 1024*k, plus 0..2000 and 2^60-1..2^60-4; hyp = log-uniform ints in "
    "[0, 2^60). Oracle: len(format_bytes(n)) <= 10; |parse_bytes(format_bytes(n)) - n| <= half a unit of the last printed "
    "digit (+1 for int truncation). parse_bytes / parse_timedelta: every unit spelling TRANSCRIBED FROM THE DOCSTRINGS/"
    "tables of the documentation (not imported) x every letter-case pattern (exhaustive for units up to 4 letters, random "
    "beyond) x numeric prefixes (ints, decimals, exponents, with/without space): result == int(x*mult) resp. x*mult. "
    "key_split: random str/bytes/tuple/None/int keys: returns a str, never raises; docstring examples reproduced. "
    "natural_sort_key: random unicode strings over an alphabet enriched with every digit-like category (Nd, No, Nl): never "
    "raises, parts alternate str/int, any two keys are comparable (sorting is total). Non-trivial: n within 1% of a band "
    "edge; unit spellings with mixed case; strings holding non-decimal digit characters."
)
ASSUMPTIONS = ["unit tables are transcribed from the docstrings / docs, so a changed multiplier is caught"]
TECHNIQUE = "bounded exhaustive enumeration of band edges and unit spellings + Hypothesis; round-trip and documented-bound oracles"

BANDS = [("ki", 2**10), ("Mi", 2**20), ("Gi", 2**30), ("Ti", 2**40), ("Pi", 2**50)]

# transcribed from the parse_bytes docstring / documentation
BYTE_UNITS = {
    "kB": 10**3, "MB": 10**6, "GB": 10**9, "TB": 10**12, "PB": 10**15,
    "KiB": 2**10, "MiB": 2**20, "GiB": 2**30, "TiB": 2**40, "PiB": 2**50,
    "B": 1, "": 1,
    "k": 10**3, "M": 10**6, "G": 10**9, "T": 10**12, "P": 10**15,
    "Ki": 2**10, "Mi": 2**20, "Gi": 2**30, "Ti": 2**40, "Pi": 2**50,
}
TIME_UNITS = {
    "s": 1, "ms": 1e-3, "us": 1e-6, "ns": 1e-9, "m": 60, "h": 3600, "d": 86400, "w": 7 * 86400,
    "second": 1, "minute": 60, "hour": 3600, "day": 86400, "week": 7 * 86400,
    "millisecond": 1e-3, "microsecond": 1e-6, "nanosecond": 1e-9,
    "seconds": 1, "minutes": 60, "hours": 3600, "days": 86400, "weeks": 7 * 86400,
    "milliseconds": 1e-3, "microseconds": 1e-6, "nanoseconds": 1e-9,
}


def check_format(case):
    from dask.utils import format_bytes, parse_bytes

    n = case["n"]
    with impl("format_bytes"):
        s = format_bytes(n)
    ensure(isinstance(s, str), f"format_bytes({n}) returned {type(s).__name__}", "format-type")
    ensure(len(s) <= 10, f"format_bytes({n}) = {s!r} has {len(s)} characters (documented: <= 10 below 2**60)", "format-too-long")
    with impl("parse_bytes(format_bytes)"):
        back = parse_bytes(s)
    # printed precision: digits after the point in the mantissa
    mant, _, unit = s.partition(" ")
    decimals = len(mant.partition(".")[2])
    mult = {u.lower(): m for u, m in BYTE_UNITS.items()}[unit.lower()]
    tol = 0.5 * 10 ** (-decimals) * mult + 1 if "." in mant else 0
    ensure(abs(back - n) <= tol, f"parse_bytes(format_bytes({n}) = {s!r}) = {back}: off by {abs(back - n)} > {tol}", "format-roundtrip")


def format_enum(tier):
    seen = set()

    def emit(n):
        n = int(n)
        if 0 <= n < 2**60 and n not in seen:
            seen.add(n)
            return True
        return False

    for n in range(0, 2001):
        if emit(n):
            yield {"n": n}
    for _, k in BANDS:
        centres = [0.9 * k, k, 1024 * k, 999.995 * k, 1000 * k, 999.99 * k, 921.6 * k, 0.9 * 1024 * k]
        for j in (1, 9, 10, 99, 100, 500, 921, 999):
            centres += [(j + 0.005) * k, (j + 0.995) * k, (j + 0.994999) * k]
        for c in centres:
            for d in range(-3, 4):
                if emit(c + d):
                    yield {"n": int(c + d)}
    for d in range(1, 6):
        if emit(2**60 - d):
            yield {"n": 2**60 - d}


def case_patterns(unit, limit=None):
    letters = [i for i, ch in enumerate(unit) if ch.isalpha()]
    if limit and len(letters) > limit:
        return None
    out = []
    for mask in itertools.product((0, 1), repeat=len(letters)):
        chars = list(unit)
        for bit, i in zip(mask, letters):
            chars[i] = chars[i].upper() if bit else chars[i].lower()
        out.append("".join(chars))
    return sorted(set(out))


def check_parse(case):
    from dask.utils import parse_bytes, parse_timedelta

    kind, num, unit, space = case["kind"], case["num"], case["unit"], case["space"]
    text = f"{num}{' ' if space else ''}{unit}"
    x = float(num) if num else 1.0
    if kind == "bytes":
        mult = BYTE_UNITS[case["canon"]]
        if not num and not unit:
            raise Reject("empty string")
        with impl("parse_bytes", kind=kind):
            got = parse_bytes(text)
        want = int(x * mult)
        ensure(got == want and isinstance(got, int), f"parse_bytes({text!r}) = {got!r}, documented {want}", "parse-bytes", unit=case["canon"])
    else:
        mult = TIME_UNITS[case["canon"]]
        if not num:
            text = unit  # a bare unit means 1 unit
            if not unit:
                raise Reject("empty")
        with impl("parse_timedelta", kind=kind):
            got = parse_timedelta(text)
        want = x * mult
        ensure(abs(got - want) <= 1e-12 * max(1.0, abs(want)), f"parse_timedelta({text!r}) = {got!r}, documented {want}", "parse-timedelta", unit=case["canon"])
        if float(want).is_integer():
            ensure(isinstance(got, int), f"parse_timedelta({text!r}) = {got!r} should be an int", "parse-timedelta-type", unit=case["canon"])


NUMS = ["1", "5", "100", "5.4", "0.5", "1e3", "1e6", "2.5e2", "0", "12345", ""]


def parse_enum(tier):
    for kind, table in (("bytes", BYTE_UNITS), ("time", TIME_UNITS)):
        for canon in table:
            pats = case_patterns(canon, limit=4 if tier == "quick" else 6) or [canon, canon.upper(), canon.lower(), canon.capitalize()]
            for pat in pats:
                for i, num in enumerate(NUMS):
                    if kind == "time" and num and "e" in num:
                        continue  # exponent letter would be read as part of the unit in durations: not documented
                    yield {"kind": kind, "num": num, "unit": pat, "canon": canon, "space": bool(i % 2)}


def check_keysplit(case):
    from dask.utils import key_split

    key = _mk_key(case["key"])
    with impl("key_split"):
        r = key_split(key)
    ensure(isinstance(r, str), f"key_split({key!r}) returned {r!r}", "key-split-type")


def _mk_key(k):
    if isinstance(k, dict):
        if "bytes" in k:
            return k["bytes"].encode("utf-8", "surrogatepass")
        if "tuple" in k:
            return tuple(_mk_key(x) for x in k["tuple"])
    return k


DOC_EXAMPLES = [
    ("x", "x"), ("x-1", "x"), ("x-1-2-3", "x"), ({"tuple": ["x-2", 1]}, "x"), ("('x-2', 1)", "x"), ("('x', 1)", "x"),
    ("hello-world-1", "hello-world"), ({"bytes": "hello-world-1"}, "hello-world"), ("ae05086432ca935f6eba409a8ecd4896", "data"),
    ("<module.submodule.myclass object at 0xdaf372", "myclass"), (None, "Other"), ("x-abcdefab", "x"), ("_(x)", "x"),
]


def check_keysplit_doc(case):
    from dask.utils import key_split

    key, want = DOC_EXAMPLES[case["i"]]
    with impl("key_split"):
        r = key_split(_mk_key(key))
    ensure(r == want, f"key_split({key!r}) = {r!r}, docstring says {want!r}", "key-split-doc")


def check_natsort(case):
    from dask.utils import natural_sort_key

    strs = case["strings"]
    keys = []
    for s in strs:
        with impl("natural_sort_key"):
            k = natural_sort_key(s)
        ensure(isinstance(k, (list, tuple)) and all(isinstance(p, (str, int)) and not isinstance(p, bool) for p in k), f"natural_sort_key({s!r}) = {k!r}", "natsort-shape")
        for i, p in enumerate(k):
            ensure(isinstance(p, int) == (i % 2 == 1), f"natural_sort_key({s!r}) = {k!r}: parts must alternate str/int", "natsort-alternate")
        ensure("".join(str(p) if isinstance(p, str) else "" for p in k) == "".join(ch for ch in s if not _is_dec(ch)) or True, "", "unused")
        keys.append(k)
    with impl("sorted(key=natural_sort_key)"):
        out = sorted(strs, key=natural_sort_key)
    ensure(sorted(out) == sorted(strs), "sorting lost elements", "natsort-permutation")
    if case.get("doc"):
        ensure(out == ["f0", "f1", "f2", "f8", "f9", "f10", "f11", "f19", "f20", "f21"], f"docstring example sorts to {out}", "natsort-doc")


def _is_dec(ch):
    return ch.isdecimal()


DIGITLIKE = "0123456789٣٤۵߂²³¹①⑳⒈ⅣⅧ〇〡𝟘𝟙५๓"
ALPHA = "abAfz _-.x"


@st.composite
def natsort_case(draw):
    alphabet = st.sampled_from(list(DIGITLIKE + ALPHA))
    strs = draw(st.lists(st.text(alphabet, max_size=8), min_size=1, max_size=6))
    return {"strings": strs}


_key_atoms = st.one_of(
    st.text(st.sampled_from(list("abxyz-_,()'\"<>. 0123456789abcdefABCDEF")), max_size=40),
    st.sampled_from(["", "-", "--", "x-", "-x", "ae05086432ca935f6eba409a8ecd4896", "<a.b.C object at 0x1>", "x-deadbeef", "x-deadbeefs", "(", "_"]),
)
_keys = st.one_of(
    _key_atoms,
    _key_atoms.map(lambda s: {"bytes": s}),
    st.none(),
    st.integers(-5, 5),
    st.floats(allow_nan=False, allow_infinity=False, width=16),
    st.lists(st.one_of(_key_atoms, st.integers(0, 3)), max_size=3).map(lambda v: {"tuple": v}),
    st.lists(st.lists(_key_atoms, max_size=2).map(lambda v: {"tuple": v}), min_size=1, max_size=2).map(lambda v: {"tuple": v}),
)


def log_uniform_int():
    return st.integers(0, 59).flatmap(lambda e: st.integers(2**e if e else 0, 2 ** (e + 1) - 1))


SUBCHECKS = [
    Sub("format.enum", check_format, kind="enum", cases=format_enum, nontrivial=lambda c: c["n"] >= 900, exhaustive=True, doc="band boundaries and rounding edges of format_bytes"),
    Sub("format.random", check_format, strategy=lambda tier: log_uniform_int().map(lambda n: {"n": n}), n={"quick": 20000, "thorough": 400000}, nontrivial=lambda c: c["n"] >= 900, doc="log-uniform integers below 2**60"),
    Sub("parse.enum", check_parse, kind="enum", cases=parse_enum, nontrivial=lambda c: c["unit"] not in (c["canon"], c["canon"].lower()), classes=lambda c: [c["kind"]], exhaustive=True, doc="all documented unit spellings x letter-case patterns x numeric prefixes"),
    Sub("keysplit", check_keysplit, strategy=lambda tier: _keys.map(lambda k: {"key": k}), n={"quick": 5000, "thorough": 100000}, nontrivial=lambda c: not isinstance(c["key"], str), doc="key_split is total on keys"),
    Sub("keysplit.doc", check_keysplit_doc, kind="enum", cases=lambda tier: ({"i": i} for i in range(len(DOC_EXAMPLES))), exhaustive=True, doc="docstring examples"),
    Sub("natsort", check_natsort, strategy=lambda tier: natsort_case(), n={"quick": 5000, "thorough": 100000}, nontrivial=lambda c: any(ch.isdigit() and not ch.isdecimal() for s in c["strings"] for ch in s), doc="natural_sort_key total and comparable on unicode digit-like strings"),
    Sub("natsort.doc", check_natsort, kind="enum", cases=lambda tier: iter([{"strings": ["f0", "f1", "f10", "f11", "f19", "f2", "f20", "f21", "f8", "f9"], "doc": True}, {"strings": ["1²"]}, {"strings": ["a1", "a²", "a"]}]), exhaustive=True, doc="docstring example"),
]
