"""C30 — the array expression engine preserves array semantics."""
from __future__ import annotations

import atexit
import itertools
import json
import os
import select
import subprocess
import sys

import numpy as np
from hypothesis import strategies as st

from vf import arrays as A
from vf.core import Reject, Sub, Violation, count, ensure, reference
from vf.props import _c30_worker as W

PROPERTY = "C30"
PRELOAD = ["dask.array"]
LEVEL = "exploration"
RULE = (
    "A case is a straight-line pipeline: a source (from_array with explicit chunks, ones/zeros/full/arange/linspace) followed "
    "by 1-5 steps drawn from the operations the expression engine implements (probed on the pinned tree): unary and "
    "scalar elementwise ops (Python scalars; NumPy scalars on either side) and NumPy ufuncs via __array_ufunc__, binary ops with a fresh differently chunked operand "
    "(same shape, trailing-dims or size-1 broadcast), the array combined with a re-chunked copy of itself, basic slicing "
    "(slices incl. negative steps, integers, None), integer-list and dask-integer-array indexing, reductions "
    "(sum/mean/max/min/prod/any/all/nansum/nanmax as methods or top-level functions, axis None/int/tuple, keepdims, "
    "split_every), rechunk (tuples, dicts, -1, method and function form; a stratum of 6..10 x 6..10 sources in one-row slabs re-chunked to "
    "one-column slabs, which the planner does in two passes from about 8x8 on; also enumerated: rechunk_plans), transpose/.T, concatenate/stack (with itself "
    "or a fresh array), map_blocks with elementwise functions, astype, clip, repeat. The generator tracks the shape "
    "symbolically so every step is valid NumPy. The pipeline runs (a) on NumPy, (b) on the classic engine in this process, "
    "(c) in a persistent worker interpreter started with DASK_ARRAY__QUERY_PLANNING=True. Oracle: expr value/shape/dtype "
    "== NumPy (floats within 1e-9 relative: summation order), lazy shape/dtype == computed, lazy .chunks == classic "
    "engine's .chunks; x.optimize(), x.simplify() and x.expr.lower_completely() keep chunks, shape, dtype and values. "
    "NotImplementedError in the worker => outside the domain (Reject) -- unless it was raised while handling another exception "
    "(a blanket `except Exception: raise NotImplementedError` relabelling a crash; sig flag `masked`); any other exception => violation. enum: every "
    "chunking of a (3,4) array x a fixed family of 2-3 step pipelines. Non-trivial: the pipeline has a step whose "
    "lowering rewrites the tree (reduction, rechunk, chunk alignment of two differently chunked operands, concatenate/"
    "stack, slicing) together with at least one more step; the measured number of cases where optimize() really changed "
    "the expression is in counters.optimize_changed_tree."
)
ASSUMPTIONS = [
    "domain = pipelines on which NumPy succeeds AND the classic engine equals NumPy (a classic-engine deviation is the "
    "business of C19-C25; counted in counters.classic_*), restricted to the operation set above; unimplemented "
    "API (where, argmax, cumsum, reshape, dot, std/var, boolean-mask indexing, ...) is never generated",
    "float results compared with rtol=1e-9 (summation order may differ from NumPy), integers/bools exactly",
    "no explicit zero-size chunks in the sources (C19-C24 own that stratum); zero-length arrays can arise from slices",
    "chunks are compared with the classic engine up to zero-size chunks: a slice can leave an empty block, which the two engines "
    "keep/drop differently in later steps (counter chunks_differ_only_by_empty_chunks); empty blocks carry no data",
    "the expression engine of the pinned tree has no simplify rules for arrays; 'optimize changed the tree' therefore "
    "means lowering rewrote it (Rechunk -> TasksRechunk/identity, blockwise chunk alignment, reduction trees)",
]
TECHNIQUE = "differential testing: NumPy vs classic engine (in-process) vs expression engine (persistent subprocess, JSON lines)"



def _npscalar(v):
    return np.dtype(v[0]).type(v[1])


# "scalar" steps whose operand is a NumPy scalar (value = [dtype, number]); npl_*: the NumPy scalar is the LEFT operand, so
# np.generic.__add__ & co. run first and have to hand over to the array (__array_priority__ / __array_ufunc__).  Registered in
# the worker module's table so that NumPy, the classic engine and the worker interpreter (started from THIS module, see
# _worker and the __main__ guard at the bottom) all interpret them.
W.SCALAR.update({
    "npl_add": lambda a, v: _npscalar(v) + a,
    "npl_sub": lambda a, v: _npscalar(v) - a,
    "npl_mul": lambda a, v: _npscalar(v) * a,
    "npl_gt": lambda a, v: _npscalar(v) > a,
    "npr_add": lambda a, v: a + _npscalar(v),
    "npr_mul": lambda a, v: a * _npscalar(v),
})

_WORKERS: dict = {}
TIMEOUT_S = 600  # wall clock, very generous: tiny pipelines on a loaded machine


def _kill(p):
    try:
        p.stdin.close()
        p.kill()
    except Exception:  # noqa: BLE001
        pass


def _worker():
    pid = os.getpid()  # one worker per (forked) checking process
    p = _WORKERS.get(pid)
    if p is None or p.poll() is not None:
        env = dict(os.environ, DASK_ARRAY__QUERY_PLANNING="True")
        p = subprocess.Popen([sys.executable, "-W", "ignore", "-m", "vf.props.c30"], stdin=subprocess.PIPE, stdout=subprocess.PIPE, stderr=subprocess.DEVNULL, env=env, text=True)
        _WORKERS[pid] = p
        atexit.register(_kill, p)
    return p


def ask(spec):
    p = _worker()
    p.stdin.write(json.dumps({"spec": spec}) + "\n")
    p.stdin.flush()
    ready, _, _ = select.select([p.stdout], [], [], TIMEOUT_S)
    if not ready:
        _kill(p)
        _WORKERS.pop(os.getpid(), None)
        raise Violation(f"expression-engine worker did not answer within {TIMEOUT_S}s", "hang", stage="worker")
    line = p.stdout.readline()
    if not line:
        _WORKERS.pop(os.getpid(), None)
        raise RuntimeError("C30 worker died")
    out = json.loads(line)
    if "fatal" in out:
        raise RuntimeError("C30 worker: " + out["fatal"])
    return out


def close(a, b, check_dtype=True):
    """Same shape, (dtype) and values (floats within summation-order tolerance)."""
    a, b = np.asarray(a), np.asarray(b)
    if a.shape != b.shape:
        return f"shape {a.shape} != {b.shape}", "shape-mismatch"
    if check_dtype and a.dtype != b.dtype:
        return f"dtype {a.dtype} != {b.dtype}", "dtype-mismatch"
    if a.size == 0:
        return None
    if a.dtype.kind in "fc" or b.dtype.kind in "fc":
        with np.errstate(all="ignore"):
            fin = np.isfinite(b)
            mag = float(np.abs(b[fin]).max()) if fin.any() else 1.0
            # (when only the dtype differs -- reported separately -- the coarser float type bounds the agreement)
            rt = max([1e-9] + [8 * float(np.finfo(x.dtype).eps) for x in (a, b) if x.dtype.kind in "fc"])
            ok = np.allclose(a, b, rtol=rt, atol=rt * max(mag, 1.0), equal_nan=True)
    else:
        ok = np.array_equal(a, b)
    return None if ok else (f"values {A.describe(a)} != {A.describe(b)}", "value-mismatch")


def flags(spec):
    """Input-class flags for the signature (all structural, from the spec)."""
    idx = [s["index"] for s in spec["steps"] if s["op"] == "slice"]
    items = [it for ix in idx for it in ix]
    return dict(
        src=spec["src"]["kind"],
        arange_str_dtype=spec["src"]["kind"] == "arange" and isinstance(spec["src"].get("dtype"), str),  # dtype='i8' rather than omitted
        take=any(it[0] == "l" for it in items),  # integer-list index
        dask_index=any(it[0] == "d" for it in items),  # dask integer array as index
        none_after_int=any(it[0] == "n" and any(p[0] == "i" for p in ix[:k]) for ix in idx for k, it in enumerate(ix)),
        has_stack=any(s["op"] == "stack" for s in spec["steps"]),
        np_scalar_left=any(s["op"] == "scalar" and s["fn"].startswith("npl_") for s in spec["steps"]),  # np.int8(3) + x
    )


def evaluate(spec):
    import dask.array as da

    if da.array_expr_enabled():
        raise RuntimeError("the checking process must run the classic engine")
    status, want = reference(W.build, spec, None)
    if status == "err":
        raise Reject(f"NumPy rejects: {want}")
    want = np.asarray(want)
    try:
        classic = W.build(spec, da)
        cchunks = [[None if c != c else int(c) for c in ax] for ax in classic.chunks]
        with np.errstate(all="ignore"):
            cval = classic.compute(scheduler="sync")
    except Exception as e:  # noqa: BLE001 - a classic-engine failure is outside C30's domain (C19-C25)
        count("classic_raised")
        raise Reject(f"classic engine raises {type(e).__name__}: {e}") from None
    if close(cval, want) is not None or tuple(classic.shape) != want.shape or classic.dtype != want.dtype:
        # (incl. lazy metadata: e.g. the classic x[dask_int_array] reports the length of x instead of the index's)
        count("classic_differs_from_numpy")
        raise Reject("classic engine differs from NumPy")
    sig = flags(spec)
    out = ask(spec)
    if "notimpl" in out:
        count("not_implemented")
        raise Reject(f"not implemented in the expression engine: {out['notimpl']['msg']}")
    if "error" in out:
        e = out["error"]
        raise Violation(f"expression engine raised {e['type']}: {e['msg']} (stage {e['stage']}, step {e['step']})", f"raises:{e['type']}", stage=e["stage"], where=e["where"], masked=e.get("masked"), meta_none=bool(e.get("meta_none")), **sig)
    v = out["variants"]
    plain = v["plain"]
    got = W.decode(plain["value"])
    for dt in (False, True):  # values first, dtype second: a dtype-only deviation must not hide a wrong value
        bad = close(got, want, check_dtype=dt)
        ensure(bad is None, f"expr result vs NumPy: {bad and bad[0]}", bad and bad[1], stage="numpy", **sig)
    ensure(tuple(plain["shape"]) == got.shape, f"lazy shape {plain['shape']} != computed {got.shape}", "lazy-shape-mismatch", stage="meta", **sig)
    ensure(np.dtype(plain["dtype"]) == got.dtype, f"lazy dtype {plain['dtype']} != computed {got.dtype}", "lazy-dtype-mismatch", stage="meta", **sig)
    if plain["chunks"] != cchunks:
        # zero-size chunks (they arise from slices that leave nothing of a block) carry no data; whether an engine keeps or
        # drops them is not compared (pathological stratum, see ASSUMPTIONS) -- everything else must be identical
        nz = lambda ch: [[c for c in ax if c != 0] or [0] for ax in ch]  # noqa: E731
        ensure(nz(plain["chunks"]) == nz(cchunks), f"expr chunks {plain['chunks']} != classic engine chunks {cchunks}", "chunks-differ-from-classic", stage="classic", **sig)
        count("chunks_differ_only_by_empty_chunks")
    for name in ("optimize", "simplify", "lower"):
        o = v[name]
        for k in ("chunks", "shape", "dtype"):
            ensure(o[k] == plain[k], f"x.{name}() changed {k}: {o[k]} != {plain[k]}", f"{k}-changed", stage=name, **sig)
        bad = close(W.decode(o["value"]), got)
        ensure(bad is None, f"x.{name}() changed the result: {bad and bad[0]}", bad and bad[1], stage=name, **sig)
    return out


def _multistep(spec, k):
    """Step k-1 of the pipeline is a rechunk (or combines the array with a re-chunked copy of itself): does the planner split that
    rechunk into several passes?  (old/new chunks from the classic engine)"""
    import dask.array as da
    from dask.array.rechunk import plan_rechunk

    st_ = spec["steps"][k - 1]
    before = W.build({**spec, "steps": spec["steps"][: k - 1]}, da)
    after = before.rechunk(tuple(tuple(c) for c in st_["chunks"])) if st_["op"] == "self" else W.build({**spec, "steps": spec["steps"][:k]}, da)
    return len(plan_rechunk(before.chunks, after.chunks, before.dtype.itemsize)) > 1


def _repeat_empty_axis(spec, k):
    """Step k-1 is a repeat: is the repeated axis of its input empty?  (shape from NumPy)"""
    before = np.asarray(W.build({**spec, "steps": spec["steps"][: k - 1]}, None))
    return before.shape[spec["steps"][k - 1]["axis"]] == 0


def check(spec):
    try:
        out = evaluate(spec)
    except Violation as v:
        # Report the FIRST failing prefix of the pipeline (its own message and signature): the most fundamental failure, and
        # a stable low-cardinality `op` (the last step of that prefix) for the signature.
        op = spec["steps"][-1]["op"] if spec["steps"] else "source"
        kfail = len(spec["steps"])
        for k in range(0, len(spec["steps"])):
            try:
                evaluate({**spec, "steps": spec["steps"][:k]})
            except Violation as v2:
                v, op, kfail = v2, (spec["steps"][k - 1]["op"] if k else "source"), k
                break
            except Reject:
                continue
        # rechunk_multistep: the failing step is a rechunk (or `self`: x op x.rechunk(...)) that dask's planner (plan_rechunk, shared by both engines) does in
        # more than one pass (an intermediate chunking), e.g. rows of 1 -> columns of 1 on an 8x8 array
        multi = op in ("rechunk", "self") and _multistep(spec, kfail)
        # repeat_empty_axis: the failing step repeats along an axis of length 0 (left behind by an empty slice)
        empty_rep = op == "repeat" and _repeat_empty_axis(spec, kfail)
        # scalar_operand: that step combines the array with a Python scalar (finding scalar-operands-become-0d-arrays)
        raise Violation(v.message, v.sig["symptom"], op=op, scalar_operand=op in ("scalar", "clip"), rechunk_multistep=multi, repeat_empty_axis=empty_rep, **{k: x for k, x in v.sig.items() if k != "symptom"}) from None
    count("optimize_changed_tree", int(out["changed"]))
    count("expr_evaluated")


# ---------------------------------------------------------------------------- structure
REWRITTEN = ("reduce", "rechunk", "self", "concat", "stack", "slice")


def nontrivial(spec):
    ops = [s["op"] for s in spec["steps"]]
    aligned = any(s["op"] == "binary" and A.nblocks(s["other"]["chunks"]) > 1 for s in spec["steps"])
    multi = spec["src"]["kind"] != "from_array" or A.nblocks(spec["src"]["array"]["chunks"]) > 1
    return len(ops) >= 2 and multi and (aligned or any(o in REWRITTEN for o in ops))


def classes(spec):
    yield "src-" + spec["src"]["kind"]
    yield f"nsteps-{len(spec['steps'])}"
    for s in spec["steps"]:
        yield "op-" + s["op"]
        if s["op"] == "reduce":
            yield "reduce-" + s["fn"]
        if s["op"] == "scalar" and s["fn"].startswith("np"):
            yield "scalar-numpy-" + ("left" if s["fn"].startswith("npl_") else "right")
        if s["op"] == "rechunk" and s.get("thin"):
            yield "rechunk-thin-to-thin"
        if s["op"] == "slice":
            for k in sorted({it[0] for it in s["index"]}):
                yield "index-" + {"s": "slice", "i": "int", "n": "None", "l": "list", "d": "dask-array"}[k]


# ---------------------------------------------------------------------------- generator
def _aspec(draw, shape, dtype):
    return draw(A.array_spec(shape=list(shape), dtypes=(dtype,), fills=("small", "dups", "arange")))


@st.composite
def _slice_item(draw, n):
    if n == 0 or draw(st.integers(0, 9)) == 0:  # anything goes (may be empty)
        return ["s", draw(st.one_of(st.none(), st.integers(-n - 1, n + 1))), draw(st.one_of(st.none(), st.integers(-n - 1, n + 1))), draw(st.sampled_from([None, 1, 2, -1, -2]))]
    step = draw(st.sampled_from([None, 1, 1, 2, -1, -2, 3]))
    a, b = sorted([draw(st.integers(0, n - 1)), draw(st.integers(0, n - 1))])
    if (step or 1) > 0:
        return ["s", draw(st.sampled_from([a, a - n] if a else [a, None])), draw(st.sampled_from([b + 1, None] if b == n - 1 else [b + 1, b + 1 - n])), step]
    return ["s", draw(st.sampled_from([b, b - n] if b < n - 1 else [b, None])), draw(st.sampled_from([None] if a == 0 else [a - 1, a - 1 - n])), step]


def _len(item, n):
    return len(range(*slice(item[1], item[2], item[3]).indices(n)))


@st.composite
def pipeline(draw):
    kind = draw(st.sampled_from(["from_array"] * 6 + ["ones", "zeros", "full", "arange", "linspace"]))
    dtype = draw(st.sampled_from(["i8", "i8", "f8", "f8", "i4"]))
    if kind in ("arange", "linspace"):
        n = draw(st.integers(1, 9))
        shape = [n]
        if kind == "arange":
            step = draw(st.sampled_from([1, 2, -1, 3]))
            start = draw(st.integers(-3, 3))
            src = {"kind": kind, "start": start, "stop": start + step * n, "step": step, "dtype": draw(st.sampled_from([dtype, None])), "chunksize": draw(st.integers(1, n))}
            dtype = src["dtype"] or "i8"
        else:
            src, dtype = {"kind": kind, "start": draw(st.integers(-3, 3)), "stop": draw(st.integers(4, 9)), "num": n, "chunksize": draw(st.integers(1, n))}, "f8"
    else:
        shape = [draw(st.integers(1, 5)) for _ in range(draw(st.integers(1, 3)))]
        if kind == "from_array":
            src = {"kind": kind, "array": _aspec(draw, shape, dtype)}
        else:
            src = {"kind": kind, "shape": list(shape), "dtype": dtype, "chunks": draw(A.chunks_for_shape(shape))}
            if kind == "full":
                src["value"] = draw(st.integers(-4, 4))
    knd = np.dtype(dtype).kind  # coarse dtype kind of the current value: i / f / b
    steps = []
    if draw(st.integers(0, 11)) == 0:
        # stratum: a 2-d source of 6..10 x 6..10 in slabs of one row (column) that is re-chunked into slabs of one column (row):
        # from about 8x8 on the planner does this in two passes through an intermediate chunking
        shape = [draw(st.integers(6, 10)), draw(st.integers(6, 10))]
        src, thin = thin_case(shape, dtype, draw(st.booleans()), draw(st.integers(0, 99)))
        steps.append({**thin, "toplevel": draw(st.booleans())})
    for _ in range(draw(st.sampled_from([1, 2, 2, 3, 3, 4, 4, 5]))):
        nd = len(shape)
        size = int(np.prod(shape)) if shape else 1
        ops = ["unary", "scalar", "scalar", "astype", "map_blocks", "clip"]
        if nd:
            ops += ["binary", "binary", "self", "slice", "slice", "slice", "reduce", "reduce", "reduce", "rechunk", "rechunk", "transpose"]
            if size <= 60:
                ops += ["concat", "repeat"] + (["stack"] if nd < 4 else [])
        else:
            ops += ["reduce"]
        op = draw(st.sampled_from(ops))
        s = {"op": op}
        if op == "unary":
            s["fn"] = draw(st.sampled_from(["logical_not"] if knd == "b" else ["neg", "abs", "square", "sign"] + (["floor"] if knd == "f" else [])))
            knd = "b" if s["fn"] == "logical_not" else knd
        elif op == "scalar" and draw(st.integers(0, 7)) == 0:
            # a NumPy scalar operand (strongly typed under NEP 50), on either side
            s["fn"] = draw(st.sampled_from(["npl_add", "npl_add", "npl_mul", "npr_add"] if knd == "b" else ["npl_add", "npl_add", "npl_sub", "npl_mul", "npl_gt", "npr_add", "npr_mul"]))
            sdt = draw(st.sampled_from(["int8", "int64", "float32", "float64"]))
            s["value"] = [sdt, draw(st.sampled_from([0, 1, 2, 3, -3] + ([1.5] if sdt[0] == "f" else [])))]
            knd = "b" if s["fn"] == "npl_gt" else "f" if sdt[0] == "f" else "i" if knd == "b" else knd
        elif op == "scalar":
            s["fn"] = draw(st.sampled_from(["add", "mul", "eq"] if knd == "b" else ["add", "sub", "rsub", "mul", "gt", "le", "eq", "floordiv", "mod", "truediv", "maximum"]))
            s["value"] = draw(st.sampled_from([1, 2, 3, -2, 2.5] if s["fn"] in ("floordiv", "mod", "truediv") else [0, 1, 2, -3, 1.5]))
            knd = "b" if s["fn"] in ("gt", "le", "eq") else "f" if s["fn"] == "truediv" or isinstance(s["value"], float) else "i" if knd == "b" else knd
        elif op in ("binary", "self"):
            s["fn"] = draw(st.sampled_from(["add", "mul", "ne", "maximum"] if knd == "b" else ["add", "sub", "mul", "lt", "ne", "maximum", "minimum"]))
            if op == "self":
                s["chunks"] = draw(A.chunks_for_shape(shape))
            else:
                form = draw(st.sampled_from(["same", "same", "suffix", "ones"]))
                oshape = list(shape) if form == "same" else shape[draw(st.integers(1, nd)) if nd > 1 else 0:] if form == "suffix" else [n if draw(st.booleans()) else 1 for n in shape]
                odt = draw(st.sampled_from(["i8", "f8"]))
                s["other"] = _aspec(draw, oshape, odt)
                s["side"] = draw(st.sampled_from(["l", "r"]))
                knd = "f" if odt == "f8" and s["fn"] not in ("lt", "ne") else "i" if knd == "b" else knd
            knd = "b" if s["fn"] in ("lt", "ne") else knd
        elif op == "slice":
            fancy = draw(st.sampled_from([None] * 6 + ["l", "d"]))
            items, new = [], []
            fax = draw(st.integers(0, nd - 1)) if fancy else None
            if fax is not None and shape[fax] == 0:  # nothing to pick from a zero-length axis
                fancy = fax = None
            for ax, n in enumerate(shape):
                if ax == fax:
                    ix = draw(st.lists(st.integers(-n, n - 1), min_size=1, max_size=4))
                    items.append(["l", ix] if fancy == "l" else ["d", ix, draw(A.chunks_for_axis(len(ix)))])
                    new.append(len(ix))
                    continue
                k = draw(st.sampled_from(["s", "s", "s", "full"] + ([] if fancy else ["i", "n"] if n else ["n"])))
                if k == "n" and len(new) + (nd - ax) < 4:
                    items.append(["n"])
                    new.append(1)
                    k = "s"
                if k == "i":
                    items.append(["i", draw(st.integers(-n, n - 1))])
                elif k == "full":
                    items.append(["s", None, None, None])
                    new.append(n)
                else:
                    it = draw(_slice_item(n))
                    items.append(it)
                    new.append(_len(it, n))
            if not fancy and draw(st.integers(0, 3)) == 0:  # shorter index: trailing axes untouched
                items = items[: draw(st.integers(1, len(items)))]
                new, ax = [], 0
                for it in items:
                    if it[0] == "n":
                        new.append(1)
                        continue
                    if it[0] == "s":
                        new.append(_len(it, shape[ax]))
                    ax += 1
                new += shape[ax:]
            s["index"] = items
            shape = new
        elif op == "reduce":
            s["fn"] = draw(st.sampled_from(["sum", "any", "all", "max", "min", "mean"] if knd == "b" else ["sum", "sum", "mean", "max", "min", "prod", "any", "all", "nansum", "nanmax"]))
            axis = draw(st.sampled_from([None, "int", "int", "tuple"])) if nd else None
            if axis == "int":
                axis = draw(st.integers(-nd, nd - 1))
            elif axis == "tuple":
                axis = sorted(draw(st.lists(st.integers(0, nd - 1), min_size=1, max_size=nd, unique=True)))
            s.update(axis=axis, keepdims=draw(st.booleans()), split_every=draw(st.sampled_from([None, None, 2, 3])), toplevel=draw(st.booleans()))
            red = list(range(nd)) if axis is None else [a % nd for a in (axis if isinstance(axis, list) else [axis])]
            shape = [1 if a in red else n for a, n in enumerate(shape)] if s["keepdims"] else [n for a, n in enumerate(shape) if a not in red]
            knd = "b" if s["fn"] in ("any", "all") else "f" if s["fn"] == "mean" else "i" if knd == "b" and s["fn"] in ("sum", "prod") else knd
        elif op == "rechunk":
            if draw(st.integers(0, 2)) == 0:
                s["dict"] = {str(draw(st.integers(0, nd - 1))): draw(st.sampled_from([-1, 1, 2]))}
            else:
                s["chunks"] = draw(A.chunks_for_shape(shape))
                s["toplevel"] = draw(st.booleans())
        elif op == "transpose":
            s["axes"] = None if draw(st.booleans()) else list(draw(st.permutations(range(nd))))
            shape = shape[::-1] if s["axes"] is None else [shape[a] for a in s["axes"]]
        elif op in ("concat", "stack"):
            axis = draw(st.integers(-nd, nd - 1)) if op == "concat" else draw(st.integers(0, nd))
            if draw(st.booleans()):
                s["other"] = None
                m = shape[axis] if op == "concat" else None
            else:
                m = draw(st.integers(1, 3))
                oshape = [m if a == axis % nd else n for a, n in enumerate(shape)] if op == "concat" else list(shape)
                s["other"] = _aspec(draw, oshape, "f8" if knd == "f" else "i8")
            s.update(axis=axis, order=draw(st.sampled_from(["ab", "ba"])))
            if op == "concat":
                shape = [n + m if a == axis % nd else n for a, n in enumerate(shape)]
            else:
                shape = shape[:axis] + [2] + shape[axis:]
            knd = "i" if knd == "b" and s["other"] is not None else knd
        elif op == "map_blocks":
            s["fn"] = draw(st.sampled_from(["double", "tofloat"] if knd == "b" else ["double", "negabs", "tofloat"]))
            s["dtype"] = draw(st.sampled_from([None, "f8"])) if s["fn"] == "tofloat" else None
            knd = "f" if s["fn"] == "tofloat" else "i" if knd == "b" else knd
        elif op == "astype":
            s["dtype"] = draw(st.sampled_from(["f8", "i8", "i4", "f4", "bool"]))
            knd = np.dtype(s["dtype"]).kind
        elif op == "clip":
            s.update(lo=draw(st.integers(-3, 0)), hi=draw(st.integers(1, 4)))
            knd = "i" if knd == "b" else knd
        elif op == "repeat":
            s.update(n=draw(st.integers(1, 3)), axis=draw(st.integers(-nd, nd - 1)))
            shape = [n * s["n"] if a == s["axis"] % nd else n for a, n in enumerate(shape)]
        steps.append(s)
    return {"src": src, "steps": steps}


def thin_case(shape, dtype, by_rows, seed):
    """(source, rechunk step): a 2-d from_array source in slabs of one row (by_rows) or one column, and the rechunk to the other."""
    r, c = shape
    rows, cols = [[1] * r, [c]], [[r], [1] * c]
    old, new = (rows, cols) if by_rows else (cols, rows)
    return {"kind": "from_array", "array": {"shape": [r, c], "dtype": dtype, "seed": seed, "fill": "small", "chunks": old}}, {"op": "rechunk", "chunks": new, "thin": True}


def rechunk_plan_cases(tier):
    red = {"op": "reduce", "fn": "sum", "axis": 0, "keepdims": False, "split_every": None, "toplevel": False}
    for r, c, by_rows, tail in itertools.product(range(6, 11), range(6, 11), (True, False), (False, True)):
        src, step = thin_case([r, c], "i8" if (r + c) % 2 else "f8", by_rows, r * 11 + c)
        yield {"src": src, "steps": [step, red] if tail else [{"op": "scalar", "fn": "add", "value": 1}, step]}


# ---------------------------------------------------------------------------- enum family
def templates():
    """2-3 step pipelines on a (3,4) source; every one makes lowering rewrite the tree."""
    sl = lambda *it: {"op": "slice", "index": [list(i) for i in it]}  # noqa: E731
    red = lambda fn, axis, **kw: {"op": "reduce", "fn": fn, "axis": axis, "keepdims": False, "split_every": None, "toplevel": False, **kw}  # noqa: E731
    return [
        [{"op": "scalar", "fn": "add", "value": 1}, sl(("s", 1, None, None)), red("sum", 0)],
        [sl(("s", None, None, -1), ("s", 1, 3, None)), red("max", 1, keepdims=True)],
        [{"op": "self", "fn": "add", "chunks": [[2, 1], [1, 3]]}, red("sum", None, split_every=2)],
        [{"op": "rechunk", "chunks": [[1, 2], [3, 1]]}, sl(("i", -1), ("s", None, None, 2))],
        [{"op": "transpose", "axes": None}, {"op": "concat", "other": None, "axis": 0, "order": "ab"}, red("mean", 1)],
        [{"op": "stack", "other": None, "axis": 1, "order": "ab"}, red("min", [0, 2])],
        [{"op": "binary", "fn": "mul", "side": "l", "other": {"shape": [4], "dtype": "i8", "seed": 5, "fill": "small", "chunks": [[1, 3]]}}, {"op": "rechunk", "dict": {"0": -1}}, red("prod", 0)],
        [sl(("n",), ("s", None, None, None), ("i", 2)), {"op": "unary", "fn": "neg"}, {"op": "rechunk", "dict": {"1": 1}}],
        [{"op": "map_blocks", "fn": "double", "dtype": None}, sl(("s", 0, 2, None), ("s", -1, None, -2)), red("any", None)],
        [{"op": "astype", "dtype": "f8"}, {"op": "scalar", "fn": "truediv", "value": 2}, red("nansum", 1, toplevel=True)],
        [sl(("s", None, None, None), ("d", [3, 0, 0], [2, 1])), red("sum", 1)],
        [{"op": "repeat", "n": 2, "axis": 1}, {"op": "rechunk", "chunks": [[3], [4, 4]], "toplevel": True}, red("max", 0)],
        [{"op": "clip", "lo": -2, "hi": 3}, {"op": "self", "fn": "maximum", "chunks": [[3], [4]]}, sl(("s", 2, 0, -1))],
    ]


def enum_cases(tier):
    shape = [3, 4]
    for n, (ch, steps) in enumerate(itertools.product(A.all_chunkings(shape), templates())):
        yield {"src": {"kind": "from_array", "array": {"shape": shape, "dtype": "i8" if n % 3 else "f8", "seed": n % 17, "fill": "small", "chunks": ch}}, "steps": steps}


SUBCHECKS = [
    Sub("pipelines_enum", check, kind="enum", cases=enum_cases, nontrivial=nontrivial, classes=classes, exhaustive=True, budget_s={"quick": 150, "thorough": 900},
        doc="every chunking of a (3,4) source x 13 fixed 2-3 step pipelines (slice/reduce/rechunk/align/concat/stack/map_blocks/dask index)"),
    Sub("rechunk_plans", check, kind="enum", cases=rechunk_plan_cases, nontrivial=nontrivial, classes=classes, exhaustive=True, budget_s={"quick": 150, "thorough": 900},
        doc="6..10 x 6..10 sources in one-row (one-column) slabs re-chunked to one-column (one-row) slabs, before a reduction / after an elementwise step: single- and multi-pass rechunk plans"),
    Sub("pipelines", check, strategy=lambda tier: pipeline(), n={"quick": 1600, "thorough": 30000}, nontrivial=nontrivial, classes=classes, budget_s={"quick": 150, "thorough": 900},
        doc="random 1-5 step pipelines over the implemented operation set, three engines compared, optimize/simplify/lower_completely invariance"),
]


if __name__ == "__main__":  # the persistent expression-engine worker: _c30_worker's loop with this module's extra operations registered
    W.main()
