"""C33 — masked array operations equal numpy.ma."""
from __future__ import annotations

import itertools

import numpy as np
from hypothesis import strategies as st

from vf import arrays as A
from vf.core import Reject, Sub, Violation, ensure, impl, reference

PROPERTY = "C33"
PRELOAD = ["dask.array"]
LEVEL = "exploration"
RULE = (
    "enum: 1-d length-4 and 2-d (2,3) data under ALL chunkings x ALL masks x a fixed list of operations (construct+filled, "
    "getmaskarray, sum/min/max/mean/count/any along every axis, masked_greater, elementwise add of two masked arrays). "
    "hyp: data (int/float, NaN/inf for masked_invalid), mask kinds (nomask, random, all, one whole chunk masked next to "
    "an unmasked one, scalar), fill values, random chunkings, ops: masked_array, masked_equal/greater/greater_equal/"
    "less/less_equal/not_equal/where/inside/outside/invalid/values on plain or already-masked input, filled, getdata, "
    "getmaskarray, set_fill_value, unary/binary elementwise ops between masked/plain operands, sum/prod/mean/min/max/"
    "any/all/count (axis, keepdims), average (weights), nonzero. Oracle: the same numpy.ma call: equal shape, dtype, "
    "getmaskarray; getdata compared only where NOT masked; fill_value where numpy.ma defines it (construction, "
    "set_fill_value, masked_equal/values). Non-trivial: >= 2 blocks with a partly masked input; class 'chunk-masked' "
    "= a fully masked chunk next to an unmasked one."
)
ASSUMPTIONS = [
    "numpy.ma is the reference; data under the mask is unspecified and not compared",
    "float reductions are compared within the summation-order tolerance vf.arrays.sum_tolerance",
]
TECHNIQUE = "differential testing against numpy.ma over exhaustive masks/chunkings of small arrays and Hypothesis"

CMP = ["masked_equal", "masked_greater", "masked_greater_equal", "masked_less", "masked_less_equal", "masked_not_equal"]
UN = {"neg": np.negative, "abs": np.abs, "sqrt": np.sqrt, "isfin": np.isfinite}
BIN = {"add": np.add, "mul": np.multiply, "sub": np.subtract, "div": np.true_divide, "gt": np.greater, "maximum": np.maximum}
RED = ["sum", "prod", "mean", "min", "max", "any", "all"]
FV_OPS = {"construct", "set_fill_value", "masked_equal", "masked_values"}


def build_mask(m, arr):
    shape = tuple(arr["shape"])
    k = m["kind"]
    if k == "none":
        return None
    if k == "bits":
        return np.array(m["bits"], dtype=bool).reshape(shape)
    if k == "all":
        return np.ones(shape, dtype=bool)
    if k == "scalar":
        return np.bool_(m["value"])
    rng = np.random.default_rng(m["seed"])
    mask = rng.random(shape) < (0.3 if k == "random" else 0.0)
    if k == "chunk":  # one whole block masked, the rest unmasked
        idx = tuple(int(rng.integers(0, len(c))) for c in arr["chunks"])
        sl = tuple(slice(sum(c[:i]), sum(c[: i + 1])) for c, i in zip(arr["chunks"], idx))
        mask[sl] = True
    return mask


def operand(o, lib):
    """-> masked (or plain) operand for lib in (np, da)."""
    import dask.array as da

    x = A.build_np(o["array"])
    m = build_mask(o["mask"], o["array"])
    kw = {} if o.get("fill_value") is None else {"fill_value": o["fill_value"]}
    if lib is np:
        return x if m is None and not kw and o.get("plain") else np.ma.masked_array(x, mask=np.ma.nomask if m is None else m, **kw)
    d = A.build_da(o["array"], x)
    if m is None and not kw and o.get("plain"):
        return d
    if m is None:
        return da.ma.masked_array(d, **kw)
    dm = m if (np.ndim(m) == 0 or o.get("np_mask")) else da.from_array(m, chunks=d.chunks)
    return da.ma.masked_array(d, mask=dm, **kw)


def apply(lib, spec, ops):
    ma = np.ma if lib is np else lib.ma
    op, a = spec["op"], spec.get("args", {})
    x = ops[0]
    if op == "construct":
        return x
    if op in CMP:
        if a.get("value_operand"):
            # array-valued threshold (same shape or broadcast along the leading axes), NumPy or dask array
            v = ops[1]
            if a["value_operand"] == "np" and lib is not np:
                v = np.asarray(A.build_np(spec["operands"][1]["array"]))
            return getattr(ma, op)(x, v)
        return getattr(ma, op)(x, a["value"])
    if op == "masked_where":
        return ma.masked_where(ops[1], x)
    if op in ("masked_inside", "masked_outside"):
        return getattr(ma, op)(x, a["v1"], a["v2"])
    if op == "masked_invalid":
        return ma.masked_invalid(x)
    if op == "masked_values":
        return ma.masked_values(x, a["value"], shrink=a["shrink"])
    if op == "filled":
        return ma.filled(x, a["fill"]) if a.get("fill") is not None else ma.filled(x)
    if op == "getdata":
        return ma.getdata(x)
    if op == "getmaskarray":
        return ma.getmaskarray(x)
    if op == "set_fill_value":
        if lib is np:
            x = x.copy()
        ma.set_fill_value(x, a["fill"])
        return x if a.get("then") != "filled" else ma.filled(x)
    if op in UN:
        return getattr(lib, UN[op].__name__)(x)
    if op in BIN:
        return getattr(lib, BIN[op].__name__)(x, ops[1] if len(ops) > 1 else a["scalar"])
    if op in RED:
        return getattr(x, op)(axis=a["axis"], keepdims=a["keepdims"])
    if op == "count":
        return ma.count(x, axis=a["axis"], keepdims=a["keepdims"])
    if op == "average":
        w = ops[1] if len(ops) > 1 else None
        return ma.average(x, axis=a["axis"], weights=w)
    if op == "nonzero":
        return ma.nonzero(x)
    raise ValueError(op)


def same_masked(got, want, spec, sig, what):
    gm, wm = np.ma.getmaskarray(got), np.ma.getmaskarray(want)
    gd, wd = np.ma.getdata(got), np.ma.getdata(want)
    if wd.shape != gd.shape:
        raise Violation(f"{what}: shape {gd.shape} != numpy.ma {wd.shape}", "shape-mismatch", **sig)
    if wd.dtype != gd.dtype:
        raise Violation(f"{what}: dtype {gd.dtype} != numpy.ma {wd.dtype}", "dtype-mismatch", **sig)
    if not np.array_equal(gm, wm):
        raise Violation(f"{what}: mask {gm.tolist()} != numpy.ma {wm.tolist()}", "mask-mismatch", **sig)
    keep = ~wm
    g, w = gd[keep] if gd.ndim else gd[()][None][keep.ravel()], wd[keep] if wd.ndim else wd[()][None][keep.ravel()]
    if spec["op"] in ("sum", "prod", "mean", "average") and wd.dtype.kind in "fc":
        x = A.build_np(spec["operands"][0]["array"])
        rtol, atol = A.sum_tolerance(x)
        if spec["op"] == "prod":
            rtol, atol = rtol, rtol * max(float(np.abs(w).max(initial=1.0)), 1.0)
        ok = np.allclose(g, w, rtol=rtol, atol=atol, equal_nan=True)
    else:
        ok = np.array_equal(g, w, equal_nan=gd.dtype.kind in "fc")
    if not ok:
        raise Violation(f"{what}: unmasked data {g.tolist()} != numpy.ma {w.tolist()} (mask {wm.tolist()})", "value-mismatch", **sig)
    if spec["op"] in FV_OPS and isinstance(want, np.ma.MaskedArray) and spec.get("args", {}).get("then") != "filled":
        ensure(isinstance(got, np.ma.MaskedArray), f"{what}: result is {type(got).__name__}, numpy.ma gives a MaskedArray", "not-masked", **sig)
        ensure(np.array_equal(got.fill_value, want.fill_value, equal_nan=True), f"{what}: fill_value {got.fill_value!r} != numpy.ma {want.fill_value!r}", "fill-value-mismatch", **sig)


def check(spec):
    import dask.array as da

    with np.errstate(all="ignore"):
        status, want = reference(lambda: apply(np, spec, [operand(o, np) for o in spec["operands"]]))
    if status == "err":
        raise Reject(f"numpy.ma rejects: {want}")
    arrs = [o["array"] for o in spec["operands"]]
    sig = dict(op=spec["op"], zero_chunk=any(A.has_zero_chunk(a["chunks"]) for a in arrs), zero_length=any(0 in a["shape"] for a in arrs),
               mask=spec["operands"][0]["mask"]["kind"], dtype=arrs[0]["dtype"],
               # a length-1 axis split into blocks by an explicit empty chunk: same input class as C19's known finding
               multiblock_len1_axis=any(n == 1 and len(c) > 1 for a in arrs for n, c in zip(a["shape"], a["chunks"])))
    with impl(spec["op"], **sig), np.errstate(all="ignore"):
        r = apply(da, spec, [operand(o, da) for o in spec["operands"]])
        rs = list(r) if isinstance(r, tuple) else [r]
        gots = [x.compute(scheduler="sync") if isinstance(x, da.Array) else x for x in rs]
    wants = list(want) if isinstance(want, tuple) else [want]
    ensure(len(gots) == len(wants), f"{len(gots)} outputs, numpy.ma {len(wants)}", "count-mismatch", **sig)
    for d, got, w in zip(rs, gots, wants):
        same_masked(got, w, spec, sig, f"{spec['op']} {spec.get('args', {})}")
        if isinstance(d, da.Array) and got is not np.ma.masked:  # (the MaskedConstant is float64 whatever the input dtype, in NumPy too)
            A.check_meta(d, np.ma.getdata(got), sig=sig)


def nontrivial(spec):
    o = spec["operands"][0]
    return A.nblocks(o["array"]["chunks"]) >= 2 and o["mask"]["kind"] in ("random", "chunk", "bits") and (o["mask"]["kind"] != "bits" or 0 < sum(o["mask"]["bits"]) < len(o["mask"]["bits"]))


def classes(spec):
    yield "op-" + spec["op"]
    for o in spec["operands"]:
        yield "mask-" + o["mask"]["kind"]
        yield "dtype-" + o["array"]["dtype"]
    o = spec["operands"][0]
    if o["mask"]["kind"] == "chunk" and A.nblocks(o["array"]["chunks"]) >= 2:
        yield "chunk-masked"
    if any(A.has_zero_chunk(o["array"]["chunks"]) for o in spec["operands"]):
        yield "zero-size-chunk"
    if o.get("fill_value") is not None:
        yield "fill-value"


def enum_cases(tier):
    for shape in ([4], [2, 3]) if tier == "quick" else ([5], [2, 3], [3, 2]):
        n = int(np.prod(shape))
        axes = [None] + list(range(len(shape)))
        ops = [{"op": "construct"}, {"op": "filled", "args": {}}, {"op": "getmaskarray"}, {"op": "masked_greater", "args": {"value": 0}}, {"op": "add"}]
        ops += [{"op": r, "args": {"axis": ax, "keepdims": False}} for r in ("sum", "min", "max", "mean", "count", "any") for ax in axes]
        i = 0
        for ch, bits in itertools.product(A.all_chunkings(shape), itertools.product([0, 1], repeat=n)):
            for k in range(3 if len(shape) == 1 else 2):  # a rotating subset of the operation list per (chunking, mask)
                i += 1
                op = ops[i % len(ops)]
                arr = {"shape": shape, "dtype": "i8" if i % 3 else "f8", "seed": i % 5, "fill": "small", "chunks": ch}
                operands = [{"array": arr, "mask": {"kind": "bits", "bits": list(bits)}, "fill_value": 7 if i % 4 == 0 else None}]
                if op["op"] == "add":
                    b2 = list(bits[1:] + bits[:1])
                    operands.append({"array": {**arr, "seed": 9, "chunks": ch}, "mask": {"kind": "bits", "bits": b2}})
                yield {**op, "operands": operands}


@st.composite
def operand_spec(draw, shape=None, dtypes=("i8", "f8", "f8", "i4"), specials=False, plain_ok=True, chunks=None):
    arr = draw(A.array_spec(shape=shape, min_dims=1, max_dims=3, max_side=5, dtypes=dtypes, fills=("small", "normal", "dups"), specials=specials, allow_zero_chunks=draw(st.integers(0, 9)) == 0))
    if chunks is not None:
        arr["chunks"] = chunks
    kind = draw(st.sampled_from(["none", "random", "random", "chunk", "chunk", "all", "scalar"]))
    m = {"kind": kind, "seed": draw(st.integers(0, 999))}
    if kind == "scalar":
        m["value"] = draw(st.booleans())
    o = {"array": arr, "mask": m, "fill_value": draw(st.sampled_from([None, None, 7, -1, 0]))}
    if kind == "none" and plain_ok:
        o["plain"] = draw(st.booleans())
    if kind in ("random", "chunk", "all"):
        o["np_mask"] = draw(st.integers(0, 3)) == 0
    return o


@st.composite
def random_case(draw):
    op = draw(st.sampled_from(["construct", "cmp", "cmp", "masked_where", "masked_inside", "masked_outside", "masked_invalid", "masked_values", "filled", "getdata", "getmaskarray",
                               "set_fill_value", "unary", "binary", "binary", "red", "red", "red", "count", "average", "nonzero"]))
    spec = {"op": op, "args": {}}
    a = spec["args"]
    x = draw(operand_spec(specials=op in ("masked_invalid", "unary", "filled", "getmaskarray")))
    if op in ("construct", "set_fill_value"):
        x.pop("plain", None)
    spec["operands"] = [x]
    shape = x["array"]["shape"]
    if op == "average" and 0 in shape:
        op = spec["op"] = "count"  # the average of nothing is degenerate in NumPy itself (warns, returns masked)
    if op == "nonzero" and 0 in shape and len(shape) > 1:
        op = spec["op"] = "getdata"  # (same reason: raveling an n-d array with a zero-length axis fails inside reshape)
    if op == "nonzero":  # nonzero ravels through reshape, whose handling of explicit empty chunks is C24's subject
        x["array"]["chunks"] = [[c for c in ch if c] or [0] for ch in x["array"]["chunks"]]
    nd = len(shape)
    if op == "cmp":
        spec["op"] = draw(st.sampled_from(CMP))
        a["value"] = draw(st.integers(-3, 3))
        # (da.ma.masked_equal documents that it rejects array values; the other comparisons take them)
        if nd >= 1 and spec["op"] != "masked_equal" and draw(st.integers(0, 2)) == 0:
            vshape = shape[draw(st.integers(0, nd - 1)) :]
            val = draw(A.array_spec(shape=vshape, dtypes=("i8", "f8"), fills=("small",)))
            if len(vshape) == nd and draw(st.booleans()):
                val["chunks"] = x["array"]["chunks"]
            a["value_operand"] = draw(st.sampled_from(["np", "da"]))
            spec["operands"].append({"array": val, "mask": {"kind": "none"}, "plain": True})
    elif op == "masked_where":
        cond = draw(A.array_spec(shape=shape, dtypes=("bool", "i8"), fills=("dups",)))
        cond["chunks"] = draw(st.sampled_from([x["array"]["chunks"], cond["chunks"]]))
        spec["operands"].append({"array": cond, "mask": {"kind": "none"}, "plain": True})
    elif op in ("masked_inside", "masked_outside"):
        a["v1"], a["v2"] = draw(st.integers(-5, 5)), draw(st.integers(-5, 5))
    elif op == "masked_values":
        a["value"], a["shrink"] = draw(st.sampled_from([0, 1, -2, 1.5])), draw(st.booleans())
    elif op == "filled":
        a["fill"] = draw(st.sampled_from([None, None, 0, 99, -1]))
    elif op == "set_fill_value":
        a["fill"], a["then"] = draw(st.sampled_from([0, 5, -3])), draw(st.sampled_from([None, "filled"]))
    elif op == "unary":
        spec["op"] = draw(st.sampled_from(sorted(UN)))
    elif op == "binary":
        spec["op"] = draw(st.sampled_from(sorted(BIN)))
        if draw(st.booleans()):
            ch = draw(st.sampled_from([x["array"]["chunks"], None]))
            spec["operands"].append(draw(operand_spec(shape=shape, chunks=ch)))
        else:
            a["scalar"] = draw(st.sampled_from([0, 2, -1, 0.5]))
    elif op in ("red", "count", "average"):
        if op == "red":
            # mean/min/max/prod of an empty slice are degenerate in numpy.ma itself (warnings, identity-less): only the
            # reductions with an identity are generated for zero-length inputs
            spec["op"] = draw(st.sampled_from(RED if 0 not in shape else ["sum", "any", "all"]))
        if spec["op"] in ("min", "max"):
            # identity-less reductions over explicit EMPTY chunks fail for plain arrays too (finding F-C22b of C22: not a
            # masked-array matter) -> generated without empty chunks
            x["array"]["chunks"] = [[c for c in ch if c] or [0] for ch in x["array"]["chunks"]]
        a["axis"] = draw(st.sampled_from([None] + list(range(-nd, nd))))
        a["keepdims"] = draw(st.booleans()) if op != "average" else False
        if op == "average" and draw(st.booleans()):
            wshape = shape if a["axis"] is None or draw(st.booleans()) else [shape[a["axis"]]]
            w = draw(A.array_spec(shape=wshape, dtypes=("i8",), fills=("dups",)))
            if len(wshape) == nd:
                w["chunks"] = x["array"]["chunks"]
            spec["operands"].append({"array": w, "mask": {"kind": "none"}, "plain": True})
    return spec


SUBCHECKS = [
    Sub("enum", check, kind="enum", cases=enum_cases, nontrivial=nontrivial, classes=classes, exhaustive=True,
        doc="all chunkings x all masks of a length-4 vector and a (2,3) matrix, rotating over construct/filled/getmaskarray/masked_greater/add/reductions per axis"),
    Sub("random", check, strategy=lambda tier: random_case(), n={"quick": 3000, "thorough": 60000}, nontrivial=nontrivial, classes=classes,
        doc="random data, masks (nomask/random/whole-chunk/all/scalar), fill values, chunkings and every listed da.ma operation"),
]
