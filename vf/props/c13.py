"""C13 — collections computed together give the same values as computed alone."""
from __future__ import annotations

import numpy as np
from hypothesis import strategies as st

from vf import values as V
from vf.core import Reject, Sub, Violation, ensure, impl, short
from vf.props import c12

PROPERTY = "C13"
LEVEL = "exploration"
PRELOAD = ["dask.array", "dask.bag", "dask.dataframe"]
RULE = (
    "2-4 collections built by the SAME small program from inputs related by C12's near-miss mutations (same bytes in another "
    "layout, same strings split differently, same values under another dtype/shape/index/column placement) or equal inputs "
    "or unrelated inputs: da.from_array(x) followed by elementwise / slicing / reduction / map_blocks, delayed(f, pure=True)(x), "
    "db.from_sequence(list), dd.from_pandas(frame/series). Oracle: for every i, dask.compute(c1..cn)[i] equals "
    "ci.compute() equals the plain NumPy/pandas/Python reference of the same program; additionally unequal inputs (canon "
    "differs) must not yield equal collection names. Non-trivial: inputs unequal but related by a collision-prone mutation "
    "and passing through a tokenised constructor."
)
ASSUMPTIONS = ["observable equality of inputs is decided by vf.values.canon", "all programs are deterministic functions of their input"]
TECHNIQUE = "Hypothesis-generated near-identical inputs through collection constructors; differential (together vs alone vs NumPy/pandas reference) + name-distinctness invariant"


def pure_fn(x):
    return ("pure_fn", V.canon(x))


def program_array(x, prog):
    import dask.array as da

    d = da.from_array(x, chunks=tuple(max(1, s // 2) for s in x.shape) or ())
    r = x
    if prog == "identity":
        return d, r
    if prog == "plus1":
        if x.dtype.kind in "mMb":
            return d, r
        return d + 1, r + 1
    if prog == "slice":
        if x.ndim == 0:
            return d, r
        return d[::-1], r[::-1]
    if prog == "sum":
        if x.dtype.kind in "mM":
            return d, r
        with np.errstate(all="ignore"):
            return d.sum(), r.sum()
    if prog == "map_blocks":
        return d.map_blocks(_copy_block, dtype=x.dtype), r
    raise ValueError(prog)


def _copy_block(b):
    return b.copy()


def build_collection(spec, kind, prog):
    """-> (collection, reference value)"""
    v = V.build(spec)
    if kind == "array":
        if not isinstance(v, np.ndarray) or v.dtype.hasobject:
            raise Reject("not a numeric ndarray")
        return program_array(v, prog)
    if kind == "delayed":
        from dask import delayed

        return delayed(pure_fn, pure=True)(v), pure_fn(v)
    if kind == "bag":
        import dask.bag as db

        if not isinstance(v, (list, tuple)) or not len(v):
            raise Reject("not a non-empty sequence")
        return db.from_sequence(list(v), npartitions=2), list(v)
    if kind == "frame":
        import dask.dataframe as dd
        import pandas as pd

        if not isinstance(v, (pd.DataFrame, pd.Series)):
            raise Reject("not a frame")
        return dd.from_pandas(v, npartitions=2, sort=False), v
    raise ValueError(kind)


def same_value(a, b):
    return V.canon(a) == V.canon(b)


def check(case):
    import dask

    kind, prog = case["kind"], case.get("prog", "identity")
    sig = dict(kind=kind, prog=prog, mut=case.get("mut", "-"))
    built = []
    for s in case["inputs"]:
        with impl("build collection", **sig):
            built.append(build_collection(s, kind, prog))
    colls = [c for c, _ in built]
    refs = [r for _, r in built]
    inputs = [V.build(s) for s in case["inputs"]]
    with impl("dask.compute(together)", **sig):
        together = dask.compute(*colls, scheduler="sync")
    for i, c in enumerate(colls):
        with impl("compute alone", **sig):
            alone = c.compute(scheduler="sync")
        ensure(same_value(_norm(alone), _norm(refs[i])), f"collection {i} alone = {short(alone)}, reference {short(refs[i])}", "alone-differs-from-reference", **sig)
        ensure(
            same_value(_norm(together[i]), _norm(alone)),
            f"collection {i}: computed together {short(together[i])} != computed alone {short(alone)} (inputs {[short(x, 80) for x in inputs]})",
            "together-differs-from-alone",
            **sig,
        )
    # names
    names = [_name_of(c) for c in colls]
    for i in range(len(colls)):
        for j in range(i + 1, len(colls)):
            if V.canon(inputs[i]) != V.canon(inputs[j]) and V.canon(_norm(refs[i])) != V.canon(_norm(refs[j])):
                ensure(names[i] != names[j], f"unequal inputs {short(inputs[i], 100)} / {short(inputs[j], 100)} share the collection name {names[i]!r}", "name-collision", **sig)


def _name_of(c):
    """graph-level name of the collection (not e.g. the pandas name of a Series)"""
    t = type(c).__module__
    if "dataframe" in t:
        return c.expr._name
    if type(c).__name__ == "Delayed":
        return c.key
    return c.name


def _norm(x):
    if isinstance(x, np.generic):
        return np.asarray(x)
    if isinstance(x, tuple) and x and x[0] == "pure_fn":
        return x
    return x


@st.composite
def case_strategy(draw):
    kind = draw(st.sampled_from(["array", "array", "delayed", "delayed", "bag", "frame"]))
    if kind == "array":
        base = draw(c12.np_spec())
    elif kind == "delayed":
        base = draw(c12.any_spec)
        if base["t"] in ("fn", "rec"):
            base = draw(c12.np_spec())
    elif kind == "bag":
        base = {"t": "list", "v": draw(st.lists(c12._scalars, min_size=1, max_size=5))}
    else:
        base = draw(c12.pd_spec())
        if base["t"] not in ("frame", "series"):
            base = {"t": "series", "data": draw(st.lists(st.integers(0, 5), min_size=1, max_size=4)), "dtype": "i8", "name": "s", "index": None}
    n = draw(st.integers(2, 4))
    inputs = [base]
    muts = []
    for _ in range(n - 1):
        ms = c12.mutations_for(base)
        name = draw(st.sampled_from(ms + ["same"]))
        if name in ("independent", "same"):
            # (self-referential containers cannot be delayed arguments: traversal recurses forever)
            other = base if name == "same" else draw(c12.any_spec.filter(lambda s: s["t"] not in ("rec", "fn")) if kind == "delayed" else st.just(base))
            inputs.append(other)
            muts.append(name)
            continue
        picks = draw(st.lists(st.integers(0, 1000), min_size=6, max_size=6))
        it = iter(picks)
        b = c12.apply_mutation(base, name, lambda k: next(it, 0) % max(k, 1))
        inputs.append(b if b is not None else base)
        muts.append(name if b is not None else "same")
    prog = draw(st.sampled_from(["identity", "plus1", "slice", "sum", "map_blocks"])) if kind == "array" else "identity"
    return {"kind": kind, "prog": prog, "inputs": inputs, "mut": "+".join(sorted(set(muts)))}


def nontrivial(case):
    return any(m not in ("same", "independent", "-") for m in case.get("mut", "").split("+"))


SUBCHECKS = [
    Sub(
        "together",
        check,
        strategy=lambda tier: case_strategy(),
        n={"quick": 1500, "thorough": 40000},
        nontrivial=nontrivial,
        classes=lambda c: ["kind-" + c["kind"], "prog-" + c.get("prog", "-")] + ["mut-" + m for m in c.get("mut", "").split("+")],
        doc="near-identical inputs through from_array / pure delayed / from_sequence / from_pandas, computed together vs alone",
    ),
]
