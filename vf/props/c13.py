"""C13 — collections computed together give the same values as computed alone."""
from __future__ import annotations

import numpy as np
from hypothesis import strategies as st

from vf import values as V
from vf.core import Reject, Sub, Violation, ensure, impl, short
from vf.props import c12

PROPERTY = "C13"
LEVEL = "exploration"
PRELOAD = ["dask.array", "dask.bag", "dask.dataframe"]
RULE = (
    "2-4 collections built by the SAME small program from inputs related by C12's near-miss mutations (same bytes in another "
    "layout, same strings split differently, same values under another dtype/shape/index/column placement) or equal inputs "
    "or unrelated inputs: da.from_array(x) followed by elementwise / slicing / reduction / map_blocks, delayed(f, pure=True)(x), "
    "db.from_sequence(list), dd.from_pandas(frame/series). Oracle: for every i, dask.compute(c1..cn)[i] equals "
    "ci.compute() equals the plain NumPy/pandas/Python reference of the same program; additionally unequal inputs (canon "
    "differs) must not yield equal collection names. Non-trivial: inputs unequal but related by a collision-prone mutation "
    "and passing through a tokenised constructor. programs: the SAME input through 2-4 near-identical programs drawn from one "
    "of ~60 parameterised families (array: ufunc dtype=, where=/out=, scalar kind 1/1.0/True/np.int8(1), reductions' axis/"
    "keepdims/split_every/ddof, slices, astype, clip, map_blocks kwargs/partials, cumulative method, topk, pad, creation "
    "routines, seeded random, percentile, overlap, isin, take, rechunk, reshape, tensordot, histogram; bag: map/filter/fold/"
    "topk/random_sample/from_sequence; delayed: pure calls with near-identical args/kwargs/nested containers; frames: scalar "
    "ops, filters, assign, fillna, groupby, rolling, shift, sample, from_pandas...). Oracle: computed together == computed alone "
    "for every variant, and variants with different values never share a name. Non-trivial there: >= 2 distinct parameter sets."
)
ASSUMPTIONS = ["observable equality of inputs is decided by vf.values.canon", "all programs are deterministic functions of their input"]
TECHNIQUE = "Hypothesis-generated near-identical inputs through collection constructors; differential (together vs alone vs NumPy/pandas reference) + name-distinctness invariant"


def pure_fn(x):
    return ("pure_fn", V.canon(x))


def program_array(x, prog):
    import dask.array as da

    d = da.from_array(x, chunks=tuple(max(1, s // 2) for s in x.shape) or ())
    r = x
    if prog == "identity":
        return d, r
    if prog == "plus1":
        if x.dtype.kind in "mMb":
            return d, r
        return d + 1, r + 1
    if prog == "slice":
        if x.ndim == 0:
            return d, r
        return d[::-1], r[::-1]
    if prog == "sum":
        if x.dtype.kind in "mM":
            return d, r
        with np.errstate(all="ignore"):
            return d.sum(), r.sum()
    if prog == "map_blocks":
        return d.map_blocks(_copy_block, dtype=x.dtype), r
    raise ValueError(prog)


def _copy_block(b):
    return b.copy()


def build_collection(spec, kind, prog):
    """-> (collection, reference value)"""
    v = V.build(spec)
    if kind == "array":
        if not isinstance(v, np.ndarray) or v.dtype.hasobject:
            raise Reject("not a numeric ndarray")
        return program_array(v, prog)
    if kind == "delayed":
        from dask import delayed

        return delayed(pure_fn, pure=True)(v), pure_fn(v)
    if kind == "bag":
        import dask.bag as db

        if not isinstance(v, (list, tuple)) or not len(v):
            raise Reject("not a non-empty sequence")
        return db.from_sequence(list(v), npartitions=2), list(v)
    if kind == "frame":
        import dask.dataframe as dd
        import pandas as pd

        if not isinstance(v, (pd.DataFrame, pd.Series)):
            raise Reject("not a frame")
        return dd.from_pandas(v, npartitions=2, sort=False), v
    raise ValueError(kind)


def same_value(a, b):
    return V.canon(a) == V.canon(b)


def check(case):
    import dask

    kind, prog = case["kind"], case.get("prog", "identity")
    sig = dict(kind=kind, prog=prog, mut=case.get("mut", "-"))
    built = []
    for s in case["inputs"]:
        with impl("build collection", **sig):
            built.append(build_collection(s, kind, prog))
    colls = [c for c, _ in built]
    refs = [r for _, r in built]
    inputs = [V.build(s) for s in case["inputs"]]
    with impl("dask.compute(together)", **sig):
        together = dask.compute(*colls, scheduler="sync")
    for i, c in enumerate(colls):
        with impl("compute alone", **sig):
            alone = c.compute(scheduler="sync")
        ensure(same_value(_norm(alone), _norm(refs[i])), f"collection {i} alone = {short(alone)}, reference {short(refs[i])}", "alone-differs-from-reference", **sig)
        ensure(
            same_value(_norm(together[i]), _norm(alone)),
            f"collection {i}: computed together {short(together[i])} != computed alone {short(alone)} (inputs {[short(x, 80) for x in inputs]})",
            "together-differs-from-alone",
            **sig,
        )
    # names
    names = [_name_of(c) for c in colls]
    for i in range(len(colls)):
        for j in range(i + 1, len(colls)):
            if V.canon(inputs[i]) != V.canon(inputs[j]) and V.canon(_norm(refs[i])) != V.canon(_norm(refs[j])):
                ensure(names[i] != names[j], f"unequal inputs {short(inputs[i], 100)} / {short(inputs[j], 100)} share the collection name {names[i]!r}", "name-collision", **sig)


def _name_of(c):
    """graph-level name of the collection (not e.g. the pandas name of a Series)"""
    t = type(c).__module__
    if "dataframe" in t:
        return c.expr._name
    from dask.delayed import Delayed

    if isinstance(c, Delayed):  # (incl. DelayedLeaf / DelayedAttr, whose attribute access is lazy)
        return c.key
    return c.name


def _norm(x):
    if isinstance(x, np.generic):
        return np.asarray(x)
    if isinstance(x, tuple) and x and x[0] == "pure_fn":
        return x
    return x


@st.composite
def case_strategy(draw):
    kind = draw(st.sampled_from(["array", "array", "delayed", "delayed", "bag", "frame"]))
    if kind == "array":
        base = draw(c12.np_spec())
    elif kind == "delayed":
        base = draw(c12.any_spec)
        if base["t"] in ("fn", "rec"):
            base = draw(c12.np_spec())
    elif kind == "bag":
        base = {"t": "list", "v": draw(st.lists(c12._scalars, min_size=1, max_size=5))}
    else:
        base = draw(c12.pd_spec())
        if base["t"] not in ("frame", "series"):
            base = {"t": "series", "data": draw(st.lists(st.integers(0, 5), min_size=1, max_size=4)), "dtype": "i8", "name": "s", "index": None}
    n = draw(st.integers(2, 4))
    inputs = [base]
    muts = []
    for _ in range(n - 1):
        ms = c12.mutations_for(base)
        name = draw(st.sampled_from(ms + ["same"]))
        if name in ("independent", "same"):
            # (self-referential containers cannot be delayed arguments: traversal recurses forever)
            other = base if name == "same" else draw(c12.any_spec.filter(lambda s: s["t"] not in ("rec", "fn")) if kind == "delayed" else st.just(base))
            inputs.append(other)
            muts.append(name)
            continue
        picks = draw(st.lists(st.integers(0, 1000), min_size=6, max_size=6))
        it = iter(picks)
        b = c12.apply_mutation(base, name, lambda k: next(it, 0) % max(k, 1))
        inputs.append(b if b is not None else base)
        muts.append(name if b is not None else "same")
    prog = draw(st.sampled_from(["identity", "plus1", "slice", "sum", "map_blocks"])) if kind == "array" else "identity"
    return {"kind": kind, "prog": prog, "inputs": inputs, "mut": "+".join(sorted(set(muts)))}


def nontrivial(case):
    return any(m not in ("same", "independent", "-") for m in case.get("mut", "").split("+"))


# --------------------------------------------------------------------------
# "programs": the SAME input through 2-4 near-identical PROGRAMS (one family, slightly different
# parameters: dtype=, where=/out=, scalar kind, axis, keepdims, split_every, k, seed, ...).  Oracle: every
# collection computed together equals itself computed alone; collections whose alone-results differ
# must not share a name.

import functools
import operator


def _scaled(b, k=1):
    return b * k


def _addk(x, k=0):
    return x + k


def _const(k):
    return k


def _pair(x, k=None, **kw):
    return ("pair", V.canon(x), V.canon(k), tuple(sorted((a, V.canon(b)) for a, b in kw.items())))


SCALARS = {"i1": 1, "f1": 1.0, "true": True, "np_i1": np.int8(1), "np_f4": np.float32(1), "i2": 2, "np_i8": np.int64(1), "c1": 1 + 0j}


def _arr_variant(fam, x, dx, p):
    import dask.array as da

    if fam == "ufunc_dtype":
        f = getattr(da, p["fn"])
        return f(dx, dtype=p["dtype"]) if p["fn"] != "add" else da.add(dx, dx, dtype=p["dtype"])
    if fam == "ufunc_where":
        m = np.random.default_rng(p["mseed"]).random(x.shape) < 0.5
        out = da.full(x.shape, p["fill"], dtype=x.dtype, chunks=dx.chunks)
        return da.add(dx, dx, where=m, out=out)
    if fam == "scalar_kind":
        return getattr(operator, p["op"])(dx, SCALARS[p["k"]])
    if fam == "reduce":
        kw = {"axis": tuple(p["axis"]) if isinstance(p["axis"], list) else p["axis"], "keepdims": p["keepdims"], "split_every": p["split_every"]}
        if p["fn"] in ("std", "var"):
            kw["ddof"] = p["ddof"]
        return getattr(dx, p["fn"])(**kw)
    if fam == "slice":
        return dx[tuple(slice(*i) if isinstance(i, list) else i for i in p["index"])]
    if fam == "astype":
        return dx.astype(p["dtype"])
    if fam == "clip":
        return da.clip(dx, p["lo"], p["hi"])
    if fam == "round":
        return da.round(dx, p["decimals"])
    if fam == "map_blocks_kw":
        return dx.map_blocks(_scaled, k=SCALARS[p["k"]], dtype=np.result_type(x.dtype, type(SCALARS[p["k"]])))
    if fam == "map_blocks_partial":
        return dx.map_blocks(functools.partial(_scaled, k=SCALARS[p["k"]]), dtype=np.result_type(x.dtype, type(SCALARS[p["k"]])))
    if fam == "cum":
        return getattr(da, p["fn"])(dx, axis=p["axis"], method=p["method"])
    if fam == "topk":
        return da.topk(dx, p["k"], axis=p["axis"])
    if fam == "where_thr":
        return da.where(dx > p["t"], dx, SCALARS[p["k"]])
    if fam == "roll":
        return da.roll(dx, p["shift"], axis=p["axis"])
    if fam == "pad":
        return da.pad(dx, p["width"], mode=p["mode"], **({"constant_values": p["cv"]} if p["mode"] == "constant" else {}))
    if fam == "full":
        return da.full(tuple(p["shape"]), SCALARS[p["k"]], chunks=p["chunk"])
    if fam == "arange":
        return da.arange(p["start"], p["stop"], p["step"], chunks=p["chunk"], dtype=p["dtype"])
    if fam == "linspace":
        return da.linspace(p["start"], p["stop"], p["num"], endpoint=p["endpoint"], chunks=p["chunk"], dtype=p["dtype"])
    if fam == "random":
        rs = da.random.default_rng(p["seed"])
        return getattr(rs, p["dist"])(size=tuple(p["shape"]), chunks=p["chunk"])
    if fam == "percentile":
        return da.percentile(dx.ravel(), p["q"], method=p["method"])
    if fam == "overlap":
        return dx.map_overlap(_addk, depth=p["depth"], boundary=p["boundary"], k=0)
    if fam == "isin":
        return da.isin(dx, p["test"], invert=p["invert"])
    if fam == "take":
        return da.take(dx, p["idx"], axis=0)
    if fam == "repeat":
        return da.repeat(dx, p["n"], axis=p["axis"])
    if fam == "rechunk":
        return dx.rechunk(p["chunks"])
    if fam == "reshape":
        return dx.reshape(p["shape"])
    if fam == "tensordot":
        return da.tensordot(dx, dx.T if p["t"] else dx, axes=p["axes"])
    if fam == "histogram":
        return da.histogram(dx, bins=p["bins"], range=(p["lo"], p["hi"]))[0]
    if fam == "from_array":
        return da.from_array(x, chunks=p["chunks"], **({"asarray": p["asarray"]} if p["asarray"] is not None else {}))
    raise ValueError(fam)


@st.composite
def _arr_params(draw, fam):
    ax = st.sampled_from([0, 1])
    if fam == "ufunc_dtype":
        return {"fn": draw(st.sampled_from(["sqrt", "absolute", "add", "negative"])), "dtype": draw(st.sampled_from([None, "f4", "f8", "c16", "c8"]))}
    if fam == "ufunc_where":
        return {"mseed": draw(st.integers(0, 2)), "fill": draw(st.sampled_from([0, 7, 1]))}
    if fam == "scalar_kind":
        return {"op": draw(st.sampled_from(["add", "mul", "sub", "truediv", "pow"])), "k": draw(st.sampled_from(list(SCALARS)))}
    if fam == "reduce":
        return {"fn": draw(st.sampled_from(["sum", "mean", "max", "std", "var", "prod", "any"])), "axis": draw(st.sampled_from([None, 0, 1, [0, 1], -1])), "keepdims": draw(st.booleans()), "split_every": draw(st.sampled_from([None, 2, 3])), "ddof": draw(st.sampled_from([0, 1]))}
    if fam == "slice":
        one = st.sampled_from([[None, None, 2], [1, None, 2], [None, None, -1], [0, 2, 1], [1, 3, 1], 0, 1, -1, [None, None, 1]])
        return {"index": [draw(one), draw(one)]}
    if fam == "astype":
        return {"dtype": draw(st.sampled_from(["f4", "f8", "i4", "i8", "c16", "bool", "u1"]))}
    if fam == "clip":
        return {"lo": draw(st.sampled_from([-2, -2.0, 0, 1])), "hi": draw(st.sampled_from([2, 2.0, 3, 5]))}
    if fam == "round":
        return {"decimals": draw(st.integers(-1, 2))}
    if fam in ("map_blocks_kw", "map_blocks_partial"):
        return {"k": draw(st.sampled_from(["i1", "f1", "i2", "np_i1", "np_f4", "true"]))}
    if fam == "cum":
        return {"fn": draw(st.sampled_from(["cumsum", "cumprod"])), "axis": draw(ax), "method": draw(st.sampled_from(["sequential", "blelloch"]))}
    if fam == "topk":
        return {"k": draw(st.sampled_from([1, 2, -1, -2, 3])), "axis": draw(ax)}
    if fam == "where_thr":
        return {"t": draw(st.sampled_from([0, 0.0, 1, -1])), "k": draw(st.sampled_from(["i1", "f1", "true", "i2"]))}
    if fam == "roll":
        return {"shift": draw(st.sampled_from([1, 2, -1, 0])), "axis": draw(st.sampled_from([None, 0, 1]))}
    if fam == "pad":
        return {"width": draw(st.sampled_from([1, 2])), "mode": draw(st.sampled_from(["constant", "edge", "reflect"])), "cv": draw(st.sampled_from([0, 1, 0.0]))}
    if fam == "full":
        return {"shape": [4, 3], "k": draw(st.sampled_from(["i1", "f1", "true", "i2", "np_i1", "np_f4", "c1"])), "chunk": draw(st.sampled_from([2, 3]))}
    if fam == "arange":
        return {"start": draw(st.sampled_from([0, 1])), "stop": draw(st.sampled_from([6, 7])), "step": draw(st.sampled_from([1, 2])), "chunk": draw(st.sampled_from([2, 3])), "dtype": draw(st.sampled_from([None, "f8", "i4"]))}
    if fam == "linspace":
        return {"start": 0, "stop": draw(st.sampled_from([1, 2])), "num": draw(st.sampled_from([5, 6])), "endpoint": draw(st.booleans()), "chunk": draw(st.sampled_from([2, 3])), "dtype": draw(st.sampled_from([None, "f4"]))}
    if fam == "random":
        return {"seed": draw(st.integers(0, 2)), "dist": draw(st.sampled_from(["random", "standard_normal"])), "shape": [4, 3], "chunk": draw(st.sampled_from([2, 3]))}
    if fam == "percentile":
        return {"q": draw(st.sampled_from([[50], [25, 75], [50.0], [0, 100]])), "method": draw(st.sampled_from(["linear", "lower", "nearest"]))}
    if fam == "overlap":
        return {"depth": draw(st.sampled_from([0, 1, 2])), "boundary": draw(st.sampled_from(["reflect", "nearest", "none", 0, 1]))}
    if fam == "isin":
        return {"test": draw(st.sampled_from([[1, 2], [1.0, 2.0], [2, 1], [1], [True]])), "invert": draw(st.booleans())}
    if fam == "take":
        return {"idx": draw(st.sampled_from([[0, 1], [1, 0], [0, 0], [0, 1, 1], [-1]]))}
    if fam == "repeat":
        return {"n": draw(st.sampled_from([1, 2, 3])), "axis": draw(ax)}
    if fam == "rechunk":
        return {"chunks": draw(st.sampled_from([[2, 3], [4, 6], [1, 6], [4, 1], [3, 2]]))}
    if fam == "reshape":
        return {"shape": draw(st.sampled_from([[24], [6, 4], [2, 12], [2, 2, 6], [4, 6], [3, 8]]))}
    if fam == "tensordot":
        return {"t": True, "axes": draw(st.sampled_from([1, [[1], [0]], [[0], [1]], [[1], [1]]]))}
    if fam == "histogram":
        return {"bins": draw(st.sampled_from([2, 3, 4])), "lo": draw(st.sampled_from([-10, -5])), "hi": draw(st.sampled_from([10, 5]))}
    if fam == "from_array":
        return {"chunks": draw(st.sampled_from([[2, 3], [4, 6], [2, 6]])), "asarray": draw(st.sampled_from([None, True, False]))}
    raise ValueError(fam)


ARRAY_FAMS = [
    "ufunc_dtype", "ufunc_where", "scalar_kind", "reduce", "slice", "astype", "clip", "round", "map_blocks_kw", "map_blocks_partial",
    "cum", "topk", "where_thr", "roll", "pad", "full", "arange", "linspace", "random", "percentile", "overlap", "isin", "take",
    "repeat", "rechunk", "reshape", "tensordot", "histogram", "from_array",
]


def _bag_variant(fam, seq, b, p):
    if fam == "map_kw":
        return b.map(_addk, k=SCALARS[p["k"]])
    if fam == "map_partial":
        return b.map(functools.partial(_addk, k=SCALARS[p["k"]]))
    if fam == "filter":
        return b.filter(functools.partial(operator.lt, p["t"]))
    if fam == "topk":
        return b.topk(p["k"])
    if fam == "fold":
        return b.fold(operator.add, initial=SCALARS[p["k"]], split_every=p["split_every"])
    if fam == "random_sample":
        return b.random_sample(p["prob"], random_state=p["seed"])
    if fam == "map_partitions":
        return b.map_partitions(lambda part, k: [x * k for x in part], SCALARS[p["k"]])
    if fam == "from_sequence":
        import dask.bag as db

        return db.from_sequence(seq, npartitions=p["npartitions"])
    if fam == "reduction":
        return b.reduction(sum, sum, split_every=p["split_every"], out_type=None) if p["which"] == "sum" else b.reduction(max, max, split_every=p["split_every"])
    raise ValueError(fam)


@st.composite
def _bag_params(draw, fam):
    if fam in ("map_kw", "map_partial", "map_partitions"):
        return {"k": draw(st.sampled_from(["i1", "f1", "true", "i2", "np_i1"]))}
    if fam == "filter":
        return {"t": draw(st.sampled_from([0, 1, 2, 0.0, 1.5]))}
    if fam == "topk":
        return {"k": draw(st.sampled_from([1, 2, 3]))}
    if fam == "fold":
        return {"k": draw(st.sampled_from(["i1", "f1", "true", "i2"])), "split_every": draw(st.sampled_from([None, 2]))}
    if fam == "random_sample":
        return {"prob": draw(st.sampled_from([0.5, 0.75])), "seed": draw(st.integers(0, 2))}
    if fam == "from_sequence":
        return {"npartitions": draw(st.sampled_from([1, 2, 3]))}
    if fam == "reduction":
        return {"which": draw(st.sampled_from(["sum", "max"])), "split_every": draw(st.sampled_from([None, 2]))}
    raise ValueError(fam)


BAG_FAMS = ["map_kw", "map_partial", "filter", "topk", "fold", "random_sample", "map_partitions", "from_sequence", "reduction"]

DELAYED_ARGS = {
    "i1": 1, "f1": 1.0, "true": True, "s1": "1", "b1": b"1", "list12": [1, 2], "tup12": (1, 2), "set12": {1, 2}, "list21": [2, 1],
    "dict": {"a": 1}, "dict_f": {"a": 1.0}, "none": None, "np_i1": np.int8(1), "nested": [[1], 2], "nested2": [1, [2]], "slice": slice(1, 2),
    "slice2": slice(1, 2, None), "slice3": slice(None, 2), "arr_i": np.array([1, 2]), "arr_f": np.array([1.0, 2.0]),
}


def _delayed_variant(fam, v, p):
    from dask import delayed

    if fam == "arg":
        return delayed(_pair, pure=True)(v, DELAYED_ARGS[p["k"]])
    if fam == "kwarg":
        return delayed(_pair, pure=True)(v, **{p["name"]: DELAYED_ARGS[p["k"]]})
    if fam == "const":
        return delayed(DELAYED_ARGS[p["k"]], pure=True)
    if fam == "nested":
        inner = delayed(_const, pure=True)(DELAYED_ARGS[p["k"]])
        return delayed(_pair, pure=True)([inner, DELAYED_ARGS[p["k2"]]])
    if fam == "method":
        d = delayed([3, 1, 2], pure=True)
        return d[p["i"]] if p["how"] == "item" else d.count(p["i"], pure=True) if p["how"] == "count" else d.index(p["i"] + 1, pure=True)
    raise ValueError(fam)


@st.composite
def _delayed_params(draw, fam):
    k = st.sampled_from(list(DELAYED_ARGS))
    if fam in ("arg", "const"):
        return {"k": draw(k)}
    if fam == "kwarg":
        return {"k": draw(k), "name": draw(st.sampled_from(["k", "a", "b"]))}
    if fam == "nested":
        return {"k": draw(k), "k2": draw(k)}
    if fam == "method":
        return {"i": draw(st.integers(0, 2)), "how": draw(st.sampled_from(["item", "count", "index"]))}
    raise ValueError(fam)


DELAYED_FAMS = ["arg", "kwarg", "const", "nested", "method"]


def _frame_variant(fam, pdf, ddf, p):
    if fam == "scalar":
        return getattr(operator, p["op"])(ddf.a, SCALARS[p["k"]])
    if fam == "filter":
        return ddf[ddf.a > p["t"]]
    if fam == "assign":
        return ddf.assign(z=SCALARS[p["k"]])
    if fam == "fillna":
        return ddf.fillna(SCALARS[p["k"]])
    if fam == "groupby":
        return getattr(ddf.groupby(p["by"])[p["col"]], p["agg"])()
    if fam == "rolling":
        return getattr(ddf.b.rolling(p["w"], min_periods=p["mp"]), p["agg"])()
    if fam == "shift":
        return ddf.shift(p["n"])
    if fam == "clip":
        return ddf.b.clip(p["lo"], p["hi"])
    if fam == "astype":
        return ddf.a.astype(p["dtype"])
    if fam == "sample":
        return ddf.sample(frac=p["frac"], random_state=p["seed"])
    if fam == "map_partitions":
        return ddf.map_partitions(_scaled, k=SCALARS[p["k"]])
    if fam == "isin":
        return ddf.a.isin(p["vals"])
    if fam == "nlargest":
        return ddf.nlargest(p["n"], p["col"])
    if fam == "head":
        return ddf.head(p["n"], npartitions=-1, compute=False)
    if fam == "from_pandas":
        import dask.dataframe as dd

        return dd.from_pandas(pdf, npartitions=p["npartitions"], sort=p["sort"])
    if fam == "rename":
        return ddf.rename(columns={"a": p["to"]})
    if fam == "reduction":
        return getattr(ddf[p["col"]], p["agg"])()
    raise ValueError(fam)


@st.composite
def _frame_params(draw, fam):
    k = st.sampled_from(["i1", "f1", "true", "i2", "np_i1"])
    if fam == "scalar":
        return {"op": draw(st.sampled_from(["add", "mul", "sub", "truediv"])), "k": draw(k)}
    if fam == "filter":
        return {"t": draw(st.sampled_from([0, 1, 2, 1.0, 1.5]))}
    if fam in ("assign", "fillna", "map_partitions"):
        return {"k": draw(k)}
    if fam == "groupby":
        return {"by": draw(st.sampled_from(["a", "c"])), "col": draw(st.sampled_from(["b", "a"])), "agg": draw(st.sampled_from(["sum", "mean", "count", "max", "min", "size"]))}
    if fam == "rolling":
        return {"w": draw(st.sampled_from([1, 2, 3])), "mp": draw(st.sampled_from([None, 1])), "agg": draw(st.sampled_from(["sum", "mean", "max"]))}
    if fam == "shift":
        return {"n": draw(st.sampled_from([1, 2, -1, 0]))}
    if fam == "clip":
        return {"lo": draw(st.sampled_from([0, 1, 1.0])), "hi": draw(st.sampled_from([2, 3, 2.0]))}
    if fam == "astype":
        return {"dtype": draw(st.sampled_from(["f8", "f4", "i4", "i8", "object"]))}
    if fam == "sample":
        return {"frac": draw(st.sampled_from([0.5, 0.75])), "seed": draw(st.integers(0, 2))}
    if fam == "isin":
        return {"vals": draw(st.sampled_from([[1, 2], [2, 1], [1.0, 2.0], [1], [True]]))}
    if fam == "nlargest":
        return {"n": draw(st.sampled_from([1, 2, 3])), "col": draw(st.sampled_from(["a", "b"]))}
    if fam == "head":
        return {"n": draw(st.sampled_from([1, 2, 3]))}
    if fam == "from_pandas":
        return {"npartitions": draw(st.sampled_from([1, 2, 3])), "sort": draw(st.booleans())}
    if fam == "rename":
        return {"to": draw(st.sampled_from(["x", "y", "a"]))}
    if fam == "reduction":
        return {"col": draw(st.sampled_from(["a", "b"])), "agg": draw(st.sampled_from(["sum", "mean", "max", "min", "count", "std", "nunique"]))}
    raise ValueError(fam)


FRAME_FAMS = ["scalar", "filter", "assign", "fillna", "groupby", "rolling", "shift", "clip", "astype", "sample", "map_partitions", "isin", "nlargest", "head", "from_pandas", "rename", "reduction"]


def _build_program_variants(case):
    kind, fam = case["kind"], case["family"]
    seed = case["seed"]
    rng = np.random.default_rng(seed)
    if kind == "array":
        import dask.array as da

        x = rng.integers(-3, 6, size=(4, 6)).astype(case.get("dtype", "f8"))
        dx = da.from_array(x, chunks=(2, 3))
        return [_arr_variant(fam, x, dx, p) for p in case["variants"]]
    if kind == "bag":
        import dask.bag as db

        seq = [int(v) for v in rng.integers(0, 5, size=7)]
        b = db.from_sequence(seq, npartitions=3)
        return [_bag_variant(fam, seq, b, p) for p in case["variants"]]
    if kind == "delayed":
        v = [int(v) for v in rng.integers(0, 5, size=3)]
        return [_delayed_variant(fam, v, p) for p in case["variants"]]
    if kind == "frame":
        import dask.dataframe as dd
        import pandas as pd

        n = 9
        pdf = pd.DataFrame({"a": rng.integers(0, 4, size=n), "b": rng.integers(0, 9, size=n).astype("f8"), "c": rng.integers(0, 2, size=n)})
        pdf.loc[pdf.index[2], "b"] = np.nan
        ddf = dd.from_pandas(pdf, npartitions=3)
        return [_frame_variant(fam, pdf, ddf, p) for p in case["variants"]]
    raise ValueError(kind)


def _cmp_value(v):
    """order-insensitive where the API leaves the order open is NOT needed: the same collection is compared with itself"""
    return V.canon(_norm(v))


def check_programs(case):
    import dask

    sig = dict(kind=case["kind"], family=case["family"])
    try:
        with np.errstate(all="ignore"):
            colls = _build_program_variants(case)
    except Exception as e:  # noqa: BLE001 - an invalid parameter combination is out of this property's domain
        raise Reject(f"program does not build: {type(e).__name__}")
    alone = []
    for c in colls:
        try:
            with np.errstate(all="ignore"):
                alone.append(c.compute(scheduler="sync"))
        except Exception as e:  # noqa: BLE001 - (whether each program works alone is C19-C48's business)
            raise Reject(f"program fails alone: {type(e).__name__}")
    with impl("dask.compute(together)", **sig), np.errstate(all="ignore"):
        together = dask.compute(*colls, scheduler="sync")
    for i in range(len(colls)):
        ensure(
            _cmp_value(together[i]) == _cmp_value(alone[i]),
            f"{case['kind']}/{case['family']} variant {i} {case['variants'][i]}: computed together {short(together[i], 200)} != computed alone {short(alone[i], 200)} (all variants {case['variants']})",
            "together-differs-from-alone",
            **sig,
        )
    names = [_name_of(c) for c in colls]
    for i in range(len(colls)):
        for j in range(i + 1, len(colls)):
            if _cmp_value(alone[i]) != _cmp_value(alone[j]):
                ensure(names[i] != names[j], f"{case['kind']}/{case['family']}: variants {case['variants'][i]} / {case['variants'][j]} give different values but share the name {names[i]!r}", "name-collision", **sig)


@st.composite
def programs_case(draw):
    kind = draw(st.sampled_from(["array", "array", "array", "bag", "delayed", "frame", "frame"]))
    fams, params = {"array": (ARRAY_FAMS, _arr_params), "bag": (BAG_FAMS, _bag_params), "delayed": (DELAYED_FAMS, _delayed_params), "frame": (FRAME_FAMS, _frame_params)}[kind]
    fam = draw(st.sampled_from(fams))
    n = draw(st.integers(2, 4))
    variants = [draw(params(fam)) for _ in range(n)]
    case = {"kind": kind, "family": fam, "seed": draw(st.integers(0, 50)), "variants": variants}
    if kind == "array":
        case["dtype"] = draw(st.sampled_from(["f8", "i8", "f4", "i4"]))
    return case


def programs_nontrivial(case):
    from vf.core import canon_json

    return len({canon_json(v) for v in case["variants"]}) >= 2


def programs_classes(case):
    from vf.core import canon_json

    yield "kind-" + case["kind"]
    yield f"{case['kind']}-{case['family']}"
    yield "distinct-variants-%d" % len({canon_json(v) for v in case["variants"]})


SUBCHECKS = [
    Sub(
        "together",
        check,
        strategy=lambda tier: case_strategy(),
        n={"quick": 1500, "thorough": 40000},
        nontrivial=nontrivial,
        classes=lambda c: ["kind-" + c["kind"], "prog-" + c.get("prog", "-")] + ["mut-" + m for m in c.get("mut", "").split("+")],
        doc="near-identical inputs through from_array / pure delayed / from_sequence / from_pandas, computed together vs alone",
    ),
    Sub(
        "programs",
        check_programs,
        strategy=lambda tier: programs_case(),
        n={"quick": 2500, "thorough": 60000},
        nontrivial=programs_nontrivial,
        classes=programs_classes,
        doc="the same input through 2-4 near-identical programs of one family (dtype=, where=/out=, scalar kind, axis, k, seed...), computed together vs alone; names distinct when values differ",
    ),
]
