"""C38 - groupby results equal pandas groupby.

A case is a frame (two low-cardinality key columns: ints / floats with NaN /
categorical with unused categories / strings, numeric value columns, optional
extra column) x a partitioning x a grouping (one/several columns, the index, a
derived Series; sort / dropna / observed; optional column slice) x one groupby
operation with dask-only tuning (split_out, split_every, shuffle_method).
``apply_groupby`` is the same function for pandas and dask.

Order: rows are compared in order only when ``sort=True`` was requested explicitly
and a single output partition is used; otherwise both sides are sorted by the
group keys first (aggregations) / compared as multisets of (index, row)
(transform-like operations, where dask documents that it may shuffle).
Cumulative operations keep the input order in both libraries and are compared
exactly.  Floats within rtol 1e-9; var/std additionally with an absolute
tolerance scaled to the data because dask uses the sum-of-squares formula.
Programs pandas rejects are outside the domain; ``NotImplementedError`` raised by
dask while building the graph is a documented refusal (Reject, counted).
"""
from __future__ import annotations

import warnings

import numpy as np
import pandas as pd
from hypothesis import strategies as st

from vf import frames as F
from vf.core import Reject, Sub, Violation, count, impl, reference
from vf.props import _dfcommon1 as D

PROPERTY = "C38"
PRELOAD = ["dask.dataframe"]
LEVEL = "exploration"
RULE = (
    "random: frames with key columns a (small ints | floats with NaN | categorical with unused categories | strings) and b "
    "(small ints | floats with NaN), value columns c, d (int/float/Int64) and an optional extra column; 0-30 rows, six index "
    "kinds; partitioning incl. EMPTY partitions and unknown divisions; grouping by one column, a list of one or two columns, "
    "the index, or a derived Series (a % 2, c > 0, ...), with sort in {True, False, None}, dropna in {True, False, None}, "
    "observed in {True, False, None}, optional column slice (scalar -> SeriesGroupBy, list -> DataFrameGroupBy); operation: "
    "sum/prod/min/max/count/mean/var/std(ddof)/first/last/size/nunique/idxmin/idxmax/median/cov/corr, agg with a string, a "
    "list, a dict, a dict of lists or named aggregation, cumsum/cumprod/cumcount, transform(fn, meta)/shift(periods, meta)/"
    "ffill/bfill, SeriesGroupBy.value_counts; dask tuning split_out in {1,2,3,True}, split_every in {2,3}, shuffle_method in "
    "{tasks, disk}. Oracle: pandas groupby on the whole frame. Non-trivial: some group has rows in >= 2 partitions, or an NA "
    "key is present with >= 2 partitions."
)
ASSUMPTIONS = [
    "pandas 3.0 groupby on the whole frame is the reference",
    "group order is compared only for sort=True with one output partition; otherwise results are sorted by group key first",
    "transform/shift/ffill/bfill results are compared as multisets of (index label, row): dask documents a possible shuffle",
    "var/std: absolute tolerance 1e-9 * max(1, max|x|^2) (sum-of-squares formula), std compared on squares",
]
TECHNIQUE = "differential testing against pandas groupby with Hypothesis-generated frames, partitionings, groupings and operations"

REDUCERS = ["sum", "prod", "min", "max", "count", "mean", "var", "std", "first", "last", "size", "nunique", "idxmin", "idxmax", "median", "cov", "corr"]
AGG_FUNCS = ["sum", "min", "max", "count", "mean", "var", "std", "first", "last", "size", "prod", "median"]
CUMS = ["cumsum", "cumprod", "cumcount"]
TRANSFORMS = ["transform", "shift", "ffill", "bfill"]


def make_by(obj, g, env):
    by = g["by"]
    if by == "index":
        return obj.index
    if isinstance(by, dict):
        return D.ev(obj, by["series"], env)
    if g.get("scalar_by"):
        return by[0]
    return list(by)


def apply_groupby(obj, g, a, env):
    dask_side = D.is_dask(obj)
    kw = {k: g[k] for k in ("sort", "dropna", "observed") if k in g}
    gb = obj.groupby(make_by(obj, g, env), **kw)
    if "slice" in g:
        gb = gb[g["slice"] if not isinstance(g["slice"], list) else list(g["slice"])]
    tune = dict(a.get("tune", {})) if dask_side else {}
    kind = a["kind"]
    if kind == "reduce":
        return getattr(gb, a["name"])(**a.get("kw", {}), **tune)
    if kind == "agg":
        arg = a["arg"]
        if a.get("named"):
            named = {k: tuple(v) if isinstance(v, list) else v for k, v in arg}
            return gb.agg(**named, **tune)
        if isinstance(arg, dict):
            arg = {k: v for k, v in arg["dict"]}
        return gb.agg(arg, **tune)
    if kind == "cum":
        return getattr(gb, a["name"])()
    if kind == "value_counts":
        return gb.value_counts(**tune)
    if kind == "transform":
        name = a["name"]
        kw2 = {}
        if dask_side and "meta" in a:
            m = a["meta"]
            kw2["meta"] = {k: v for k, v in m} if isinstance(m, list) else (g["slice"], m)
        if dask_side and tune.get("shuffle_method"):
            kw2["shuffle_method"] = tune["shuffle_method"]
        if name == "transform":
            return gb.transform(D.FUNCS[a["fn"]], **kw2)
        if name == "shift":
            return gb.shift(a["periods"], **kw2)
        kw2.pop("meta", None)
        return getattr(gb, name)(**kw2)
    raise ValueError(kind)


def partition_ids(case):
    return np.repeat(np.arange(case.nparts), case.sizes)


def key_facts(case, g, env):
    """(some group spans >= 2 partitions, an NA key is present)"""
    base = case.base
    try:
        by = make_by(base, g, env)
        if isinstance(by, (list, str)):
            keys = base[[by] if isinstance(by, str) else by]
        elif isinstance(by, pd.Index):
            keys = by.to_frame(index=False)
        else:
            keys = by.to_frame()
        keys = keys.reset_index(drop=True)
        has_na = bool(keys.isna().to_numpy().any())
        if not len(keys):
            return False, False
        kk = keys.astype(object).where(keys.notna(), "<NA>")
        df = pd.DataFrame({"k": [tuple(r) for r in kk.to_numpy()], "p": partition_ids(case)})
        spans = bool((df.groupby("k")["p"].nunique() >= 2).any())
        return spans, has_na
    except Exception:  # noqa: BLE001
        return False, False


def check(spec):
    g, a = spec["gb"], spec["agg"]
    case = D.build_case(spec["frame"], spec.get("clear_div", False))
    envp, envd = D.Env(case, "pd"), D.Env(case, "dd")
    tune = a.get("tune", {})
    kinds = {c["name"]: c["kind"] for c in spec["frame"]["columns"]}
    by = g["by"]
    bycols = by if isinstance(by, list) else []
    sig = dict(
        agg=a.get("name", a["kind"]),
        kind=a["kind"],
        by="index" if by == "index" else "series" if isinstance(by, dict) else "col" if len(by) == 1 else "cols",
        split_out=str(tune.get("split_out", "default")),
        sort=str(g.get("sort", "default")),
        cat_key=any(kinds.get(c) == "cat" for c in bycols),
        na_key_kind=any(kinds.get(c) == "keyna" for c in bycols),
        sliced="slice" in g,
        empty_part=case.has_empty,
        dropna_false=g.get("dropna") is False,
        slice_unsorted=isinstance(g.get("slice"), list) and list(g["slice"]) != sorted(g["slice"]),
        dup_index=not case.unique_index,
        zero_rows=len(case.pdf) == 0,
        shuffle=str(tune.get("shuffle_method", "default")),
        split_gt1=tune.get("split_out") is True or (isinstance(tune.get("split_out"), int) and tune.get("split_out") > 1),
        observed_false=g.get("observed") is False,
        index_unnamed=spec["frame"].get("index", {}).get("name") is None,
        uses_first_last=a.get("name") in ("first", "last") or any(x in repr(a.get("arg")) for x in ("'first'", "'last'")),
        uses_median=a.get("name") == "median" or "'median'" in repr(a.get("arg")),
    )
    spans, na_key = key_facts(case, g, envp)
    sig["na_key_present"] = na_key
    # no row belongs to any group: zero rows, or every row has an NA key and dropna is not False
    sig["no_group_rows"] = no_group_rows(case, g, envp)
    sl = g.get("slice")
    vcols = [c for c in ([sl] if isinstance(sl, str) else sl or [n for n in kinds if n not in bycols]) if c in case.base.columns]
    sig["vals_na"] = bool(case.base[vcols].isna().to_numpy().any()) if vcols and len(case.base) else False
    with warnings.catch_warnings(), np.errstate(all="ignore"):
        warnings.simplefilter("ignore")
        status, want = reference(apply_groupby, case.base, g, a, envp)
        if status == "err":
            raise Reject(f"pandas rejects the call: {want!r}")
        try:
            with impl("groupby", **sig):
                lazy = apply_groupby(case.ddf, g, a, envd)
                meta = lazy._meta
                # signature label only: does the lowered reduction shuffle the partial results (explicit split_out > 1,
                # or dask's default for many partitions)?  The shuffle is where partition order gets lost.
                try:
                    sig["lowering_shuffle"] = any("Shuffle" in type(n).__name__ for n in lazy.optimize(fuse=False).expr.walk())
                except Exception:  # noqa: BLE001 - label only; a failure is reported by the compute below
                    sig["lowering_shuffle"] = False
                got = F.compute(lazy)
        except Violation as v:
            cause = v.__cause__
            if isinstance(cause, NotImplementedError):
                count("dask-notimplemented")
                raise Reject("dask refuses: NotImplementedError") from None
            if isinstance(cause, ValueError) and str(cause).startswith("unknown aggregate"):
                # explicit refusal: the aggregate is not in dask's documented list of supported names
                count("dask-documented-refusal")
                raise Reject("dask refuses with its documented message") from None
            raise
    sig["empty_result"] = hasattr(want, "__len__") and len(want) == 0
    maybe_empty = True  # per-partition group aggregation: any partition may lack a group
    kind = a["kind"]
    kw = dict(what=f"{sig['agg']} by {sig['by']}", sig=sig, maybe_empty=maybe_empty)
    if kind in ("reduce", "agg", "value_counts"):
        # value_counts: pandas orders the entries of a group by count, ties freely - compared as a mapping
        ordered = kind != "value_counts" and g.get("sort") is True and not sig["split_gt1"]
        if not ordered and D.kind_of(got) in ("Series", "DataFrame") and D.kind_of(want) == D.kind_of(got):
            got, want = sort_by_keys(got), sort_by_keys(want)
        name = a.get("name")
        if kind == "reduce" and name in ("var", "std") or kind == "agg" and uses_var(a):
            compare_var(got, want, meta, case, a, **kw)
        elif kind == "reduce" and name in ("cov", "corr"):
            compare_cov_corr(got, want, meta, case, g, a, envp, ordered, **kw)
        else:
            D.compare(got, want, meta, **kw)
        return
    if kind == "cum":
        D.compare(got, want, meta, **kw)
        return
    # transform-like: same index labels and rows, order within the result not promised by dask.
    # dask documents that a shuffle may not preserve the order of rows WITHIN a group (the disk shuffle
    # indeed does not), so order-dependent functions (shift/ffill/bfill/cummax/rank) are compared by value
    # only when no shuffle happens: one partition, or grouping by the index with known divisions.
    order_dependent = a["name"] in ("shift", "ffill", "bfill") or a.get("fn") in ("cummax", "rank_first")
    # (probes: the default/disk shuffle reorders rows within a group, and even a single partition is
    # sorted by its index first - so values are compared only for one partition with a sorted index, or
    # grouping by the index itself with known divisions, where no reordering can happen)
    no_reorder = (case.nparts == 1 and case.monotonic) or (g["by"] == "index" and case.known_div)
    if a["name"] == "transform" and isinstance(want, pd.Series) and len(want) == 0 and len(case.pdf) > 0 and sig["no_group_rows"]:
        # pandas artefact on a degenerate input: when EVERY row has an NA key (dropna not False -> zero groups),
        # SeriesGroupBy.transform(<callable>) takes its "no results" branch and returns an EMPTY float64 Series
        # (generic.py:_transform_general; the DataFrameGroupBy variant raises "No objects to concatenate" -> Reject),
        # whereas as soon as one row has a real key it returns one row per input row with NaN for the NA-key rows.
        # dask follows the non-degenerate rule (one NaN row per NA-key row); that is the reference used here.
        count("all-na-keys-transform-udf-reference-extended")
        want = pd.Series(np.nan, index=case.base.index, name=want.name, dtype="float64")
    if order_dependent and not no_reorder:
        count("order-dependent-transform-weak-check")
        weak_compare(got, want, sig)
        return
    if len(case.pdf) == 0 and hasattr(want, "index") and hasattr(got, "index") and meta is not None:
        # zero-row input: pandas' transform returns an UNNAMED empty index there (it keeps the name as soon as there is
        # a row); dask announces and returns the named one.  Accepted only when dask agrees with its own lazy meta.
        # (the same holds for the index type: a RangeIndex instead of the frame's DatetimeIndex / str index)
        same_as_meta = list(got.index.names) == list(meta.index.names) and got.index.dtype == meta.index.dtype
        if len(want) == 0 and len(got) == 0 and same_as_meta and (want.index.names != got.index.names or want.index.dtype != got.index.dtype):
            count("zero-rows-transform-index-relaxed")
            want = want.copy()
            want.index = got.index[:0]
    D.compare(got, want, meta, check_order=False, **kw)


def no_group_rows(case, g, env):
    """True when no row belongs to any group (zero rows, or every key is NA and dropna is not False)."""
    if len(case.base) == 0:
        return True
    kw = {k: g[k] for k in ("sort", "dropna", "observed") if k in g}
    try:
        with warnings.catch_warnings():
            warnings.simplefilter("ignore")
            return int(case.base.groupby(make_by(case.base, g, env), **kw).size().sum()) == 0
    except Exception:  # noqa: BLE001 - pandas rejects the grouping: the reference call rejects the case anyway
        return False


def weak_compare(got, want, sig):
    from vf.core import ensure

    ensure(D.kind_of(got) == D.kind_of(want), f"kind {D.kind_of(got)} != pandas {D.kind_of(want)}", "type-mismatch", **sig)
    ensure(len(got) == len(want), f"{len(got)} rows, pandas {len(want)}", "length-mismatch", **sig)
    if isinstance(want, pd.DataFrame):
        ensure(list(got.columns) == list(want.columns), f"columns {list(got.columns)} != pandas {list(want.columns)}", "columns-mismatch", **sig)
    else:
        ensure(got.name == want.name, f"name {got.name!r} != pandas {want.name!r}", "name-mismatch", **sig)
    gi = sorted(map(repr, got.index.tolist()))
    wi = sorted(map(repr, want.index.tolist()))
    ensure(gi == wi, "index labels differ as multisets", "index-mismatch", **sig)


def sort_by_keys(x):
    """Stable order by the group keys (all index levels), missing keys last - done by hand because
    sort_index on categorical / MultiIndex levels with missing keys is not uniform across index types."""
    idx = x.index
    levels = [idx.get_level_values(i) for i in range(idx.nlevels)]

    def key(v):
        if D.F._isna(v):
            return (2, 0.0, "")
        if isinstance(v, (bool, np.bool_)):
            return (0, float(v), "")
        if isinstance(v, (int, float, np.integer, np.floating)):
            return (0, float(v), "")
        return (1, 0.0, str(v))

    rows = [tuple(key(lv[i]) for lv in levels) for i in range(len(idx))]
    order = sorted(range(len(idx)), key=rows.__getitem__)
    return x.iloc[order]


def uses_var(a):
    s = repr(a.get("arg"))
    return "var" in s or "std" in s


def compare_var(got, want, meta, case, a, **kw):
    """var/std: dask evaluates (sum(x^2) - sum(x)^2/n) / (n - ddof) per group, pandas a two-pass formula.
    Both are "the variance within rounding"; the rounding of the first is absolute in max|x|^2, so a relative
    comparison of a tiny variance (constant group) is not meaningful.  Compare with atol scaled to the data;
    std columns are compared through their squares."""
    num = case.base.select_dtypes("number")
    scale = float(np.nanmax(np.abs(num.to_numpy(dtype=float)))) if num.size and np.isfinite(num.to_numpy(dtype=float)).any() else 1.0
    atol = 1e-9 * max(1.0, scale * scale)
    try:
        D.compare(got, want, meta, **kw)
        return
    except Violation as v:
        if v.sig.get("symptom") != "value-mismatch":
            raise
        first = v
    if D.kind_of(got) != D.kind_of(want) or D.kind_of(got) == "scalar" or got.shape != want.shape:
        raise first
    try:
        pd.testing.assert_index_equal(got.index, want.index)
        if isinstance(got, pd.DataFrame):
            pd.testing.assert_index_equal(got.columns, want.columns)
        g_, w_ = np.asarray(got, dtype=float), np.asarray(want, dtype=float)
    except (AssertionError, TypeError, ValueError):
        raise first from None
    # squares of std == var; for var/other columns compare as is, with the absolute tolerance
    ok = np.isclose(g_, w_, rtol=1e-9, atol=atol, equal_nan=True) | np.isclose(g_ * np.abs(g_), w_ * np.abs(w_), rtol=1e-9, atol=atol, equal_nan=True)
    if not ok.all():
        raise first
    count("var-absolute-tolerance-used")


def compare_cov_corr(got, want, meta, case, g, a, env, ordered, **kw):
    """cov/corr: like var/std, dask evaluates the second moments with the one-pass formula
    (sum(xy) - sum(x)sum(y)/n) / (n - 1) (groupby.py:_cov_agg), pandas with a two-pass formula.  The rounding of the
    first is ABSOLUTE in max|x|^2: A = 1e-12 * max(1, max|x|^2) bounds it for <= 30 rows (n^2 * eps * max|x|^2).  For a
    group whose values are nearly constant relative to their size (c = [-13.492, -13.488]: var 8e-6, error 4e-14) the
    relative error of that variance (5e-9) exceeds the 1e-9 relative tolerance, and corr = cov / sqrt(vx vy) inherits
    it (0.9999999977 vs 1.0).  Both are "the correlation within rounding", so after the strict comparison fails on
    VALUES only (same index, columns, dtypes required) the entries are compared with the propagated bound
        cov:  A        corr:  A * (1/sqrt(vx vy) + |corr|/2 * (1/vx + 1/vy))
    where vx, vy are pandas' variances of the two columns in that group.  Groups with a zero/NaN variance get no
    allowance."""
    try:
        D.compare(got, want, meta, **kw)
        return
    except Violation as v:
        if v.sig.get("symptom") != "value-mismatch":
            raise
        first = v
    if not (isinstance(got, pd.DataFrame) and isinstance(want, pd.DataFrame)) or got.shape != want.shape or not got.size:
        raise first
    cols = list(want.columns)
    k = len(cols)
    try:
        pd.testing.assert_index_equal(got.index, want.index)
        pd.testing.assert_index_equal(got.columns, want.columns)
        assert list(got.dtypes) == list(want.dtypes) and k and len(want) % k == 0
        covw = want if a["name"] == "cov" else apply_groupby(case.base, g, dict(a, name="cov"), env)
        if a["name"] != "cov" and not ordered:
            covw = sort_by_keys(covw)  # the same reordering ``want`` went through
        pd.testing.assert_index_equal(covw.index, want.index)
        g_, w_, c_ = (np.asarray(x, dtype=float) for x in (got, want, covw))
        # k consecutive rows per group, in column order: the diagonal of each k x k block holds the variances
        assert list(want.index.get_level_values(-1)) == cols * (len(want) // k)
    except (AssertionError, TypeError, ValueError):
        raise first from None
    x = case.base[cols].to_numpy(dtype=float)
    scale = float(np.nanmax(np.abs(x))) if np.isfinite(x).any() else 1.0
    A = 1e-12 * max(1.0, scale * scale)
    if a["name"] == "cov":
        tol = np.full(w_.shape, A)
    else:
        var = np.einsum("gii->gi", c_.reshape(-1, k, k))  # (groups, k)
        # entry (group g, row i, column j): vx = var[g, i], vy = var[g, j]
        vx, vy = np.repeat(var.reshape(-1, 1), k, axis=1), np.repeat(var, k, axis=0)
        with np.errstate(all="ignore"):
            tol = A * (1.0 / np.sqrt(vx * vy) + np.abs(w_) / 2.0 * (1.0 / vx + 1.0 / vy))
        tol = np.where(np.isfinite(tol) & (vx > 0) & (vy > 0), tol, 0.0)
    ok = np.isclose(g_, w_, rtol=1e-9, atol=0.0, equal_nan=True) | (np.abs(g_ - w_) <= tol)
    if not ok.all():
        raise first
    count("cov-corr-rounding-bound-used")


def nontrivial(spec):
    c = D.case_info(spec["frame"], spec.get("clear_div", False))
    if c is None or c.nparts < 2 or len(c.pdf) == 0:
        return False
    spans, has_na = key_facts(c, spec["gb"], D.Env(c, "pd"))
    return spans or has_na


def classes(spec):
    yield from D.frame_classes(spec)
    g, a = spec["gb"], spec["agg"]
    yield "op-" + a.get("name", a["kind"])
    yield "kind-" + a["kind"]
    by = g["by"]
    yield "by-" + ("index" if by == "index" else "series" if isinstance(by, dict) else "col" if len(by) == 1 else "cols")
    for k in ("sort", "dropna", "observed"):
        yield f"{k}-{g.get(k, 'default')}"
    for k, v in a.get("tune", {}).items():
        yield f"{k}-{v}"
    if "slice" in g:
        yield "slice-" + ("list" if isinstance(g["slice"], list) else "scalar")
    kinds = {c["name"]: c["kind"] for c in spec["frame"]["columns"]}
    if isinstance(by, list):
        for c_ in by:
            yield "key-" + kinds.get(c_, "?")
    c = D.case_info(spec["frame"], spec.get("clear_div", False))
    if c is not None and len(c.pdf):
        spans, has_na = key_facts(c, g, D.Env(c, "pd"))
        if spans:
            yield "group-spans-partitions"
        if has_na:
            yield "na-key-present"


# --------------------------------------------------------------------------
# generator


def gen_tune(draw, allow_split_out=True):
    t = {}
    if allow_split_out and draw(st.booleans()):
        t["split_out"] = draw(st.sampled_from([1, 2, 3, True]))
    if draw(st.integers(0, 2)) == 0:
        t["split_every"] = draw(st.sampled_from([2, 3]))
    if draw(st.integers(0, 2)) == 0:
        t["shuffle_method"] = draw(st.sampled_from(["tasks", "disk"]))
    return t


@st.composite
def random_case(draw):
    k1 = draw(F.column_spec("a", ["key", "key", "keyna", "cat", "cat", "str"]))
    if k1["kind"] == "str":
        k1["card"] = 3
    k2 = draw(F.column_spec("b", ["key", "keyna"]))
    v1 = draw(F.column_spec("c", ["int", "float", "float", "Int64"]))
    v2 = draw(F.column_spec("d", ["float", "int", "key"]))
    fs = draw(F.frame_spec(max_rows=30, required=[k1, k2, v1, v2], min_cols=0, max_cols=1, kinds=["int", "float", "str", "bool"]))
    names = [c["name"] for c in fs["columns"]]
    kinds = {c["name"]: c["kind"] for c in fs["columns"]}
    numeric_vals = [n for n in names if n not in ("a", "b") and kinds[n] in ("int", "float", "key", "Int64")]
    plain_vals = [n for n in numeric_vals if kinds[n] != "Int64"]

    g = {}
    bk = draw(st.sampled_from(["a", "a", "b", "ab", "ab", "index", "series"]))
    if bk in ("a", "b"):
        g["by"] = [bk]
        g["scalar_by"] = draw(st.booleans())
    elif bk == "ab":
        g["by"] = draw(st.sampled_from([["a", "b"], ["b", "a"]]))
    elif bk == "index":
        g["by"] = "index"
    else:
        e = draw(
            st.sampled_from(
                [
                    {"e": "bin", "op": "mod", "l": {"e": "col", "name": "b"}, "r": {"e": "lit", "v": 2}},
                    {"e": "bin", "op": "gt", "l": {"e": "col", "name": "d"}, "r": {"e": "lit", "v": 0}},
                    {"e": "col", "name": "b"},
                    {"e": "meth", "x": {"e": "col", "name": "c"}, "m": "isna"},
                ]
            )
        )
        g["by"] = {"series": e}
    for k in ("sort", "dropna", "observed"):
        if draw(st.integers(0, 2)) > 0:
            g[k] = draw(st.sampled_from([True, False]))
    bycols = g["by"] if isinstance(g["by"], list) else []
    vals = [n for n in numeric_vals if n not in bycols]
    pvals = [n for n in plain_vals if n not in bycols]
    allvals = [n for n in names if n not in bycols]

    kind = draw(st.sampled_from(["reduce", "reduce", "reduce", "agg", "agg", "cum", "transform", "value_counts"]))
    a = {"kind": kind}
    if kind == "reduce":
        name = draw(st.sampled_from(REDUCERS))
        a["name"] = name
        a["tune"] = draw(gen_tune_st())
        kw = {}
        if name in ("count", "size", "first", "last", "min", "max"):
            pool = allvals
        else:
            pool = vals if name not in ("median", "cov", "corr", "idxmin", "idxmax") else pvals
        if name == "nunique":
            if not pool:
                pool = allvals
            g["slice"] = draw(st.sampled_from(pool))
        elif name in ("cov", "corr"):
            if len(pool) >= 2:
                g["slice"] = pool[:2] if draw(st.booleans()) else pool
            elif pool:
                g["slice"] = pool
        elif pool and draw(st.integers(0, 3)) > 0:
            g["slice"] = draw(st.sampled_from(pool)) if draw(st.booleans()) else draw(st.lists(st.sampled_from(pool), min_size=1, max_size=len(pool), unique=True))
        if name in ("var", "std") and draw(st.booleans()):
            kw["ddof"] = draw(st.sampled_from([0, 1, 2]))
        if name in ("sum", "prod", "mean", "var", "std", "min", "max", "first", "last", "median") and "slice" not in g:
            kw["numeric_only"] = True
        if name in ("sum", "prod") and draw(st.integers(0, 3)) == 0:
            kw["min_count"] = draw(st.sampled_from([1, 2]))
        if name in ("median",):
            a["tune"].pop("split_every", None)
        if kw:
            a["kw"] = kw
    elif kind == "agg":
        a["tune"] = draw(gen_tune_st())
        funcs = st.sampled_from(AGG_FUNCS)
        form = draw(st.sampled_from(["str", "list", "dict", "dictlist", "named"]))
        pool = vals or allvals
        if form in ("str", "list"):
            if pool and draw(st.integers(0, 3)) > 0:
                g["slice"] = draw(st.sampled_from(pool)) if draw(st.booleans()) else draw(st.lists(st.sampled_from(pool), min_size=1, max_size=len(pool), unique=True))
            elif pool:
                g["slice"] = list(pool)
            a["arg"] = draw(funcs) if form == "str" else draw(st.lists(funcs, min_size=1, max_size=3, unique=True))
        elif form == "dict":
            cs = draw(st.lists(st.sampled_from(pool), min_size=1, max_size=len(pool), unique=True))
            a["arg"] = {"dict": [[c, draw(funcs)] for c in cs]}
        elif form == "dictlist":
            cs = draw(st.lists(st.sampled_from(pool), min_size=1, max_size=len(pool), unique=True))
            a["arg"] = {"dict": [[c, draw(st.lists(funcs, min_size=1, max_size=2, unique=True))] for c in cs]}
        else:
            # distinct (column, function) pairs: dask explicitly refuses duplicates ("conflicting aggregation functions")
            pairs = draw(st.lists(st.tuples(st.sampled_from(pool), funcs), min_size=1, max_size=4, unique=True))
            if len(pool) >= 2 and draw(st.booleans()):
                # keywords that INTERLEAVE the input columns (a, b, a): output order != grouped-by-column order
                c1, c2 = draw(st.lists(st.sampled_from(pool), min_size=2, max_size=2, unique=True))
                f1, f3 = draw(st.lists(funcs, min_size=2, max_size=2, unique=True))
                pairs = [(c1, f1), (c2, draw(funcs)), (c1, f3)]
            a["arg"] = [[f"out{i}", [c, f]] for i, (c, f) in enumerate(pairs)]
            a["named"] = True
    elif kind == "cum":
        a["name"] = draw(st.sampled_from(CUMS))
        pool = pvals
        if a["name"] != "cumcount" and pool:
            g["slice"] = draw(st.sampled_from(pool)) if draw(st.booleans()) else draw(st.lists(st.sampled_from(pool), min_size=1, max_size=len(pool), unique=True))
        elif a["name"] != "cumcount":
            a["name"] = "cumcount"
    elif kind == "transform":
        a["name"] = draw(st.sampled_from(TRANSFORMS))
        a["tune"] = {}
        if draw(st.integers(0, 2)) == 0:
            a["tune"]["shuffle_method"] = draw(st.sampled_from(["tasks", "disk"]))
        pool = pvals or ["c"]
        scalar = draw(st.booleans())
        cols = [draw(st.sampled_from(pool))] if scalar else draw(st.lists(st.sampled_from(pool), min_size=1, max_size=len(pool), unique=True))
        g["slice"] = cols[0] if scalar else cols

        def dt_of(c, floaty):
            return "float64" if floaty or kinds[c] == "float" else "int64"

        if a["name"] == "transform":
            a["fn"] = draw(st.sampled_from(["center", "cummax", "rank_first"]))
            floaty = a["fn"] in ("center", "rank_first")
            a["meta"] = dt_of(cols[0], floaty) if scalar else [[c, dt_of(c, floaty)] for c in cols]
        elif a["name"] == "shift":
            a["periods"] = draw(st.sampled_from([1, -1, 2]))
            a["meta"] = "float64" if scalar else [[c, "float64"] for c in cols]
    else:
        pool = [n for n in allvals if kinds[n] in ("key", "int", "str", "bool", "keyna")] or allvals
        g["slice"] = draw(st.sampled_from(pool))
        a["tune"] = draw(gen_tune_st())
    return {"frame": fs, "clear_div": draw(st.integers(0, 5)) == 0, "gb": g, "agg": a}


@st.composite
def gen_tune_st(draw):
    return gen_tune(draw)


SUBCHECKS = [
    Sub(
        "random",
        check,
        strategy=lambda tier: random_case(),
        n={"quick": 1600, "thorough": 30000},
        nontrivial=nontrivial,
        classes=classes,
        doc="random frames x partitionings x groupings (columns/index/series, sort/dropna/observed) x groupby operations x split_out/split_every/shuffle_method",
    ),
]
