"""C15 — delayed programs evaluate like the eager Python program."""
from __future__ import annotations

import collections
import copy
import dataclasses
import operator

from hypothesis import strategies as st

from vf.core import Reject, Sub, Violation, ensure, impl, short

PROPERTY = "C15"
LEVEL = "exploration"
RULE = (
    "typed expression ASTs (types int / str / list / dict / tuple / dataclass / namedtuple / slice, so generated programs are "
    "valid by construction): calls of module-level functions, binary/unary/comparison operators, attribute and item access, "
    "method calls, container literals mixing delayed and plain values, slices with delayed bounds, dataclass and namedtuple "
    "arguments; every call site independently eager or delayed, pure on/off, dask_key_name, nout-unpacking. Oracle: the "
    "harness's eager interpreter of the AST == the value computed through dask.delayed on the sync and threaded schedulers; "
    "with pure=True building the same AST twice gives the same key and changing one constant gives a different key; "
    "dask_key_name is honoured; a, b = delayed(f, nout=2)(...) compute to the elements of the eager tuple. Non-trivial: a "
    "delayed value nested >= 2 levels inside a dict / slice / dataclass argument of another delayed call."
)
ASSUMPTIONS = ["all functions are deterministic and side-effect free", "the eager interpreter in this module defines the expected value"]
TECHNIQUE = "Hypothesis-generated typed expression programs; differential testing (eager interpreter vs dask.delayed), key-equality metamorphic checks for pure=True"


@dataclasses.dataclass
class Rec:
    a: object
    b: object


Pair = collections.namedtuple("Pair", ["x", "y"])


def add(a, b):
    return a + b


def mul(a, b):
    return a * b


def neg(a):
    return -a


def size(x):
    return len(x)


def first(x):
    return x[0]


def total(xs):
    return sum(xs)


def join(a, b, sep="-"):
    return f"{a}{sep}{b}"


def mklist(*a):
    return list(a)


def mkdict(**kw):
    return dict(kw)


def rec_sum(r):
    return r.a * 10 + len(r.b)


def pair_diff(p):
    return p.x - p.y


def two(a, b):
    return (a + 1, b * 2)


def dict_total(d):
    return sum(d.values())


def nested_total(d):
    # d = {"k": [.., {"m": int}], "r": Rec(...)}
    return d["k"][0] + d["k"][1]["m"] + d["r"].a


FUNCS = {f.__name__: f for f in (add, mul, neg, size, first, total, join, mklist, mkdict, rec_sum, pair_diff, two, dict_total, nested_total)}
OPS = {"+": operator.add, "-": operator.sub, "*": operator.mul, "//": operator.floordiv, "<": operator.lt, "==": operator.eq, "neg": operator.neg, "%": operator.mod}


class Lazy:
    """bookkeeping wrapper so the builder knows which values are Delayed"""


def build(e, lazy, keys):
    """Evaluate the AST.  lazy=False: plain Python.  lazy=True: through dask.delayed
    where the AST says so.  Returns the value (possibly a Delayed / container of Delayed)."""
    from dask import delayed
    from dask.delayed import Delayed

    t = e["t"]
    if t == "const":
        v = copy.deepcopy(e["v"])
        if lazy and e.get("delayed"):
            # (pure=True: a plain delayed(value) gets a random key by default, and calls on
            # randomly named arguments are not "identical calls")
            return delayed(v, pure=True)
        return v
    if t == "call":
        args = [build(a, lazy, keys) for a in e.get("args", [])]
        kwargs = {k: build(v, lazy, keys) for k, v in (e.get("kwargs") or {}).items()}
        fn = FUNCS[e["fn"]]
        if lazy and (e.get("delayed") or _has_lazy(args) or _has_lazy(list(kwargs.values()))):
            dk = {}
            if e.get("key"):
                dk["dask_key_name"] = e["key"]
                keys.append(("named", e["key"]))
            d = delayed(fn, pure=e.get("pure"))(*args, **dk, **kwargs)
            if e.get("pure") and not e.get("key") and all_pure(e):
                keys.append(("pure", d.key))
            if e.get("key"):
                ensure(d.key == e["key"], f"dask_key_name={e['key']!r} not honoured: key is {d.key!r}", "dask-key-name")
            return d
        return fn(*args, **kwargs)
    if t == "op":
        args = [build(a, lazy, keys) for a in e["args"]]
        return OPS[e["op"]](*args)
    if t == "getitem":
        obj = build(e["obj"], lazy, keys)
        idx = build(e["idx"], lazy, keys)
        if isinstance(idx, Delayed) and not isinstance(obj, Delayed):
            obj = delayed(obj, pure=True)
        if _has_lazy([idx]) and not isinstance(idx, Delayed) and not isinstance(obj, Delayed):
            obj = delayed(obj, pure=True)
        return obj[idx]
    if t == "getattr":
        obj = build(e["obj"], lazy, keys)
        if _has_lazy([obj]) and not isinstance(obj, Delayed):
            obj = delayed(obj, pure=True)
        return getattr(obj, e["name"])
    if t == "method":
        obj = build(e["obj"], lazy, keys)
        args = [build(a, lazy, keys) for a in e.get("args", [])]
        if (_has_lazy([obj]) or _has_lazy(args)) and not isinstance(obj, Delayed):
            obj = delayed(obj, pure=True)
        return getattr(obj, e["name"])(*args)
    if t == "list":
        return [build(x, lazy, keys) for x in e["items"]]
    if t == "tuple":
        return tuple(build(x, lazy, keys) for x in e["items"])
    if t == "dict":
        return {k: build(v, lazy, keys) for k, v in e["items"]}
    if t == "slice":
        return slice(*[build(x, lazy, keys) if x is not None else None for x in e["parts"]])
    if t == "rec":
        return Rec(build(e["a"], lazy, keys), build(e["b"], lazy, keys))
    if t == "pair":
        return Pair(build(e["x"], lazy, keys), build(e["y"], lazy, keys))
    raise ValueError(t)


def all_pure(e):
    """every call in the subtree is pure=True (so the whole subtree is named deterministically)"""
    if isinstance(e, dict):
        if e.get("t") == "call" and e.get("pure") is not True:
            return False
        if e.get("t") == "method":
            return False  # method calls on a Delayed are impure (randomly named) unless asked otherwise
        return all(all_pure(v) for v in e.values())
    if isinstance(e, list):
        return all(all_pure(v) for v in e)
    return True


def _has_lazy(vals):
    from dask.delayed import Delayed

    for v in vals:
        if isinstance(v, Delayed):
            return True
        if isinstance(v, (list, tuple)) and _has_lazy(list(v)):
            return True
        if isinstance(v, dict) and _has_lazy(list(v.values())):
            return True
        if isinstance(v, slice) and _has_lazy([v.start, v.stop, v.step]):
            return True
        if dataclasses.is_dataclass(v) and not isinstance(v, type) and _has_lazy([getattr(v, f.name) for f in dataclasses.fields(v)]):
            return True
    return False


def check(case):
    import dask

    prog = case["prog"]
    try:
        want = build(prog, False, [])
    except Exception as e:  # noqa: BLE001 - the eager program itself is invalid (e.g. division by zero)
        raise Reject(f"eager program raises {type(e).__name__}")
    keys1, keys2 = [], []
    with impl("build delayed program"):
        lazy = build(prog, True, keys1)
    for sched in ("sync", "threads"):
        with impl("compute", scheduler=sched):
            (got,) = dask.compute(lazy, scheduler=sched)
        ensure(_same(got, want), f"delayed program computes {short(got)} on {sched}, eager Python gives {short(want)}", "value-differs", scheduler=sched)
    # pure keys: same program twice -> same keys
    with impl("build delayed program again"):
        build(prog, True, keys2)
    p1 = [k for kind, k in keys1 if kind == "pure"]
    p2 = [k for kind, k in keys2 if kind == "pure"]
    ensure(p1 == p2, f"pure=True: the same calls got different keys on rebuild: {p1} vs {p2}", "pure-key-not-deterministic")
    # mutate one constant -> the pure calls that depend on it must change key
    if case.get("mutate") is not None and p1:
        prog2, hit = mutate_const(prog, case["mutate"])
        if hit:
            keys3 = []
            try:
                want2 = build(prog2, False, [])
            except Exception:  # noqa: BLE001
                return
            with impl("build mutated program"):
                lazy2 = build(prog2, True, keys3)
            p3 = [k for kind, k in keys3 if kind == "pure"]
            top_pure = prog.get("t") == "call" and prog.get("pure") and not prog.get("key") and all_pure(prog)
            if top_pure and len(p1) == len(p3) and not _same(want, want2):
                ensure(p1[-1] != p3[-1], f"pure=True: programs with different arguments share the key {p1[-1]!r}", "pure-key-collision")
            with impl("compute mutated"):
                (got2,) = dask.compute(lazy2, scheduler="sync")
            ensure(_same(got2, want2), f"mutated program computes {short(got2)}, eager {short(want2)}", "value-differs", scheduler="sync")
            # the original and the mutated program in ONE graph: calls that differ must not share a key
            # (not when a call carries an explicit dask_key_name: naming two different calls alike is the caller's doing)
            with impl("compute original and mutated together"):
                g1, g2 = (want, want2) if has_explicit_key(prog) else dask.compute(lazy, lazy2, scheduler="sync")
            ensure(_same(g1, want) and _same(g2, want2), f"computed together, the program and its one-constant variant give {short(g1)} / {short(g2)}, eager {short(want)} / {short(want2)}", "together-differs")
    # the same values bound to other keyword names (f(p=a, q=b) vs f(p=b, q=a)) is a different call
    prog_sw, hit = swap_kwargs(prog)
    if hit and not has_explicit_key(prog):
        try:
            want_sw = build(prog_sw, False, [])
        except Exception:  # noqa: BLE001
            return
        with impl("build keyword-swapped program"):
            lazy_a = build(prog, True, [])
            lazy_sw = build(prog_sw, True, [])
        with impl("compute program and keyword-swapped program together"):
            ga, gs = dask.compute(lazy_a, lazy_sw, scheduler="sync")
        ensure(_same(ga, want) and _same(gs, want_sw), f"computed together, the program and its keyword-swapped variant give {short(ga)} / {short(gs)}, eager {short(want)} / {short(want_sw)}", "kwargs-swap-together-differs")


def has_explicit_key(e):
    if isinstance(e, dict):
        return bool(e.get("key")) or any(has_explicit_key(v) for v in e.values())
    if isinstance(e, (list, tuple)):
        return any(has_explicit_key(v) for v in e)
    return False


def swap_kwargs(e):
    """(copy of the program in which the first call with >= 2 keyword arguments has the values of its first two keywords
    exchanged, whether such a call exists and the two argument expressions differ)"""
    import copy

    e = copy.deepcopy(e)
    done = [False]

    def walk(x):
        if done[0]:
            return
        if isinstance(x, dict):
            kw = x.get("kwargs") if x.get("t") == "call" else None
            if kw and len(kw) >= 2:
                a, b = list(kw)[:2]
                if kw[a] != kw[b]:
                    # names exchanged, values kept in their written order: f(p=x, q=y) -> f(q=x, p=y)
                    items = list(kw.items())
                    items[0], items[1] = (b, kw[a]), (a, kw[b])
                    kw.clear()
                    kw.update(items)
                    done[0] = True
                    return
            for v in x.values():
                walk(v)
        elif isinstance(x, (list, tuple)):
            for v in x:
                walk(v)

    walk(e)
    return e, done[0]


def check_nout(case):
    import dask
    from dask import delayed

    a = build(case["a"], True, [])
    b = build(case["b"], True, [])
    ea = build(case["a"], False, [])
    eb = build(case["b"], False, [])
    want = two(ea, eb)
    with impl("nout"):
        x, y = delayed(two, nout=2, pure=case.get("pure"))(a, b)
        got = dask.compute(x, y, scheduler="sync")
    ensure(tuple(got) == tuple(want), f"nout=2 unpacking computes {got}, eager {want}", "nout")
    with impl("nout len"):
        d = delayed(two, nout=2)(a, b)
        ensure(len(d) == 2, "len() of nout=2 delayed", "nout-len")
        got2 = dask.compute(list(d), scheduler="sync")[0]
    ensure(list(got2) == list(want), f"iterating a nout=2 delayed computes {got2}, eager {want}", "nout")


def _same(a, b):
    if type(a) is not type(b):
        return False
    if isinstance(a, (list, tuple)) and not hasattr(a, "_fields"):
        return len(a) == len(b) and all(_same(x, y) for x, y in zip(a, b))
    if isinstance(a, dict):
        return a.keys() == b.keys() and all(_same(a[k], b[k]) for k in a)
    return a == b


def mutate_const(prog, n):
    """Change the n-th int constant (mod count); returns (new_prog, changed?)."""
    p = copy.deepcopy(prog)
    consts = []

    def walk(e):
        if isinstance(e, dict):
            if e.get("t") == "const" and isinstance(e["v"], int) and not isinstance(e["v"], bool):
                consts.append(e)
            for v in e.values():
                walk(v)
        elif isinstance(e, list):
            for v in e:
                walk(v)

    walk(p)
    if not consts:
        return p, False
    c = consts[n % len(consts)]
    c["v"] = c["v"] + 1
    return p, True


# --------------------------------------------------------------------------
# typed strategies


def _flag(draw):
    return {"delayed": draw(st.booleans()), "pure": draw(st.sampled_from([None, True, False]))}


@st.composite
def int_expr(draw, depth):
    if depth <= 0 or draw(st.integers(0, 3)) == 0:
        return {"t": "const", "v": draw(st.integers(-3, 9)), "delayed": draw(st.booleans())}
    k = draw(st.sampled_from(["add", "mul", "neg", "size", "first", "total", "op", "getitem", "dictget", "rec", "pair", "count", "dict_total", "nested", "slice_total"]))
    f = _flag(draw)
    if k in ("add", "mul"):
        return {"t": "call", "fn": k, "args": [draw(int_expr(depth - 1)), draw(int_expr(depth - 1))], **f}
    if k == "neg":
        return {"t": "call", "fn": "neg", "args": [draw(int_expr(depth - 1))], **f}
    if k in ("size", "first", "total"):
        return {"t": "call", "fn": k, "args": [draw(list_expr(depth - 1))], **f}
    if k == "op":
        op = draw(st.sampled_from(["+", "-", "*", "neg"]))
        if op == "neg":
            return {"t": "op", "op": "neg", "args": [draw(int_expr(depth - 1))]}
        return {"t": "op", "op": op, "args": [draw(int_expr(depth - 1)), draw(int_expr(depth - 1))]}
    if k == "getitem":
        return {"t": "getitem", "obj": draw(list_expr(depth - 1)), "idx": {"t": "const", "v": draw(st.sampled_from([0, -1])), "delayed": draw(st.booleans())}}
    if k == "dictget":
        return {"t": "getitem", "obj": draw(dict_expr(depth - 1)), "idx": {"t": "const", "v": draw(st.sampled_from(["p", "q"])), "delayed": draw(st.booleans())}}
    if k == "rec":
        r = {"t": "rec", "a": draw(int_expr(depth - 1)), "b": draw(str_expr(depth - 1))}
        if draw(st.booleans()):
            return {"t": "call", "fn": "rec_sum", "args": [r], **f}
        return {"t": "getattr", "obj": r, "name": "a"}
    if k == "pair":
        p = {"t": "pair", "x": draw(int_expr(depth - 1)), "y": draw(int_expr(depth - 1))}
        return {"t": "call", "fn": "pair_diff", "args": [p], **f}
    if k == "count":
        return {"t": "method", "obj": draw(str_expr(depth - 1)), "name": "count", "args": [{"t": "const", "v": "a"}]}
    if k == "dict_total":
        return {"t": "call", "fn": "dict_total", "args": [draw(dict_expr(depth - 1))], **f}
    if k == "nested":
        # a delayed value nested >= 2 levels inside a dict / list / dataclass argument
        d = {
            "t": "dict",
            "items": [
                ["k", {"t": "list", "items": [draw(int_expr(depth - 1)), {"t": "dict", "items": [["m", draw(int_expr(depth - 1))]]}]}],
                ["r", {"t": "rec", "a": draw(int_expr(depth - 1)), "b": {"t": "const", "v": "zz"}}],
            ],
        }
        return {"t": "call", "fn": "nested_total", "args": [d], "delayed": True, "pure": f["pure"]}
    # slice with (possibly delayed) bounds, keeps the list non-empty: [::-1] or [0:stop]
    lst = draw(list_expr(depth - 1))
    if draw(st.booleans()):
        sl = {"t": "slice", "parts": [None, None, {"t": "const", "v": -1, "delayed": draw(st.booleans())}]}
    else:
        # start/stop bounds, each possibly delayed (total() of an empty list is fine)
        sl = {
            "t": "slice",
            "parts": [
                {"t": "const", "v": draw(st.integers(0, 1)), "delayed": draw(st.booleans())},
                {"t": "const", "v": draw(st.integers(1, 3)), "delayed": draw(st.booleans())},
                None,
            ],
        }
    return {"t": "call", "fn": "total", "args": [{"t": "getitem", "obj": lst, "idx": sl}], **f}


@st.composite
def str_expr(draw, depth):
    if depth <= 0 or draw(st.integers(0, 2)) == 0:
        return {"t": "const", "v": draw(st.sampled_from(["a", "ab", "", "banana"])), "delayed": draw(st.booleans())}
    k = draw(st.sampled_from(["join", "upper", "plus", "times", "joinkw"]))
    f = _flag(draw)
    if k == "join":
        return {"t": "call", "fn": "join", "args": [draw(str_expr(depth - 1)), draw(str_expr(depth - 1))], **f}
    if k == "joinkw":
        return {"t": "call", "fn": "join", "args": [draw(str_expr(depth - 1)), draw(str_expr(depth - 1))], "kwargs": {"sep": draw(str_expr(depth - 1))}, **f}
    if k == "upper":
        return {"t": "method", "obj": draw(str_expr(depth - 1)), "name": "upper", "args": []}
    if k == "plus":
        return {"t": "op", "op": "+", "args": [draw(str_expr(depth - 1)), draw(str_expr(depth - 1))]}
    return {"t": "op", "op": "*", "args": [draw(str_expr(depth - 1)), {"t": "const", "v": draw(st.integers(0, 2)), "delayed": draw(st.booleans())}]}


@st.composite
def list_expr(draw, depth):
    if depth <= 0 or draw(st.integers(0, 2)) == 0:
        return {"t": "const", "v": draw(st.lists(st.integers(0, 9), min_size=1, max_size=3)), "delayed": draw(st.booleans())}
    k = draw(st.sampled_from(["mklist", "literal", "plus", "sorted"]))
    f = _flag(draw)
    if k == "mklist":
        return {"t": "call", "fn": "mklist", "args": [draw(int_expr(depth - 1)) for _ in range(draw(st.integers(1, 3)))], **f}
    if k == "literal":
        return {"t": "list", "items": [draw(int_expr(depth - 1)) for _ in range(draw(st.integers(1, 3)))]}
    if k == "plus":
        return {"t": "op", "op": "+", "args": [draw(list_expr(depth - 1)), draw(list_expr(depth - 1))]}
    return {"t": "getitem", "obj": draw(list_expr(depth - 1)), "idx": {"t": "slice", "parts": [None, None, {"t": "const", "v": -1, "delayed": draw(st.booleans())}]}}


@st.composite
def dict_expr(draw, depth):
    f = _flag(draw)
    if draw(st.booleans()):
        return {"t": "call", "fn": "mkdict", "args": [], "kwargs": {"p": draw(int_expr(depth - 1)), "q": draw(int_expr(depth - 1))}, **f}
    return {"t": "dict", "items": [["p", draw(int_expr(depth - 1))], ["q", draw(int_expr(depth - 1))]]}


@st.composite
def case_strategy(draw):
    kind = draw(st.sampled_from(["int", "int", "int", "str", "list", "dict"]))
    depth = draw(st.integers(1, 3))
    prog = draw({"int": int_expr, "str": str_expr, "list": list_expr, "dict": dict_expr}[kind](depth))
    if prog["t"] == "call" and draw(st.integers(0, 4)) == 0:
        prog["key"] = "named-" + str(draw(st.integers(0, 99)))
        prog["delayed"] = True
    return {"prog": prog, "mutate": draw(st.one_of(st.none(), st.integers(0, 9)))}


def depth_of_delayed_in_arg(e, inside=0):
    """max nesting level (inside containers that are call arguments) at which a delayed sub-expression sits"""
    best = 0
    if not isinstance(e, dict):
        return 0
    t = e.get("t")
    if inside and (e.get("delayed") and t in ("const", "call")):
        best = inside
    if t == "call":
        for a in list(e.get("args", [])) + list((e.get("kwargs") or {}).values()):
            best = max(best, depth_of_delayed_in_arg(a, 1 if a.get("t") in ("list", "dict", "tuple", "rec", "pair", "slice") else 0))
    elif t in ("list", "tuple"):
        for a in e["items"]:
            best = max(best, depth_of_delayed_in_arg(a, inside + 1 if inside else 0))
    elif t == "dict":
        for _, a in e["items"]:
            best = max(best, depth_of_delayed_in_arg(a, inside + 1 if inside else 0))
    elif t in ("rec", "pair"):
        for k in ("a", "b", "x", "y"):
            if k in e:
                best = max(best, depth_of_delayed_in_arg(e[k], inside + 1 if inside else 0))
    elif t == "slice":
        for a in e["parts"]:
            if a:
                best = max(best, depth_of_delayed_in_arg(a, inside + 1 if inside else 0))
    else:
        for k in ("obj", "idx"):
            if k in e:
                best = max(best, depth_of_delayed_in_arg(e[k], inside))
        for a in e.get("args", []) if isinstance(e.get("args"), list) else []:
            best = max(best, depth_of_delayed_in_arg(a, inside))
    return best


def nontrivial(case):
    return depth_of_delayed_in_arg(case["prog"]) >= 2


def classes(case):
    def walk(e, acc):
        if isinstance(e, dict):
            if "t" in e:
                acc.add(e["t"] + ("-" + e["fn"] if e.get("t") == "call" else ""))
                if e.get("pure"):
                    acc.add("pure")
                if e.get("key"):
                    acc.add("dask_key_name")
            for v in e.values():
                walk(v, acc)
        elif isinstance(e, list):
            for v in e:
                walk(v, acc)

    acc = set()
    walk(case["prog"], acc)
    return sorted(acc)


SUBCHECKS = [
    Sub("programs", check, strategy=lambda tier: case_strategy(), n={"quick": 5000, "thorough": 100000}, nontrivial=nontrivial, classes=classes, doc="typed expression programs: eager interpreter vs dask.delayed on sync and threads; pure keys; dask_key_name"),
    Sub(
        "nout",
        check_nout,
        strategy=lambda tier: st.builds(lambda a, b, p: {"a": a, "b": b, "pure": p}, int_expr(2), int_expr(2), st.sampled_from([None, True])),
        n={"quick": 300, "thorough": 5000},
        nontrivial=lambda c: c["a"]["t"] != "const" or c["b"]["t"] != "const",
        doc="nout=2 unpacking",
    ),
]
