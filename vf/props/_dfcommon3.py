"""Helpers for the dataframe properties C43, C46, C47 (owned by agent s9).

* ``close_eq``: ordered comparison of a computed frame/series with the pandas reference with explicit
  rtol/atol (rolling var/std need a looser absolute tolerance than vf.frames.assert_eq's fixed 1e-12);
* ``part_lengths``: row counts of the source partitions;
* ``with_nan_runs``: overwrite float columns with NaN runs at given positions (runs that cross partition boundaries).
"""
from __future__ import annotations

import numpy as np
import pandas as pd

from vf import frames as F
from vf.core import Violation, ensure
from vf.props import _dfcommon2 as C


def with_nan_runs(pdf, runs):
    cols = [i for i, dt in enumerate(pdf.dtypes) if dt == "float64"]
    if runs and cols:
        pdf = pdf.copy()
        for start, length in runs:
            pdf.iloc[start : start + length, cols] = np.nan
    return pdf


def part_lengths(spec, pdf, ddf):
    lens = C.piece_lengths(spec, pdf)
    if lens is None:
        try:  # FromPandas knows its row locations
            loc = list(ddf.expr._divisions_and_locations[1])
            lens = [b - a for a, b in zip(loc, loc[1:])]
        except Exception:  # noqa: BLE001
            lens = [len(p) for p in C.partitions(ddf)]
    return lens


def _num(s):
    return pd.api.types.is_numeric_dtype(s.dtype) and not pd.api.types.is_bool_dtype(s.dtype)


def close_eq(got, want, *, what, sig, rtol=1e-9, atol=1e-12, meta=None, check_index=True):
    """Same rows in the same order, same index, same dtypes (C.check_dtypes), values within rtol/atol."""
    sig = dict(sig or {})
    if isinstance(want, pd.Series):
        ensure(isinstance(got, pd.Series), f"{what}: expected Series, got {type(got).__name__}", "type-mismatch", **sig)
        ensure(got.name == want.name, f"{what}: series name {got.name!r} != pandas {want.name!r}", "name-mismatch", **sig)
        got, want = got.to_frame("v"), want.to_frame("v")
        meta = meta.to_frame("v") if isinstance(meta, pd.Series) else None
    ensure(isinstance(got, pd.DataFrame), f"{what}: expected DataFrame, got {type(got).__name__}", "type-mismatch", **sig)
    show = f"\n dask:\n{F._show(got)}\n pandas:\n{F._show(want)}"
    ensure(list(got.columns) == list(want.columns), f"{what}: columns {list(got.columns)} != pandas {list(want.columns)}", "columns-mismatch", **sig)
    ensure(len(got) == len(want), f"{what}: {len(got)} rows, pandas {len(want)}{show}", "row-count", **sig)
    if check_index:
        ensure(got.index.equals(want.index) and got.index.names == want.index.names, f"{what}: index differs{show}", "index-mismatch", **sig)
    for i, c in enumerate(want.columns):
        g, w = got.iloc[:, i], want.iloc[:, i]
        if _num(g) and _num(w):
            gv, wv = g.to_numpy(dtype="float64", na_value=np.nan), w.to_numpy(dtype="float64", na_value=np.nan)
            ok = np.isclose(gv, wv, rtol=rtol, atol=atol, equal_nan=True)
        else:
            go, wo = g.astype(object).to_numpy(), w.astype(object).to_numpy()
            ok = np.array([(F._isna(a) and F._isna(b)) or (not F._isna(a) and not F._isna(b) and a == b) for a, b in zip(go, wo)], dtype=bool)
        if not ok.all():
            r = int(np.argmin(ok))
            raise Violation(f"{what}: column {c!r} differs first at row {r}: dask {g.iloc[r]!r}, pandas {w.iloc[r]!r}{show}", "value-mismatch", **sig)
    # dtypes last, so that a dtype difference never hides a value difference
    C.check_dtypes(got, want, meta if isinstance(meta, pd.DataFrame) else None, what, sig)
