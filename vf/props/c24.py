"""C24 — structural array operations equal NumPy."""
from __future__ import annotations

import itertools
import math

import numpy as np
from hypothesis import strategies as st

from vf import arrays as A
from vf.core import Reject, Sub, Violation, ensure, impl, reference
from vf.props import _arrcommon2 as C

PROPERTY = "C24"
PRELOAD = ["dask.array"]
LEVEL = "exploration"
RULE = (
    "One case = one structural operation with NumPy-valid arguments applied to 1-4 input arrays (dask arrays with explicit, mostly "
    "irregular chunks; some inputs plain NumPy where the op takes several). Two separate low-probability strata, each flagged in the "
    "signature: explicit zero-size chunks (~10 % of the cases of transpose/moveaxis/swapaxes/squeeze/flip/rot90, concatenate/stack/block, "
    "take with list/ndarray indices, shuffle, tile, diff, roll along axes, insert/delete/append along an axis; not explored elsewhere, see "
    "ASSUMPTIONS) and zero-length axes (~10 %). "
    "reshape-enum: ALL chunkings of 12 small shapes x every aligned merge/split target x merge_chunks on/off; ops-enum: ALL chunkings "
    "of (4,), (5,), (3,3), (4,2) x a fixed list of ~45 op/argument combinations (roll, diff, flip, take, repeat, tile, pad modes, "
    "tril/triu, concatenate/stack with a second array, insert/delete, transpose, reshape). Hypothesis sub-checks per family: reshape "
    "(-1, size-1 axes, merge_chunks, limit), reshape_blockwise, axes (transpose/moveaxis/swapaxes/squeeze/expand_dims/flip/rot90/"
    "broadcast_to), combine (concatenate/stack/block/hstack/vstack/dstack, mixed NumPy/dask, mixed dtypes), select (take with list/"
    "ndarray/dask indices, Array.shuffle index groups), grow (repeat/tile/pad with constant/edge/linear_ramp/maximum/minimum/mean/"
    "reflect/symmetric/wrap), shift (tril/triu/diff/roll), edit (insert/delete/append). Oracle: the same call on the NumPy inputs: "
    "equal shape, dtype and values (exact; pad 'mean'/'linear_ramp' of floats within summation-order tolerance, pad 'mean' of integers +-1 in "
    "the corners padded along >= 2 axes where NumPy rounds once per axis); lazy shape/dtype/chunk sums agree with the "
    "computed result. NumPy rejecting the arguments => case rejected. Non-trivial: a dask input has >= 2 blocks of unequal size along "
    "an axis the operation restructures."
)
ASSUMPTIONS = [
    "NumPy 2.x semantics are the reference; arguments are generated NumPy-valid (cases NumPy rejects are discarded)",
    "documented dask restrictions are respected by the generators: reshape only merges/splits aligned dimension groups, repeat takes an "
    "integer count and an explicit axis, insert needs monotonic positions, take/shuffle use 1-d indices, tril/triu need ndim >= 2",
    "explicit zero-size chunks are NOT explored for reshape/ravel/expand_dims/roll(axis=None)/append(axis=None) (all reshape_rechunk, whose "
    "merge/split arithmetic assumes positive chunk sizes: IndexError, 'Missing dependency', 'cannot reshape array of size 0' seen), pad "
    "(five different failures in pad_edge/pad_stats/linear_ramp_chunk), repeat (asserts one chunk per slab), tril/triu (tri() sizes its mask "
    "by the first chunk; where() on zero-size chunks of length-1 axes), broadcast_to (length-1 axis chunked (0, 1)) and take with a dask "
    "indexer: each op met several unrelated root causes confined to this pathological stratum, which were not worth individual entries",
    "roll with a scalar shift and a tuple of axes is not generated: NumPy broadcasts the shift, dask's pinned test_roll requires ValueError "
    "whenever the numbers of shifts and axes differ (a tested restriction, not decidable by this property)",
    "reshape_blockwise is compared with NumPy only where its documented block-wise order coincides with C order (a single block along every "
    "merged axis but the first of each group); otherwise only the documented round trip with chunks=x.chunks is checked",
]
TECHNIQUE = "differential testing against NumPy: exhaustive chunkings of small shapes x fixed op list, plus Hypothesis-generated ops/arguments/chunkings"

MOVE_DTYPES = ("i8", "f8", "i8", "f8", "bool", "c16", "M8[ns]", "i4")
NUM_DTYPES = ("i8", "f8", "i8", "f8", "i4", "f4")


# --------------------------------------------------------------------------
# generic machinery


def build_inputs(case):
    nps, dks = [], []
    for arr, kind in zip(case["arrays"], case["kinds"]):
        x = A.build_np(arr)
        nps.append(x)
        dks.append(A.build_da(arr, x) if kind == "da" else x)
    return nps, dks


def tup(v):
    return tuple(v) if isinstance(v, list) else v


def apply(lib, op, a, xs, is_da):
    """Evaluate operation `op` with arguments `a` on inputs xs using lib (np or da)."""
    x = xs[0]
    if op == "reshape":
        shape = tuple(a["shape"])
        if is_da:
            kw = {"merge_chunks": a.get("merge_chunks", True)}
            if a.get("limit") is not None:
                kw["limit"] = a["limit"]
            if a.get("method"):
                return x.reshape(shape[0] if len(shape) == 1 and a.get("int_arg") else shape, **kw)
            return lib.reshape(x, shape, **kw)
        return np.reshape(x, shape)
    if op == "ravel":
        return lib.ravel(x) if not a.get("method") else x.flatten()
    if op == "transpose":
        axes = tup(a.get("axes"))
        if a.get("method") == "T":
            return x.T
        return lib.transpose(x, axes) if axes is not None else lib.transpose(x)
    if op == "moveaxis":
        return lib.moveaxis(x, tup(a["source"]), tup(a["destination"]))
    if op == "swapaxes":
        return lib.swapaxes(x, a["axis1"], a["axis2"])
    if op == "squeeze":
        ax = tup(a.get("axis"))
        return lib.squeeze(x) if ax is None else lib.squeeze(x, axis=ax)
    if op == "expand_dims":
        return lib.expand_dims(x, tup(a["axis"]))
    if op == "flip":
        ax = tup(a.get("axis"))
        return lib.flip(x, ax) if ax is not None or a.get("explicit_none") else lib.flip(x)
    if op == "flipud":
        return lib.flipud(x)
    if op == "fliplr":
        return lib.fliplr(x)
    if op == "rot90":
        return lib.rot90(x, a["k"], tuple(a["axes"]))
    if op == "broadcast_to":
        return lib.broadcast_to(x, tuple(a["shape"]))
    if op == "concatenate":
        return lib.concatenate(list(xs), axis=a["axis"])
    if op == "stack":
        return lib.stack(list(xs), axis=a["axis"])
    if op in ("hstack", "vstack", "dstack"):
        return getattr(lib, op)(list(xs))
    if op == "block":
        def nest(t):
            if isinstance(t, list):
                return [nest(u) for u in t]
            return xs[t]
        return lib.block(nest(a["layout"]))
    if op == "take":
        idx = a["indices"]
        if a.get("idx_kind") == "ndarray":
            idx = np.asarray(idx, dtype=np.intp)
        elif a.get("idx_kind") == "da":
            idx = np.asarray(idx, dtype=np.intp)
            if is_da:
                import dask.array as da

                idx = da.from_array(idx, chunks=tuple(a["idx_chunks"]))
        return lib.take(x, idx, axis=a["axis"])
    if op == "shuffle":
        flat = [i for g in a["indexer"] for i in g]
        if is_da:
            if a.get("method"):
                return x.shuffle([list(g) for g in a["indexer"]], axis=a["axis"])
            return lib.shuffle(x, [list(g) for g in a["indexer"]], axis=a["axis"])
        return np.take(x, flat, axis=a["axis"])
    if op == "repeat":
        return lib.repeat(x, a["repeats"], axis=a["axis"])
    if op == "tile":
        return lib.tile(x, tup(a["reps"]))
    if op == "pad":
        kw = {}
        for k in ("constant_values", "end_values", "stat_length"):
            if a.get(k) is not None:
                kw[k] = _deep_tuple(a[k])
        return lib.pad(x, _deep_tuple(a["pad_width"]), mode=a["mode"], **kw)
    if op in ("tril", "triu"):
        return getattr(lib, op)(x, a["k"])
    if op == "diff":
        kw = {}
        for k, j in (("prepend", 1), ("append", 2)):
            if a.get(k) == "scalar":
                kw[k] = a[k + "_value"]
            elif a.get(k) == "array":
                kw[k] = xs[a[k + "_input"]]
        return lib.diff(x, n=a["n"], axis=a["axis"], **kw)
    if op == "roll":
        return lib.roll(x, tup(a["shift"]), axis=tup(a.get("axis")))
    if op == "insert":
        obj = a["obj"]
        if isinstance(obj, dict):
            obj = slice(*obj["slice"])
        values = xs[1] if a.get("values") == "array" else a["value"]
        return lib.insert(x, obj, values, axis=a["axis"])
    if op == "delete":
        obj = a["obj"]
        if isinstance(obj, dict):
            obj = slice(*obj["slice"])
        return lib.delete(x, obj, axis=a["axis"])
    if op == "append":
        return lib.append(x, xs[1], axis=a.get("axis"))
    raise ValueError(op)


def _deep_tuple(v):
    if isinstance(v, list):
        return tuple(_deep_tuple(u) for u in v)
    return v


INEXACT = {"pad:mean", "pad:linear_ramp"}


def _is_chunk_offsets(case):
    a, arr = case["args"], case["arrays"][0]
    ch = arr["chunks"][a["axis"] % len(arr["shape"])]
    offsets = [sum(ch[:i]) for i in range(len(ch))]
    return list(a["indices"]) == offsets and all(c == 1 for c in a["idx_chunks"][0])


def sig_of(case):
    op = case["op"]
    a = case["args"]
    das = [arr for arr, k in zip(case["arrays"], case["kinds"]) if k == "da"]
    sig = dict(op=op, zero_chunk=C.zero_chunk(*das), empty=any(0 in arr["shape"] for arr in case["arrays"]))
    # ops that share one implementation path (and therefore one root cause when that path fails)
    via = {"flip": "flip", "flipud": "flip", "fliplr": "flip", "rot90": "flip", "ravel": "reshape"}.get(op)
    if via:
        sig["via"] = via
    # a dask input has an axis of length 1 split into several chunks (zero-size chunks on a length-1 axis): input class of the
    # unify_chunks defect listed as len1-axis-zero-size-chunk
    sig["len1_axis_zero_chunk"] = any(n == 1 and len(c) > 1 for arr in das for n, c in zip(arr["shape"], arr["chunks"]))
    if op == "pad":
        sig["mode"] = a["mode"]
        # pad width larger than what one reflection / one period of the axis provides
        sig["pad_exceeds_axis"] = bool(a.get("exceeds"))
        # integer data: NumPy pads axis by axis and rounds after each axis, corners are rounded twice
        sig["int_mean"] = a["mode"] == "mean" and np.dtype(case["arrays"][0]["dtype"]).kind in "iu"
    if op == "insert":
        adt = np.dtype(case["arrays"][0]["dtype"])
        vdt = np.dtype(case["arrays"][1]["dtype"]) if a.get("values") == "array" else np.asarray(a["value"]).dtype
        # NumPy casts the inserted values to arr.dtype; flag the cases where plain promotion would change the dtype
        sig["value_dtype_differs"] = bool(np.result_type(adt, vdt) != adt)
    if op == "diff":
        sig["bool"] = case["arrays"][0]["dtype"] == "bool"
    if op == "take":
        sig["dask_index"] = a.get("idx_kind") == "da"
        # a dask indexer in single-element chunks whose values are exactly the start offsets of the indexed axis' chunks
        # (e.g. [0] for a one-chunk axis) -- the same data as the helper array slice_with_int_dask_array_on_axis builds
        sig["index_is_chunk_offsets"] = bool(sig["dask_index"]) and _is_chunk_offsets(case)
    if op == "shuffle":
        sig["permutation"] = bool(a.get("permutation", True))
    if op == "reshape":
        sig["merge_chunks"] = bool(a.get("merge_chunks", True))
    return sig


def check(case):
    import dask.array as da

    op = case["op"]
    a = case["args"]
    nps, dks = build_inputs(case)
    if not any(isinstance(d, da.Array) for d in dks):
        raise Reject("no dask input")
    with np.errstate(all="ignore"):
        status, want = reference(apply, np, op, a, nps, False)
    if status == "err":
        raise Reject(f"NumPy rejects the arguments: {want}")
    sig = sig_of(case)
    try:
        with impl(op, **sig), np.errstate(all="ignore"):
            r = apply(da, op, a, dks, True)
            if not isinstance(r, da.Array):
                raise Violation(f"{op}: result is {type(r).__name__}, not a dask array", "not-a-dask-array", **sig)
            got = A.compute(r)
    except Violation as v:
        if op == "reshape" and v.sig.get("symptom") == "raises:NotImplementedError" and not _reshape_must_work(case, nps[0]):
            # documented limitation ("only supports operations that merge or split existing dimensions evenly")
            raise Reject("reshape outside dask's documented domain")
        raise
    what = f"{op}({a}) on chunks {[arr['chunks'] for arr in case['arrays']]} kinds {case['kinds']}"
    key = f"{op}:{a.get('mode')}" if op == "pad" else op
    if sig.get("int_mean") and np.shape(got) == np.shape(want):
        # pad(mode="mean") of integer data: NumPy pads axis by axis and rounds to the integer dtype after every axis, so a corner
        # (padded along >= 2 axes) is the rounded mean of already rounded means; dask rounds the exact mean of the same region once.
        # Neither order is promised anywhere; this is the integer analogue of the summation-order tolerance for floats: corners may
        # differ by one unit, everything else (edges padded along one axis, the interior, shape, dtype) is compared exactly.
        corner = _pad_corner_mask(nps[0].shape, a["pad_width"])
        g = np.asarray(got)
        w = np.asarray(want)
        A.same_array(np.where(corner, w, g).astype(g.dtype), w, what=what, sig=sig)
        diff = np.abs(g.astype("f8") - w.astype("f8"))
        ensure(bool(np.all(diff[corner] <= 1)), f"{what}: corner values differ by more than one rounding step: dask {A.describe(g)} != numpy {A.describe(w)}",
               "value-mismatch", **sig)
    elif key in INEXACT and np.asarray(want).dtype.kind in "fc":
        # mean: summation order; linear_ramp: both sides call np.linspace, but from opposite ends (last-ulp differences)
        rtol, atol = A.sum_tolerance(nps[0])
        A.same_array(got, want, exact=False, rtol=rtol, atol=atol, what=what, sig=sig)
    else:
        A.same_array(got, want, what=what, sig=sig)
    A.check_meta(r, got, what=what, sig=sig)
    C.check_chunks_valid(r, what, sig)


def _pad_corner_mask(shape, pad_width):
    """True where an element of the padded array lies outside the original extent along >= 2 axes."""
    nd = len(shape)
    pw = np.broadcast_to(np.asarray(pad_width), (nd, 2))  # NumPy's own normalisation of pad_width
    count = np.zeros([int(n + l + r) for n, (l, r) in zip(shape, pw)], dtype=int)
    for ax, (n, (l, r)) in enumerate(zip(shape, pw)):
        i = np.arange(n + l + r)
        outside = ((i < l) | (i >= l + n)).astype(int)
        count = count + outside.reshape([-1 if d == ax else 1 for d in range(nd)])
    return count >= 2


def _reshape_must_work(case, x):
    """Generator-tagged aligned merge/split reshapes of non-empty arrays are inside the documented domain."""
    return bool(case["args"].get("aligned")) and x.size > 0


def touched_axes(case):
    op, a = case["op"], case["args"]
    nd = len(case["arrays"][0]["shape"])
    ax = a.get("axis")
    if op in ("concatenate", "take", "shuffle", "repeat", "diff", "insert", "delete", "flip", "roll", "append") and ax is not None:
        axes = ax if isinstance(ax, list) else [ax]
        return [x % nd for x in axes if nd and -nd <= x < nd]
    if op in ("tril", "triu"):
        return [nd - 2, nd - 1]
    if op == "rot90":
        return [x % nd for x in a["axes"]]
    return list(range(nd))


def nontrivial(case):
    axes = touched_axes(case)
    for arr, k in zip(case["arrays"], case["kinds"]):
        if k == "da" and len(arr["shape"]) == len(case["arrays"][0]["shape"]) and C.irregular_on(arr["chunks"], axes):
            return True
    return False


def classes(case):
    yield "op-" + case["op"]
    if case["op"] == "pad":
        yield "pad-" + case["args"]["mode"]
    das = [arr for arr, k in zip(case["arrays"], case["kinds"]) if k == "da"]
    if C.zero_chunk(*das):
        yield "zero-size-chunk"
    if "np" in case["kinds"]:
        yield "numpy-input"
    if any(0 in arr["shape"] for arr in case["arrays"]):
        yield "zero-length-axis"
    yield "dtype-" + case["arrays"][0]["dtype"]


def mk(op, arrays, args, kinds=None):
    return {"op": op, "arrays": arrays, "kinds": kinds or ["da"] * len(arrays), "args": args}


def _no_zero_chunks(arr):
    """The same array spec without explicit zero-size chunks (a zero-length axis keeps its single 0 chunk)."""
    return dict(arr, chunks=[[c for c in ax if c] or [0] for ax in arr["chunks"]])


def axis_st(nd):
    return st.integers(-nd, nd - 1)


@st.composite
def shape_st(draw, nd, hi, empty_p=10, lo=1):
    """nd sides in lo..hi; with probability empty_p % (one decision per case) sides may also be 0."""
    lo_eff = 0 if 40 <= draw(st.integers(0, 99)) < 40 + empty_p else lo
    return [draw(st.integers(lo_eff, hi)) for _ in range(nd)]


# --------------------------------------------------------------------------
# reshape


def aligned_targets(shape, with_ones=True):
    """Targets reachable by merging consecutive dimension groups or splitting one dimension into factors
    (group-aligned: exactly what dask.array.reshape documents as supported)."""
    shape = list(shape)
    n = len(shape)
    out = set()

    def splits(d):
        res = [[d]]
        for f in range(2, d):
            if d % f == 0:
                res.append([f, d // f])
                for g in range(2, d // f):
                    if (d // f) % g == 0:
                        res.append([f, g, d // f // g])
        return res

    # partitions of the axes into consecutive groups
    for cuts in itertools.product([0, 1], repeat=max(n - 1, 0)):
        groups, cur = [], [shape[0]] if n else []
        for i, c in enumerate(cuts):
            if c:
                groups.append(cur)
                cur = [shape[i + 1]]
            else:
                cur.append(shape[i + 1])
        if n:
            groups.append(cur)
        opts = []
        for g in groups:
            if len(g) == 1:
                opts.append(splits(g[0]) if g[0] > 1 else [[g[0]]])
            else:
                opts.append([[math.prod(g)]])
        for combo in itertools.product(*opts):
            out.add(tuple(x for part in combo for x in part))
    out.discard(tuple(shape))
    res = sorted(out)
    if with_ones:
        extra = []
        for t in res[:3] + [tuple(shape)]:
            extra.append((1,) + t)
            extra.append(t + (1,))
            if len(t) >= 1:
                extra.append(t[:1] + (1,) + t[1:])
        res += [e for e in extra if e != tuple(shape)]
    return res


RESHAPE_ENUM_SHAPES_QUICK = [[4], [6], [2, 2], [2, 3], [3, 2], [4, 2], [2, 4], [1, 4], [3, 1, 2], [2, 2, 2], [2, 3, 2], [6, 1]]
RESHAPE_ENUM_SHAPES_THOROUGH = RESHAPE_ENUM_SHAPES_QUICK + [[8], [3, 4], [4, 3], [2, 2, 3], [2, 2, 2, 2], [5, 2], [2, 6]]


def enum_reshape(tier):
    shapes = RESHAPE_ENUM_SHAPES_QUICK if tier == "quick" else RESHAPE_ENUM_SHAPES_THOROUGH
    i = 0
    for shape in shapes:
        targets = aligned_targets(shape)
        for ch in A.all_chunkings(shape):
            for t in targets:
                for mc in (True, False):
                    i += 1
                    arr = {"shape": shape, "dtype": "i8", "seed": i % 89, "fill": "arange", "chunks": ch}
                    yield mk("reshape", [arr], {"shape": list(t), "merge_chunks": mc, "aligned": True})


@st.composite
def reshape_case(draw):
    nd = draw(st.sampled_from([1, 2, 2, 3, 3, 4]))
    sides = [1, 2, 2, 3, 4, 4, 6, 8] if nd <= 2 else [1, 2, 2, 3, 4]
    if draw(st.integers(0, 11)) == 0:
        sides = sides + [0]
    shape = [draw(st.sampled_from(sides)) for _ in range(nd)]
    # explicit zero-size chunks are NOT explored for reshape/ravel: reshape_rechunk's merge/split arithmetic is written for positive
    # chunk sizes and fails in several unrelated ways on them (see ASSUMPTIONS); zero-LENGTH axes (a ~8 % stratum) are kept
    arr = draw(C.arr(shape=shape, dtypes=MOVE_DTYPES, fills=("arange", "small"), zero_p=0.0))
    size = math.prod(shape)
    kind = draw(st.sampled_from(["aligned", "aligned", "aligned", "flat", "free"]))
    aligned = False
    if kind == "aligned" and size > 0:
        ts = aligned_targets(shape)
        if not ts:
            ts = [tuple(shape) + (1,)]
        t = list(draw(st.sampled_from(ts)))
        aligned = True
    elif kind == "flat" or size == 0:
        t = [size] if draw(st.booleans()) or size == 0 else [-1]
        aligned = size > 0
    else:
        # any factorisation of the size (dask may legitimately refuse: then rejected)
        t, rest = [], size
        for _ in range(draw(st.integers(1, 3))):
            divs = [d for d in range(1, rest + 1) if rest % d == 0]
            f = draw(st.sampled_from(divs))
            t.append(f)
            rest //= f
        t.append(rest)
    args = {"shape": t, "merge_chunks": draw(st.booleans()), "aligned": aligned}
    if -1 not in t and len(t) >= 1 and size > 0 and draw(st.integers(0, 3)) == 0:
        j = draw(st.integers(0, len(t) - 1))
        if t[j] != 0:
            t[j] = -1
    if draw(st.integers(0, 4)) == 0:
        args["limit"] = draw(st.sampled_from([8, 32, 128, 1024]))
    if draw(st.integers(0, 2)) == 0:
        args["method"] = True
        args["int_arg"] = draw(st.booleans())
    if draw(st.integers(0, 7)) == 0 and kind == "flat":
        return mk("ravel", [arr], {"method": draw(st.booleans())})
    return mk("reshape", [arr], args)


# reshape_blockwise ---------------------------------------------------------


def check_reshape_blockwise(case):
    import dask.array as da

    arr = case["arrays"][0]
    a = case["args"]
    x = A.build_np(arr)
    d = A.build_da(arr, x)
    shape = tuple(a["shape"])
    sig = dict(
        op="reshape_blockwise",
        zero_chunk=A.has_zero_chunk(arr["chunks"]),
        # leading length-1 input axes left over when the output's last axis has length 1
        lead_one_last_out_one=arr["shape"][0] == 1 and shape[-1] == 1,
    )
    with impl("reshape_blockwise", **sig):
        r = da.reshape_blockwise(d, shape if not a.get("int_arg") else shape[0])
        got = A.compute(r)
    what = f"reshape_blockwise({arr['shape']} chunks {arr['chunks']} -> {shape})"
    ensure(got.shape == x.reshape(shape).shape, f"{what}: shape {got.shape}", "shape-mismatch", **sig)
    ensure(got.dtype == x.dtype, f"{what}: dtype {got.dtype}", "dtype-mismatch", **sig)
    A.check_meta(r, got, what=what, sig=sig)
    C.check_chunks_valid(r, what, sig)
    # same multiset of values (documented: same elements, different order)
    ensure(np.array_equal(np.sort(got, axis=None), np.sort(x, axis=None)), f"{what}: elements changed", "value-mismatch", **sig)
    if a["c_order"]:
        # one block along every merged axis except the first of its group: block-wise order is C order
        A.same_array(got, x.reshape(shape), what=what + " (C-order case)", sig=sig)
    # documented round trip: "Chaining the reshape operation together like this reverts the previous reshaping"
    with impl("reshape_blockwise-roundtrip", **sig):
        back = da.reshape_blockwise(r, tuple(arr["shape"]), chunks=d.chunks)
        gb = A.compute(back)
    ensure(back.chunks == d.chunks, f"{what}: round trip chunks {back.chunks} != {d.chunks}", "roundtrip-chunks", **sig)
    A.same_array(gb, x, what=what + " round trip", sig=sig)


@st.composite
def reshape_blockwise_case(draw):
    nd = draw(st.sampled_from([2, 2, 3, 3, 4]))
    shape = [draw(st.sampled_from([1, 2, 2, 3, 4])) for _ in range(nd)]
    # consecutive groups, each merged into one output dimension (dimension-reducing only: expanding needs chunk hints)
    cuts = [draw(st.booleans()) for _ in range(nd - 1)]
    if all(cuts):
        cuts[draw(st.integers(0, nd - 2))] = False
    groups, cur = [], [0]
    for i, c in enumerate(cuts):
        if c:
            groups.append(cur)
            cur = [i + 1]
        else:
            cur.append(i + 1)
    groups.append(cur)
    target = [math.prod(shape[i] for i in g) for g in groups]
    # explicit zero-size chunks excluded: the block grid <-> shape relation of the documented round trip is not defined for them
    arr = draw(C.arr(shape=shape, dtypes=("i8", "f8"), fills=("arange",), zero_p=0.0))
    c_order = draw(st.booleans())
    if c_order:
        for g in groups:
            for i in g[1:]:
                arr["chunks"][i] = [shape[i]]
    else:
        c_order = all(len(arr["chunks"][i]) == 1 for g in groups for i in g[1:])
    return mk("reshape_blockwise", [arr], {"shape": target, "c_order": c_order, "int_arg": len(target) == 1 and draw(st.booleans())})


# --------------------------------------------------------------------------
# axes family


@st.composite
def axes_case(draw):
    op = draw(st.sampled_from(["transpose", "transpose", "moveaxis", "swapaxes", "squeeze", "expand_dims", "flip", "flipud", "fliplr", "rot90", "broadcast_to"]))
    min_nd = {"swapaxes": 1, "moveaxis": 1, "flipud": 1, "fliplr": 2, "rot90": 2}.get(op, 0)
    nd = draw(st.integers(min_nd, 4))
    shape = draw(shape_st(nd, 5 if op in ("squeeze", "broadcast_to") else 6))
    if op in ("squeeze", "broadcast_to"):
        shape = [1 if draw(st.integers(0, 3)) == 0 else s for s in shape]
    # explicit zero-size chunks not explored for broadcast_to (a length-1 axis chunked (0, 1) is re-declared as one chunk) and for
    # expand_dims (implemented with reshape, see reshape_case)
    arr = draw(C.arr(shape=shape, dtypes=MOVE_DTYPES, zero_p=0.0 if op in ("broadcast_to", "expand_dims") else 0.1))
    if op == "transpose":
        mode = draw(st.sampled_from(["perm", "perm", "none", "T"]))
        if mode == "perm":
            perm = draw(st.permutations(list(range(nd))))
            perm = [p - nd if draw(st.integers(0, 3)) == 0 else p for p in perm]
            return mk(op, [arr], {"axes": list(perm)})
        return mk(op, [arr], {"axes": None, "method": "T" if mode == "T" else None})
    if op == "moveaxis":
        k = draw(st.integers(1, nd))
        src = draw(st.permutations(list(range(nd))))[:k]
        dst = draw(st.permutations(list(range(nd))))[:k]
        src = [s - nd if draw(st.integers(0, 3)) == 0 else s for s in src]
        dst = [s - nd if draw(st.integers(0, 3)) == 0 else s for s in dst]
        if k == 1 and draw(st.booleans()):
            return mk(op, [arr], {"source": src[0], "destination": dst[0]})
        return mk(op, [arr], {"source": list(src), "destination": list(dst)})
    if op == "swapaxes":
        return mk(op, [arr], {"axis1": draw(axis_st(nd)), "axis2": draw(axis_st(nd))})
    if op == "squeeze":
        ones = [i for i, s in enumerate(shape) if s == 1]
        mode = draw(st.sampled_from(["none", "int", "tuple"]))
        if mode == "none" or not ones:
            return mk(op, [arr], {"axis": None})
        if mode == "int":
            i = draw(st.sampled_from(ones))
            return mk(op, [arr], {"axis": i - nd if draw(st.booleans()) else i})
        sub = draw(st.lists(st.sampled_from(ones), min_size=1, unique=True))
        return mk(op, [arr], {"axis": list(sub)})
    if op == "expand_dims":
        k = draw(st.integers(1, 2))
        out_nd = nd + k
        axes = draw(st.lists(st.integers(0, out_nd - 1), min_size=k, max_size=k, unique=True))
        axes = [x - out_nd if draw(st.integers(0, 3)) == 0 else x for x in axes]
        if k == 1 and draw(st.booleans()):
            return mk(op, [arr], {"axis": axes[0]})
        return mk(op, [arr], {"axis": list(axes)})
    if op == "flip":
        mode = draw(st.sampled_from(["none", "int", "tuple"]))
        if mode == "none" or nd == 0:
            return mk(op, [arr], {"axis": None, "explicit_none": draw(st.booleans())})
        if mode == "int":
            return mk(op, [arr], {"axis": draw(axis_st(nd))})
        sub = draw(st.lists(st.integers(0, nd - 1), min_size=1, unique=True))
        return mk(op, [arr], {"axis": [s - nd if draw(st.integers(0, 3)) == 0 else s for s in sub]})
    if op in ("flipud", "fliplr"):
        return mk(op, [arr], {})
    if op == "rot90":
        a1, a2 = draw(st.permutations(list(range(nd))))[:2]
        if draw(st.integers(0, 3)) == 0:
            a1 -= nd
        return mk(op, [arr], {"k": draw(st.integers(-5, 6)), "axes": [a1, a2]})
    # broadcast_to
    extra = [draw(st.sampled_from([0, 1, 2, 3])) for _ in range(draw(st.integers(0, 2)))]
    target = extra + [draw(st.sampled_from([2, 3, 4])) if s == 1 and draw(st.booleans()) else s for s in shape]
    return mk(op, [arr], {"shape": target})


# --------------------------------------------------------------------------
# combine family


@st.composite
def combine_case(draw):
    op = draw(st.sampled_from(["concatenate", "concatenate", "stack", "stack", "hstack", "vstack", "dstack", "block", "block"]))
    n = draw(st.integers(1, 4))
    dts = draw(st.sampled_from([("i8",), ("f8",), ("i8", "f8"), ("i4", "i8"), ("bool", "i8"), ("c16", "f8"), ("M8[ns]",)]))

    def one(shape, force_da=False):
        arr = draw(C.arr(shape=shape, dtypes=dts))
        kind = "da" if force_da else draw(st.sampled_from(["da", "da", "da", "np"]))
        return arr, kind

    if op == "concatenate":
        nd = draw(st.integers(1, 3))
        base = draw(shape_st(nd, 5))
        ax = draw(st.integers(0, nd - 1))
        lo = 0 if 0 in base or draw(st.integers(0, 9)) == 0 else 1
        pairs = []
        for i in range(n):
            shp = list(base)
            shp[ax] = draw(st.integers(lo, 5))
            pairs.append(one(shp, force_da=i == 0))
        axis = ax - nd if draw(st.integers(0, 2)) == 0 else ax
        return mk(op, [p[0] for p in pairs], {"axis": axis}, [p[1] for p in pairs])
    if op == "stack":
        nd = draw(st.integers(0, 3))
        base = draw(shape_st(nd, 5))
        pairs = [one(base, force_da=i == 0) for i in range(n)]
        axis = draw(st.integers(-(nd + 1), nd))
        return mk(op, [p[0] for p in pairs], {"axis": axis}, [p[1] for p in pairs])
    if op in ("hstack", "vstack", "dstack"):
        nd = draw(st.integers(1, 3))
        base = [draw(st.integers(1, 4)) for _ in range(nd)]
        # the axis along which sizes may differ
        if op == "hstack":
            ax = 0 if nd == 1 else 1
        elif op == "vstack":
            ax = None if nd == 1 else 0
        else:
            ax = None if nd <= 2 else 2
        pairs = []
        for i in range(n):
            shp = list(base)
            if ax is not None:
                shp[ax] = draw(st.integers(0 if draw(st.integers(0, 9)) == 0 else 1, 4))
            pairs.append(one(shp, force_da=i == 0))
        return mk(op, [p[0] for p in pairs], {}, [p[1] for p in pairs])
    # block: a rows x cols grid of 2-d blocks (or a flat list of 1-d blocks)
    if draw(st.integers(0, 3)) == 0:
        pairs = [one([draw(st.integers(0 if draw(st.integers(0, 9)) == 0 else 1, 4))], force_da=i == 0) for i in range(n)]
        return mk(op, [p[0] for p in pairs], {"layout": list(range(n))}, [p[1] for p in pairs])
    rows = draw(st.integers(1, 3))
    cols = draw(st.integers(1, 3))
    lo = 0 if draw(st.integers(0, 9)) == 0 else 1
    hs = [draw(st.integers(lo, 4)) for _ in range(rows)]
    ws = [draw(st.integers(lo, 4)) for _ in range(cols)]
    lead = [draw(st.integers(1, 2))] if draw(st.integers(0, 4)) == 0 else []
    pairs, layout = [], []
    for i in range(rows):
        row = []
        for j in range(cols):
            row.append(len(pairs))
            pairs.append(one(lead + [hs[i], ws[j]], force_da=not pairs))
        layout.append(row)
    return mk(op, [p[0] for p in pairs], {"layout": layout}, [p[1] for p in pairs])


# --------------------------------------------------------------------------
# select family: take / shuffle


@st.composite
def select_case(draw):
    op = draw(st.sampled_from(["take", "take", "shuffle"]))
    nd = draw(st.integers(1, 3))
    shape = [draw(st.integers(1, 7)) for _ in range(nd)]
    ax = draw(st.integers(0, nd - 1))
    n = shape[ax]
    arr = draw(C.arr(shape=shape, dtypes=MOVE_DTYPES, fills=("arange", "small")))
    if op == "take":
        kind = draw(st.sampled_from(["list", "ndarray", "da", "int"]))
        axis = ax - nd if draw(st.integers(0, 2)) == 0 else ax
        if kind == "int":
            return mk(op, [arr], {"indices": draw(st.integers(-n, n - 1)), "axis": axis})
        style = draw(st.sampled_from(["any", "sorted", "perm", "empty"]))
        if style == "perm":
            idx = list(draw(st.permutations(list(range(n)))))
        elif style == "empty":
            idx = []
        else:
            idx = draw(st.lists(st.integers(-n if kind != "da" else 0, n - 1), min_size=1, max_size=2 * n + 1))
            if style == "sorted":
                idx = sorted(i % n for i in idx)
        args = {"indices": idx, "axis": axis, "idx_kind": kind}
        if kind == "da":
            args["idx_chunks"] = [draw(C.axis_chunks(len(idx)))]
            # dask-array indexers are not explored on arrays with explicit zero-size chunks (separate, doubly pathological stratum)
            arr = _no_zero_chunks(arr)
        return mk(op, [arr], args)
    # shuffle: groups of positions (non-empty groups; a permutation of the axis in most cases)
    mode = draw(st.sampled_from(["perm", "perm", "perm", "subset", "dups"]))
    if mode == "perm":
        flat = list(draw(st.permutations(list(range(n)))))
    elif mode == "subset":
        flat = list(draw(st.permutations(list(range(n)))))[: draw(st.integers(1, n))]
    else:
        flat = draw(st.lists(st.integers(0, n - 1), min_size=1, max_size=2 * n))
    groups, i = [], 0
    while i < len(flat):
        k = draw(st.integers(1, max(1, len(flat) - i)))
        groups.append(flat[i : i + k])
        i += k
    return mk(op, [arr], {"indexer": groups, "axis": ax, "permutation": mode == "perm", "method": draw(st.booleans())})


# --------------------------------------------------------------------------
# grow family: repeat / tile / pad

PAD_MODES = ["constant", "edge", "linear_ramp", "maximum", "minimum", "mean", "reflect", "symmetric", "wrap"]


@st.composite
def pad_args(draw, shape, mode=None):
    nd = len(shape)
    mode = mode or draw(st.sampled_from(PAD_MODES))
    exceeds = False

    def width(i, allow_exceed):
        n = shape[i]
        cap = {"reflect": n - 1, "symmetric": n, "wrap": n}.get(mode)
        if cap is None:
            return draw(st.integers(0, 4))
        if allow_exceed:
            return draw(st.integers(cap + 1, cap + 3))
        return draw(st.integers(0, max(cap, 0)))

    want_exceed = mode in ("reflect", "symmetric", "wrap") and draw(st.integers(0, 7)) == 0
    form = draw(st.sampled_from(["per-axis", "per-axis", "pair", "int"]))
    if form == "int":
        caps = [{"reflect": n - 1, "symmetric": n, "wrap": n}.get(mode, 4) for n in shape]
        w = draw(st.integers(0, max(0, min(caps + [4]))))
        pw = w
    elif form == "pair":
        caps = [{"reflect": n - 1, "symmetric": n, "wrap": n}.get(mode, 4) for n in shape]
        c = max(0, min(caps + [4]))
        pw = [draw(st.integers(0, c)), draw(st.integers(0, c))]
    else:
        pw = []
        for i in range(nd):
            l = width(i, False)
            r = width(i, False)
            pw.append([l, r])
        if want_exceed and nd:
            i = draw(st.integers(0, nd - 1))
            pw[i][draw(st.integers(0, 1))] = width(i, True)
            exceeds = True
    args = {"pad_width": pw, "mode": mode, "exceeds": exceeds}
    if mode == "constant" and draw(st.booleans()):
        args["constant_values"] = draw(st.sampled_from([3, -1, [1, 2], [[1, 2]] * nd if nd else 3]))
    if mode == "linear_ramp" and draw(st.booleans()):
        args["end_values"] = draw(st.sampled_from([4, -2, [1, 5], [[0, 6]] * nd if nd else 4]))
    if mode in ("maximum", "minimum", "mean") and draw(st.booleans()):
        m = max(1, min(shape)) if shape else 1
        args["stat_length"] = draw(st.sampled_from([1, m, [1, m], [[1, m]] * nd if nd else 1]))
    return args


@st.composite
def grow_case(draw):
    op = draw(st.sampled_from(["repeat", "tile", "pad", "pad", "pad"]))
    if op == "repeat":
        nd = draw(st.integers(1, 3))
        shape = draw(shape_st(nd, 6))
        # explicit zero-size chunks not explored for repeat (it asserts one chunk per slab) nor for pad (see ASSUMPTIONS)
        arr = draw(C.arr(shape=shape, dtypes=MOVE_DTYPES, zero_p=0.0))
        return mk(op, [arr], {"repeats": draw(st.integers(0, 4)), "axis": draw(axis_st(nd))})
    if op == "tile":
        nd = draw(st.integers(0, 3))
        shape = draw(shape_st(nd, 4))
        arr = draw(C.arr(shape=shape, dtypes=MOVE_DTYPES))
        k = draw(st.integers(1, 3))
        reps = [draw(st.sampled_from([0, 1, 1, 2, 2, 3])) for _ in range(k)]
        return mk(op, [arr], {"reps": reps[0] if k == 1 and draw(st.booleans()) else reps})
    nd = draw(st.integers(1, 3))
    shape = [draw(st.integers(1, 6)) for _ in range(nd)]
    mode = draw(st.sampled_from(PAD_MODES))
    dts = NUM_DTYPES if mode in ("linear_ramp", "mean", "maximum", "minimum") else MOVE_DTYPES[:6]
    arr = draw(C.arr(shape=shape, dtypes=dts, fills=("small", "arange", "normal"), zero_p=0.0))
    args = draw(pad_args(shape, mode))
    return mk(op, [arr], args)


# --------------------------------------------------------------------------
# shift family: tril / triu / diff / roll


@st.composite
def shift_case(draw):
    op = draw(st.sampled_from(["tril", "triu", "diff", "diff", "roll", "roll"]))
    if op in ("tril", "triu"):
        nd = draw(st.integers(2, 3))
        shape = draw(shape_st(nd, 6))
        # explicit zero-size chunks not explored for tril/triu: tri() sizes its mask by the FIRST chunk (ZeroDivisionError when that is 0)
        # and where() on the mask then meets zero-size chunks on length-1 axes (several unrelated failures)
        arr = draw(C.arr(shape=shape, dtypes=NUM_DTYPES + ("bool", "c16"), zero_p=0.0))
        return mk(op, [arr], {"k": draw(st.integers(-6, 6))})
    nd = draw(st.integers(1, 3))
    shape = draw(shape_st(nd, 7))
    if op == "diff":
        dts = NUM_DTYPES + ("c16", "M8[ns]") + (("bool",) if draw(st.integers(0, 1)) == 0 else ())
        arr = draw(C.arr(shape=shape, dtypes=dts))
        ax = draw(axis_st(nd))
        args = {"n": draw(st.sampled_from([0, 1, 1, 1, 2, 3])), "axis": ax}
        arrays, kinds = [arr], ["da"]
        if arr["dtype"] not in ("M8[ns]",):
            for key in ("prepend", "append"):
                mode = draw(st.sampled_from([None, None, "scalar", "array"]))
                if mode == "scalar":
                    args[key] = "scalar"
                    args[key + "_value"] = draw(st.integers(0, 5)) if arr["dtype"] != "bool" else True
                elif mode == "array":
                    shp = list(shape)
                    shp[ax] = draw(st.integers(0, 3))
                    extra = draw(C.arr(shape=shp, dtypes=(arr["dtype"],)))
                    args[key] = "array"
                    args[key + "_input"] = len(arrays)
                    arrays.append(extra)
                    kinds.append(draw(st.sampled_from(["da", "np"])))
        return mk(op, arrays, args, kinds)
    # roll
    arr = draw(C.arr(shape=shape, dtypes=MOVE_DTYPES))
    mode = draw(st.sampled_from(["flat", "int", "int", "tuple", "tuple"]))
    big = st.integers(-15, 15)
    if mode == "flat":
        # axis=None goes through ravel/reshape: explicit zero-size chunks not explored there (see reshape_case)
        return mk(op, [_no_zero_chunks(arr)], {"shift": draw(big), "axis": None})
    if mode == "int":
        return mk(op, [arr], {"shift": draw(big), "axis": draw(axis_st(nd))})
    k = draw(st.integers(1, 3))
    axes = [draw(axis_st(nd)) for _ in range(k)]
    # NOT generated: a scalar shift with a tuple of axes.  NumPy broadcasts it ("the same value is used for all given axes"), dask
    # deliberately refuses: the pinned test_routines.py::test_roll requires ValueError whenever the numbers of shifts and axes
    # differ, so this spelling is outside dask's (tested) domain of roll, not a defect the property could decide.
    return mk(op, [arr], {"shift": [draw(big) for _ in range(k)], "axis": axes})


# --------------------------------------------------------------------------
# edit family: insert / delete / append


@st.composite
def edit_case(draw):
    op = draw(st.sampled_from(["insert", "insert", "delete", "delete", "append"]))
    nd = draw(st.integers(1, 3))
    shape = [draw(st.integers(1, 6)) for _ in range(nd)]
    arr = draw(C.arr(shape=shape, dtypes=NUM_DTYPES))
    ax = draw(st.integers(0, nd - 1))
    axis = ax - nd if draw(st.integers(0, 2)) == 0 else ax
    n = shape[ax]
    if op == "append":
        if draw(st.integers(0, 3)) == 0:
            other = draw(C.arr(min_dims=1, max_dims=2, max_side=4, dtypes=(arr["dtype"], "f8")))
            # axis=None ravels both inputs: explicit zero-size chunks not explored there (see reshape_case)
            return mk(op, [_no_zero_chunks(arr), _no_zero_chunks(other)], {"axis": None}, ["da", draw(st.sampled_from(["da", "np"]))])
        shp = list(shape)
        shp[ax] = draw(st.integers(0, 4))
        other = draw(C.arr(shape=shp, dtypes=(arr["dtype"], "f8")))
        return mk(op, [arr, other], {"axis": axis}, ["da", draw(st.sampled_from(["da", "np"]))])
    kind = draw(st.sampled_from(["int", "list", "list", "slice"]))
    if op == "delete":
        if kind == "int":
            obj = draw(st.integers(-n, n - 1))
        elif kind == "list":
            obj = draw(st.lists(st.integers(-n, n - 1), max_size=n + 1))
        else:
            obj = {"slice": [draw(st.sampled_from([None, 0, 1, -2, n])), draw(st.sampled_from([None, 0, 2, -1, n])), draw(st.sampled_from([None, 1, 2, -1, -2]))]}
        return mk(op, [arr], {"obj": obj, "axis": axis})
    # insert: positions monotonic non-decreasing after normalisation (documented dask restriction)
    if kind == "int":
        obj = draw(st.integers(-n, n))
        count = None
    elif kind == "list":
        obj = sorted(draw(st.lists(st.integers(0, n), min_size=1, max_size=4)))
        count = len(obj)
    else:
        sl = [draw(st.sampled_from([None, 0, 1])), draw(st.sampled_from([None, 2, n])), draw(st.sampled_from([None, 1, 2]))]
        obj = {"slice": sl}
        count = len(range(*slice(*sl).indices(n)))
    if draw(st.booleans()) or count == 0:
        return mk(op, [arr], {"obj": obj, "value": draw(st.sampled_from([7, -3, 2.5])), "axis": axis})
    shp = list(shape)
    if count is None:
        del shp[ax]  # scalar position: values fill one slab
    else:
        shp[ax] = count
    vals = draw(C.arr(shape=shp, dtypes=(arr["dtype"],)))
    return mk(op, [arr, vals], {"obj": obj, "values": "array", "axis": axis}, ["da", "da"])


# --------------------------------------------------------------------------
# exhaustive ops over all chunkings of small shapes


def enum_pad_stat(tier):
    """pad with a statistic over `stat_length` edge elements: lengths 1, 2, the whole axis and BEYOND the axis (NumPy then
    uses the whole axis), per side, for every chunking."""
    shapes = [[5], [3, 4]] if tier == "quick" else [[5], [2], [3, 4], [4, 3]]
    i = 0
    for shape in shapes:
        nd = len(shape)
        n0 = shape[0]
        for ch in A.all_chunkings(shape):
            for mode in ("maximum", "minimum", "mean"):
                for sl in (1, 2, n0, n0 + 2, [n0 + 2, 1], [1, n0 + 2], [[n0 + 3, n0 + 1]] + [[1, 9]] * (nd - 1)):
                    for pw in ([[2, 2]] + [[0, 1]] * (nd - 1), [[0, 3]] + [[1, 0]] * (nd - 1)):
                        i += 1
                        arr = {"shape": shape, "dtype": "i8" if i % 2 else "f8", "seed": i % 83, "fill": "small", "chunks": ch}
                        yield mk("pad", [arr], {"pad_width": pw, "mode": mode, "stat_length": sl})


def enum_ops(tier):
    shapes = [[4], [5], [3, 3], [4, 2]] if tier == "quick" else [[4], [5], [6], [3, 3], [4, 2], [4, 3], [2, 2, 2]]
    i = 0
    for shape in shapes:
        nd = len(shape)
        n0 = shape[0]
        ops = []
        for s in range(-n0, n0 + 1):
            ops.append(("roll", {"shift": s, "axis": 0}))
        ops.append(("roll", {"shift": 1, "axis": None}))
        ops += [("diff", {"n": 1, "axis": 0}), ("diff", {"n": 2, "axis": -1}), ("flip", {"axis": 0}), ("flip", {"axis": None})]
        ops += [("take", {"indices": [n0 - 1, 0, 0, 1], "axis": 0, "idx_kind": "list"}), ("take", {"indices": list(range(n0))[::-1], "axis": 0, "idx_kind": "ndarray"})]
        ops += [("repeat", {"repeats": 2, "axis": 0}), ("repeat", {"repeats": 3, "axis": -1}), ("tile", {"reps": 2}), ("tile", {"reps": [2] * nd})]
        for mode in ("constant", "edge", "reflect", "symmetric", "wrap", "maximum", "linear_ramp"):
            ops.append(("pad", {"pad_width": [[1, 2]] + [[0, 1]] * (nd - 1), "mode": mode}))
        ops.append(("pad", {"pad_width": 1, "mode": "mean"}))
        ops += [("delete", {"obj": [1, n0 - 1], "axis": 0}), ("delete", {"obj": {"slice": [None, None, 2]}, "axis": 0})]
        ops += [("insert", {"obj": [0, 2, 2], "value": 9, "axis": 0}), ("insert", {"obj": n0, "value": 9, "axis": 0})]
        ops += [("shuffle", {"indexer": [[n0 - 1, 1], [0], list(range(2, n0 - 1))], "axis": 0, "permutation": True})]
        if nd == 2:
            ops += [("transpose", {"axes": None}), ("transpose", {"axes": [1, 0]}), ("tril", {"k": 0}), ("triu", {"k": 1}), ("tril", {"k": -1})]
            ops += [("rot90", {"k": 1, "axes": [0, 1]}), ("rot90", {"k": 3, "axes": [1, 0]}), ("roll", {"shift": [1, -1], "axis": [0, 1]})]
            ops += [("expand_dims", {"axis": 1}), ("swapaxes", {"axis1": 0, "axis2": 1})]
        for ch in A.all_chunkings(shape):
            for op, args in ops:
                i += 1
                arr = {"shape": shape, "dtype": "i8" if i % 3 else "f8", "seed": i % 83, "fill": "arange" if i % 2 else "small", "chunks": ch}
                if op == "shuffle":
                    args = dict(args, indexer=[g for g in args["indexer"] if g])
                yield mk(op, [arr], dict(args))
            # two-array ops: the second array takes every chunking as well for the smallest shapes
            others = A.all_chunkings(shape) if math.prod(shape) <= 6 or nd == 1 and shape[0] <= 4 else [ch[::-1] if nd == 2 and shape[0] == shape[1] else ch]
            for ch2 in others:
                i += 1
                a1 = {"shape": shape, "dtype": "i8", "seed": 1, "fill": "arange", "chunks": ch}
                a2 = {"shape": shape, "dtype": "f8" if i % 2 else "i8", "seed": 2, "fill": "small", "chunks": ch2}
                yield mk("concatenate", [a1, a2], {"axis": 0})
                yield mk("stack", [a1, a2], {"axis": -1})
                if nd == 2:
                    yield mk("concatenate", [a1, a2], {"axis": 1})
                    yield mk("block", [a1, a2, a2, a1], {"layout": [[0, 1], [2, 3]]})


SUBCHECKS = [
    Sub("reshape-enum", check, kind="enum", cases=enum_reshape, nontrivial=nontrivial, classes=classes, exhaustive=True,
        doc="reshape: all chunkings of small shapes x all aligned merge/split targets (plus size-1 axes) x merge_chunks on/off"),
    Sub("ops-enum", check, kind="enum", cases=enum_ops, nontrivial=nontrivial, classes=classes, exhaustive=True,
        doc="fixed list of ~45 op/argument combinations over all chunkings of (4,), (5,), (3,3), (4,2); two-array ops over chunking pairs"),
    Sub("pad-stat-length", check, kind="enum", cases=enum_pad_stat, nontrivial=nontrivial, classes=classes, exhaustive=True,
        doc="pad(mode=maximum|minimum|mean, stat_length=1, 2, axis length, beyond the axis, per side) x pad widths x all chunkings == NumPy"),
    Sub("reshape", check, strategy=lambda tier: reshape_case(), n={"quick": 1200, "thorough": 40000}, nontrivial=nontrivial, classes=classes,
        doc="random reshape targets incl. -1, size-1 axes, merge_chunks, limit, method/int spellings, ravel/flatten"),
    Sub("reshape-blockwise", check_reshape_blockwise, strategy=lambda tier: reshape_blockwise_case(), n={"quick": 500, "thorough": 10000},
        nontrivial=lambda c: A.irregular(c["arrays"][0]["chunks"]), classes=classes, doc="reshape_blockwise: C-order cases vs NumPy, documented round trip"),
    Sub("axes", check, strategy=lambda tier: axes_case(), n={"quick": 1200, "thorough": 40000}, nontrivial=nontrivial, classes=classes,
        doc="transpose/moveaxis/swapaxes/squeeze/expand_dims/flip/rot90/broadcast_to"),
    Sub("combine", check, strategy=lambda tier: combine_case(), n={"quick": 1200, "thorough": 40000}, nontrivial=nontrivial, classes=classes,
        doc="concatenate/stack/block/hstack/vstack/dstack of mixed NumPy/dask inputs"),
    Sub("select", check, strategy=lambda tier: select_case(), n={"quick": 1200, "thorough": 30000}, nontrivial=nontrivial, classes=classes,
        doc="take (list/ndarray/dask/int indices) and Array.shuffle index groups"),
    Sub("grow", check, strategy=lambda tier: grow_case(), n={"quick": 1200, "thorough": 40000}, nontrivial=nontrivial, classes=classes,
        doc="repeat / tile / pad (9 modes shared with NumPy)"),
    Sub("shift", check, strategy=lambda tier: shift_case(), n={"quick": 1200, "thorough": 40000}, nontrivial=nontrivial, classes=classes,
        doc="tril / triu / diff (prepend/append) / roll"),
    Sub("edit", check, strategy=lambda tier: edit_case(), n={"quick": 1000, "thorough": 30000}, nontrivial=nontrivial, classes=classes,
        doc="insert / delete / append"),
]
