"""C25 — lazy array metadata matches the computed data."""
from __future__ import annotations

import itertools
import math
import operator

import numpy as np
from hypothesis import strategies as st

from vf import arrays as A
from vf.core import Reject, Sub, Violation, count, ensure, impl
from vf.props import _arrcommon2 as C
from vf.props.c24 import aligned_targets

PROPERTY = "C25"
PRELOAD = ["dask.array"]
LEVEL = "exploration"
RULE = (
    "A case is a typed pipeline of 2-6 array operations (hyp) or 1-2 operations (enum, over ALL chunkings of (5,), (4,3), (2,3,2)) applied to "
    "a random input array with explicit, mostly irregular chunks (other inputs joined by binary ops / concatenate get their own chunkings). "
    "Operations: elementwise (unary, scalar, astype, where, binary with re-chunked / broadcast operands), basic and list indexing, "
    "reductions and cumsum (axis, keepdims, split_every), reshape, transpose, concatenate/stack, rechunk, flip/roll/repeat/pad/take/diff/"
    "tril/squeeze/expand_dims/broadcast_to, map_blocks (one array; and a NumPy-broadcasting binary function over two block-compatible arrays, "
    "either of which may be the length-1 broadcast one on an axis, no chunks= given), map_overlap, coarsen, isin, and as data-dependent steps boolean-mask indexing and "
    "unique. The generator replays each step on NumPy to keep every step valid. Oracle, applied to EVERY prefix of the pipeline: computed "
    "shape/dtype equal lazy .shape/.dtype; chunks are ints adding up to the shape; every block computed on its own via x.blocks[idx] and "
    "via x.to_delayed()[idx] has shape tuple(chunks[d][idx[d]]) and the lazy dtype; blocks placed by index reassemble x.compute(); "
    "unknown (NaN) chunk sizes appear only after a step documented to produce them (mask indexing, unique) and the same clauses hold "
    "after compute_chunk_sizes(). Non-trivial: the pipeline has a step that changes the chunk structure (indexing, reshape, concatenate/"
    "stack, keepdims reduction, rechunk, binary op with a differently chunked operand, ...) after an irregular (unequal block sizes) chunking."
)
ASSUMPTIONS = [
    "values are not compared with NumPy here (that is C19-C24/C26/C27); only self-consistency of lazy metadata, blocks and the full result",
    "the first step at which a clause fails is reported (signature = that step's operation)",
    "0-d results have exactly one block with index ()",
    "two low-probability strata get a reduced menu of steps (elementwise, basic indexing, transpose/flip, concatenate/stack with itself, "
    "map_blocks, sum/any/mean): pipelines whose first input has explicit zero-size chunks (~6 %) and zero-length intermediate results; the "
    "other operations' own failures on such arrays are explored and listed per operation under C19-C24/C26/C27 and are not re-explored here; "
    "further inputs and rechunk targets carry no explicit zero-size chunks. Zero-size chunks that ordinary steps leave behind (strided "
    "slices) do flow through the full menu and are flagged in the signature (zero_chunk_in, len1_axis_zero_chunk)",
    "an integer and a list in one index are not mixed (integers become length-1 slices then): NumPy moves the advanced dimension first when "
    "they are not adjacent, dask does not (listed under C20), and the generator tracks shapes with NumPy",
    "a violation that concerns only the value obtained through the .blocks route is reported after the remaining steps have been verified "
    "with the to_delayed value, so that it does not end the pipeline at the first 0-d intermediate result",
]
TECHNIQUE = "Hypothesis-generated typed operation pipelines plus exhaustive chunkings of small shapes; metamorphic check of per-block results against declared chunks and the full result"

UNKNOWN_OPS = {"mask", "unique"}
STRUCTURAL = {"ew_out", "getitem", "reshape", "concat", "stack", "reduce", "rechunk", "binop", "repeat", "pad", "take", "diff", "coarsen", "mask", "roll", "broadcast", "expand", "squeeze", "map_overlap", "unique", "cum", "map_blocks_bin"}


# --------------------------------------------------------------------------
# one step, on NumPy (shape/dtype tracking in the generator) or dask


def decode_index(index):
    out = []
    for e in index:
        if isinstance(e, dict) and "slice" in e:
            out.append(slice(*e["slice"]))
        elif isinstance(e, dict) and "list" in e:
            out.append(list(e["list"]))
        elif e == "newaxis":
            out.append(None)
        elif e == "...":
            out.append(Ellipsis)
        else:
            out.append(e)
    return tuple(out)


def _double(b):
    return b * 2


def mbb_operands(x, y):
    """The dask operands of a map_blocks_bin step, made block-compatible (map_blocks aligns blocks by position, it does not align
    chunks): axes are matched from the right; where y is as long as x it takes x's chunks, where y has length 1 it is one block
    (broadcast to every block of x), where x has length 1 and y is longer x is one block and y keeps its OWN chunking.  Both are
    value-preserving rechunks.  Returns (x', y')."""
    off = x.ndim - y.ndim
    tgt, xfix = [], {}
    for j, n in enumerate(y.shape):
        d = off + j
        if n == x.shape[d]:
            tgt.append(x.chunks[d])
        elif n == 1:
            tgt.append((1,))
        else:  # x.shape[d] == 1 < n
            tgt.append(y.chunks[j])
            if len(x.chunks[d]) > 1:
                xfix[d] = -1
    if xfix:
        x = x.rechunk(xfix)
    if tuple(tgt) != y.chunks:
        y = y.rechunk(tuple(tgt))
    return x, y


def mbb_bcast_first_tie(a, b):
    """map_blocks(f, a, b): some axis (matched from the right) where both operands have ONE block, the first has length 1 and the
    other is longer -- the numbers of blocks tie, so the chunk inference has to look at the lengths to see which one is broadcast."""
    for ca, cb in zip(a.chunks[::-1], b.chunks[::-1]):
        if len(ca) == 1 and len(cb) == 1 and ca[0] == 1 and cb[0] > 1:
            return True
    return False


def _np_coarsen(x, axis, k):
    n = x.shape[axis] // k * k
    sl = [slice(None)] * x.ndim
    sl[axis] = slice(0, n)
    x = x[tuple(sl)]
    shp = list(x.shape)
    shp[axis : axis + 1] = [n // k, k]
    return x.reshape(shp).sum(axis=axis + 1)


EW = {
    "neg": lambda lib, x: -x,
    "abs": lambda lib, x: abs(x),
    "add1": lambda lib, x: x + 1,
    "mul2.5": lambda lib, x: x * 2.5,
    "gt0": lambda lib, x: x > 0,
    "astype_f4": lambda lib, x: x.astype("f4"),
    "astype_i8": lambda lib, x: x.astype("i8"),
    "where": lambda lib, x: lib.where(x > 1, x, 0),
    "square": lambda lib, x: lib.square(x),
    "isin": lambda lib, x: lib.isin(x, [0, 1, 2, 5]),
}
BIN = {"add": lambda a, b: a + b, "mul": lambda a, b: a * b, "lt": lambda a, b: a < b, "maximum": None}


def step(lib, x, s, inputs, is_da):
    op = s["op"]
    if op == "ew":
        return EW[s["f"]](lib, x)
    if op == "binop":
        y = inputs[s["input"]]
        if s["f"] == "maximum":
            return lib.maximum(x, y)
        return BIN[s["f"]](x, y) if not s.get("swap") else BIN[s["f"]](y, x)
    if op == "getitem":
        return x[decode_index(s["index"])]
    if op == "reduce":
        ax = s["axis"]
        ax = tuple(ax) if isinstance(ax, list) else ax
        kw = {"axis": ax, "keepdims": s["keepdims"]}
        if is_da and s.get("split_every"):
            kw["split_every"] = s["split_every"]
        return getattr(x, s["f"])(**kw)
    if op == "cum":
        return lib.cumsum(x, axis=s["axis"])
    if op == "reshape":
        return x.reshape(tuple(s["shape"]))
    if op == "transpose":
        return x.transpose(tuple(s["axes"]))
    if op == "concat":
        y = x if s["input"] == "self" else inputs[s["input"]]
        seq = [x, y] if s.get("side", "right") == "right" else [y, x]
        return lib.concatenate(seq, axis=s["axis"])
    if op == "stack":
        y = x if s["input"] == "self" else inputs[s["input"]]
        return lib.stack([x, y], axis=s["axis"])
    if op == "rechunk":
        return x.rechunk(C.tt(s["chunks"])) if is_da else x
    if op == "ew_out":
        # ufunc writing into out=: a pre-existing dask array with its own chunking becomes the result
        if not is_da:
            return np.add(x, x)
        z = lib.zeros(x.shape, dtype=x.dtype, chunks=C.tt(s["chunks"]))
        r = lib.add(x, x, out=z)
        return z if r is None else r
    if op == "mask":
        return x[x > s["k"]]
    if op == "unique":
        return lib.unique(x)
    if op == "flip":
        return lib.flip(x, s["axis"])
    if op == "roll":
        return lib.roll(x, s["shift"], axis=s["axis"])
    if op == "repeat":
        return lib.repeat(x, s["repeats"], axis=s["axis"])
    if op == "pad":
        return lib.pad(x, tuple(tuple(w) for w in s["width"]), mode=s["mode"])
    if op == "squeeze":
        return lib.squeeze(x)
    if op == "expand":
        return lib.expand_dims(x, s["axis"])
    if op == "broadcast":
        return lib.broadcast_to(x, tuple(s["lead"]) + tuple(x.shape))
    if op == "take":
        return lib.take(x, s["indices"], axis=s["axis"])
    if op == "diff":
        return lib.diff(x, axis=s["axis"])
    if op == "tril":
        return lib.tril(x, s["k"])
    if op == "map_blocks":
        return x.map_blocks(_double, dtype=x.dtype) if is_da else x * 2
    if op == "map_blocks_bin":
        # a NumPy-broadcasting binary function mapped over the blocks of TWO arrays (no chunks=: the block structure is inferred)
        y = inputs[s["input"]]
        if not is_da:
            return y + x if s.get("swap") else x + y
        x, y = mbb_operands(x, y)
        return lib.map_blocks(operator.add, y, x) if s.get("swap") else lib.map_blocks(operator.add, x, y)
    if op == "map_overlap":
        if is_da:
            return x.map_overlap(_double, depth=s["depth"], boundary=s["boundary"], dtype=x.dtype)
        return x * 2
    if op == "coarsen":
        if is_da:
            return lib.coarsen(np.sum, x, {s["axis"]: s["k"]}, trim_excess=True)
        return _np_coarsen(x, s["axis"], s["k"])
    raise ValueError(op)


# --------------------------------------------------------------------------
# oracle


def block_indices(numblocks, limit, seed):
    idxs = list(itertools.product(*[range(n) for n in numblocks]))
    if len(idxs) > limit:
        rng = np.random.default_rng(seed)
        pick = sorted(rng.choice(len(idxs), size=limit, replace=False).tolist())
        return [idxs[i] for i in pick], False
    return idxs, True


def verify(r, what, sig, seed=0, allow_unknown=False, max_blocks=24, deferred=None):
    """All clauses of C25 for one lazy array r.  A violation that concerns only the value obtained through the .blocks route is
    appended to ``deferred`` (when given) instead of being raised, and the remaining clauses go on with the to_delayed value, so
    that one defect of that route (listed: blocks-of-0d-array) does not end the pipeline at its first 0-d intermediate result;
    check() raises the first deferred violation once all steps have been verified."""
    import dask.array as da

    ensure(isinstance(r, da.Array), f"{what}: result is {type(r).__name__}", "not-a-dask-array", **sig)
    sig = dict(sig, ndim0=r.ndim == 0)
    unknown = not C.known_chunks(r.chunks)
    if unknown:
        ensure(allow_unknown, f"{what}: unknown chunk sizes {r.chunks} without a step documented to produce them", "unexpected-nan-chunks", **sig)
        with impl("compute_chunk_sizes", **sig):
            r = r.copy()
            r.compute_chunk_sizes()
        ensure(C.known_chunks(r.chunks), f"{what}: chunks still unknown after compute_chunk_sizes(): {r.chunks}", "nan-after-compute_chunk_sizes", **sig)
        count("unknown_chunks_resolved")
    with impl("compute", **sig):
        full = np.asarray(A.compute(r))
    for ax, ch in enumerate(r.chunks):
        ensure(all(isinstance(c, int) and c >= 0 for c in ch), f"{what}: chunk sizes {r.chunks} are not non-negative ints", "non-int-chunk", **sig)
    ensure(tuple(map(sum, r.chunks)) == tuple(r.shape), f"{what}: chunks {r.chunks} do not add up to shape {r.shape}", "chunks-sum-mismatch", **sig)
    ensure(tuple(r.shape) == full.shape, f"{what}: lazy shape {r.shape} != computed {full.shape} (chunks {r.chunks})", "lazy-shape-mismatch", **sig)
    ensure(r.dtype == full.dtype, f"{what}: lazy dtype {r.dtype} != computed {full.dtype}", "lazy-dtype-mismatch", **sig)
    ensure(tuple(len(c) for c in r.chunks) == tuple(r.numblocks), f"{what}: numblocks {r.numblocks} vs chunks {r.chunks}", "numblocks-mismatch", **sig)
    idxs, complete = block_indices(r.numblocks, max_blocks, seed)
    with impl("to_delayed", **sig):
        grid = r.to_delayed()
    ensure(tuple(grid.shape) == tuple(r.numblocks), f"{what}: to_delayed() grid shape {grid.shape} != numblocks {r.numblocks}", "delayed-grid-shape", **sig)
    blocks = {}
    # .blocks route: every block computed by its own compute() call (own culled graph);
    # to_delayed route: the Delayed objects of the grid, one object per block
    import dask

    dsig = dict(sig, route="to_delayed")
    with impl("blocks via to_delayed", **dsig):
        delayed_values = dask.compute(*[grid[idx] for idx in idxs], scheduler="sync")
    for idx, b2 in zip(idxs, delayed_values):
        want = tuple(r.chunks[d][i] for d, i in enumerate(idx))
        bsig = dict(sig, route="blocks")
        with impl(f"block {idx} via blocks", **bsig):
            b1 = A.compute(r.blocks[idx])
        for route, b, rsig in (("to_delayed", b2, dsig), ("blocks", b1, bsig)):
            try:
                ensure(hasattr(b, "shape") and hasattr(b, "dtype"), f"{what}: block {idx} via {route} computed to {type(b).__name__} {b!r:.80}", "block-not-an-array", **rsig)
                ensure(tuple(b.shape) == want, f"{what}: block {idx} via {route} has shape {tuple(b.shape)}, chunks {r.chunks} declare {want}", "block-shape-mismatch", **rsig)
                ensure(b.dtype == r.dtype, f"{what}: block {idx} via {route} has dtype {b.dtype}, lazy dtype {r.dtype}", "block-dtype-mismatch", **rsig)
            except Violation as v:
                if route != "blocks" or deferred is None:
                    raise
                deferred.append(v)
                b1 = None
        blocks[idx] = np.asarray(b2 if b1 is None else b1)
        if b1 is not None:
            ensure(_eq(np.asarray(b2), blocks[idx]), f"{what}: block {idx} differs between .blocks and to_delayed()", "block-routes-differ", **dsig)
    sl = C.block_slices(r.chunks)
    for idx in idxs:
        ensure(_eq(full[sl[idx]], blocks[idx]), f"{what}: block {idx} {blocks[idx]!r:.120} is not the corresponding part {full[sl[idx]]!r:.120} of the full result (chunks {r.chunks})", "blocks-do-not-reassemble", **sig)
    if complete:
        ensure(_eq(C.assemble(r.chunks, blocks, full.dtype), full), f"{what}: blocks placed by index do not reassemble the full result", "blocks-do-not-reassemble", **sig)
    count("blocks_checked", len(idxs))


def _eq(a, b):
    if a.shape != b.shape:
        return False
    if a.dtype.kind in "fcmM" or b.dtype.kind in "fcmM":
        return bool(np.array_equal(a, b, equal_nan=True))
    return bool(np.array_equal(a, b))


def check(case):
    import dask.array as da

    inputs_np = [A.build_np(a) for a in case["inputs"]]
    inputs_da = [A.build_da(a, x) for a, x in zip(case["inputs"], inputs_np)]
    zc = C.zero_chunk(*case["inputs"]) or any(s["op"] == "rechunk" and A.has_zero_chunk(s["chunks"]) for s in case["steps"])
    empty = any(0 in a["shape"] for a in case["inputs"])
    r = inputs_da[0]
    sig0 = dict(op="from_array", zero_chunk=zc, empty=empty)
    verify(r, "input", sig0, seed=case["inputs"][0].get("seed", 0))
    allow_unknown = False
    deferred = []
    done = []
    for k, s in enumerate(case["steps"]):
        # a zero-length axis in an input or in the array this step is applied to / produces
        empty = empty or any(n == 0 for n in r.shape)
        sig = dict(op=s["op"] + (":" + s["f"] if s["op"] in ("ew", "reduce") else ""), zero_chunk=zc, empty=empty)
        if s["op"] == "getitem":
            # an integer-list index together with np.newaxis in one __getitem__ (indexing defect that belongs to C20)
            sig["list_and_newaxis"] = "newaxis" in s["index"] and any(isinstance(e, dict) and "list" in e for e in s["index"])
        # an operand of this step has an axis of length 1 that is split into several chunks (i.e. carries zero-size chunks; strided
        # slicing such as x[:-1:2] leaves them behind): the input class of the unify_chunks defect listed as len1-axis-zero-size-chunk
        operands = [r] + ([inputs_da[s["input"]]] if isinstance(s.get("input"), int) else [])
        sig["len1_axis_zero_chunk"] = any(n == 1 and len(c) > 1 for o in operands for n, c in zip(o.shape, o.chunks))
        # an operand has a zero-size chunk on an axis with several chunks, whether given explicitly or left behind by a strided slice
        sig["zero_chunk_in"] = any(C.known_chunks(o.chunks) and A.has_zero_chunk(o.chunks) for o in operands)
        if s["op"] == "map_blocks_bin":
            # the first argument is the length-1 (broadcast) one on an axis where both arguments have a single block
            with impl(f"step {k} {s} (operands)", **sig):
                pair = mbb_operands(r, inputs_da[s["input"]])
            sig["bcast_first_tie"] = mbb_bcast_first_tie(*(pair[::-1] if s.get("swap") else pair))
        done.append(s["op"])
        with impl(f"step {k} {s}", **sig), np.errstate(all="ignore"):
            r = step(da, r, s, inputs_da, True)
        if any(n == 0 for n in r.shape):
            sig["empty"] = empty = True
        if s["op"] in UNKNOWN_OPS:
            allow_unknown = True
        what = f"after steps {case['steps'][: k + 1]} on chunks {[a['chunks'] for a in case['inputs']]}"
        last = k == len(case["steps"]) - 1
        with np.errstate(all="ignore"):
            # every prefix gets all clauses; intermediate results on a sample of 6 blocks, the final one on (up to 24) all blocks
            verify(r, what, sig, seed=k, allow_unknown=allow_unknown, max_blocks=24 if last else 6, deferred=deferred)
    if deferred:
        raise deferred[0]


def nontrivial(case):
    if not A.irregular(case["inputs"][0]["chunks"]) and not any(s["op"] == "rechunk" and A.irregular(s["chunks"]) for s in case["steps"]):
        return False
    return any(s["op"] in STRUCTURAL for s in case["steps"])


def classes(case):
    yield f"steps-{len(case['steps'])}"
    for s in case["steps"]:
        yield "op-" + s["op"]
    if C.zero_chunk(*case["inputs"]):
        yield "zero-size-chunk"
    if any(s["op"] in UNKNOWN_OPS for s in case["steps"]):
        yield "unknown-chunks"
    if any(0 in a["shape"] for a in case["inputs"]):
        yield "zero-length-axis"


# --------------------------------------------------------------------------
# typed pipeline generator


@st.composite
def draw_step(draw, x, inputs, unknown, zc=False):
    """x: current NumPy value.  Returns a step valid for x (may append to inputs).  zc: an input carries explicit zero-size chunks."""
    nd = x.ndim
    numeric = x.dtype.kind in "iuf"
    if unknown:
        # after a data-dependent step the shape is unknown to dask: only shape-agnostic steps follow
        kind = draw(st.sampled_from(["ew", "ew", "reduce_all", "map_blocks"]))
        if kind == "ew":
            return {"op": "ew", "f": draw(st.sampled_from(["neg", "add1", "mul2.5", "gt0"] if x.dtype.kind != "b" else ["gt0", "astype_i8"]))}
        if kind == "map_blocks" and x.dtype.kind != "b":
            return {"op": "map_blocks"}
        return {"op": "reduce", "f": draw(st.sampled_from(["sum", "max"] if x.size else ["sum"])), "axis": None, "keepdims": False}
    if zc or x.size == 0:
        return draw(draw_plain_step(x, inputs, zc))
    menu = ["ew", "ew", "ew_out", "binop", "getitem", "getitem", "reduce", "reduce", "rechunk", "transpose", "concat", "stack", "map_blocks", "flip", "expand", "broadcast", "map_blocks_bin"]
    if nd >= 1:
        menu += ["reshape", "reshape", "take", "roll", "repeat", "pad", "cum", "coarsen"]
    if numeric and nd >= 1 and x.size:
        menu += ["diff", "mask", "unique"]
    if numeric and nd >= 2 and x.size:
        menu += ["tril"]
    if nd >= 1 and all(s >= 1 for s in x.shape) and x.dtype.kind != "b":
        menu += ["map_overlap"]
    if 1 in x.shape and x.size:
        menu += ["squeeze"]
    op = draw(st.sampled_from(menu))
    if op == "ew":
        fs = ["neg", "abs", "add1", "mul2.5", "gt0", "astype_f4", "astype_i8", "where", "square", "isin"]
        if x.dtype.kind == "b":
            fs = ["gt0", "astype_i8", "astype_f4", "where"]
        return {"op": "ew", "f": draw(st.sampled_from(fs))}
    if op == "binop":
        mode = draw(st.sampled_from(["same", "same", "trailing", "ones"]))
        if mode == "same" or nd == 0:
            shp = list(x.shape)
        elif mode == "trailing":
            shp = list(x.shape[draw(st.integers(1, nd)) :])
        else:
            shp = [1 if draw(st.booleans()) else s for s in x.shape]
        inputs.append(draw(C.arr(shape=shp, dtypes=("i8", "f8"), zero_p=0.0)))
        return {"op": "binop", "f": draw(st.sampled_from(["add", "mul", "lt", "maximum"])), "input": len(inputs) - 1, "swap": draw(st.booleans())}
    if op == "getitem":
        index = []
        fancy_used = False
        for n in x.shape:
            k = draw(st.sampled_from(["slice", "slice", "slice", "full", "int", "list", "newaxis+slice"]))
            if k == "int" and n > 0:
                index.append(draw(st.integers(-n, n - 1)))
            elif k == "list" and n > 0 and not fancy_used:
                fancy_used = True
                index.append({"list": draw(st.lists(st.integers(-n, n - 1), min_size=1, max_size=n + 2))})
            elif k == "full":
                index.append({"slice": [None, None, None]})
            else:
                if k == "newaxis+slice":
                    index.append("newaxis")
                # (bounds within [-n, n]: a negative step with start < -n is the separately listed C20 slicing defect)
                a = draw(st.one_of(st.none(), st.integers(-n, n)))
                b = draw(st.one_of(st.none(), st.integers(-n, n)))
                c = draw(st.sampled_from([None, 1, 2, 3, -1, -2]))
                index.append({"slice": [a, b, c]})
        if fancy_used:
            # An integer and a list in one index are both "advanced" for NumPy, which then moves the indexed dimension first when
            # they are not adjacent; dask keeps it in place (listed under C20: advanced-dim-not-moved-first).  The generator tracks
            # shapes with NumPy, so the two must not diverge here: integers become length-1 slices when a list is present.
            index = [{"slice": [e, e + 1 if e != -1 else None, None]} if isinstance(e, int) else e for e in index]
        if draw(st.integers(0, 3)) == 0 and len(index) > 1:
            cut = draw(st.integers(0, len(index) - 1))
            index = index[:cut] + ["..."]
        return {"op": "getitem", "index": index}
    if op == "reduce":
        f = draw(st.sampled_from(["sum", "max", "mean", "min", "any", "prod", "argmax_skip"]))
        if f == "argmax_skip":
            f = "sum"
        mode = draw(st.sampled_from(["none", "int", "int", "tuple"]))
        if mode == "none" or nd == 0:
            ax = None
        elif mode == "int":
            ax = draw(st.integers(-nd, nd - 1))
        else:
            ax = draw(st.lists(st.integers(0, nd - 1), min_size=1, unique=True))
        red = x.shape if ax is None else [x.shape[a] for a in (ax if isinstance(ax, list) else [ax])]
        if f in ("max", "min") and any(s == 0 for s in red):
            f = "sum"  # NumPy: zero-size reduction without identity
        if f == "prod":
            f = "prod" if x.dtype.kind == "f" else "sum"
        return {"op": "reduce", "f": f, "axis": ax, "keepdims": draw(st.booleans()), "split_every": draw(st.sampled_from([None, None, 2, 3]))}
    if op == "cum":
        return {"op": "cum", "axis": draw(st.integers(-nd, nd - 1))}
    if op == "reshape":
        if x.size == 0:
            return {"op": "ew", "f": "gt0"}
        ts = aligned_targets(list(x.shape))
        if not ts:
            return {"op": "expand", "axis": 0}
        return {"op": "reshape", "shape": list(draw(st.sampled_from(ts)))}
    if op == "transpose":
        return {"op": "transpose", "axes": list(draw(st.permutations(list(range(nd)))))}
    if op in ("concat", "stack"):
        other = draw(st.sampled_from(["self", "input"]))
        if op == "concat":
            if nd == 0:
                return {"op": "stack", "input": "self", "axis": 0}
            ax = draw(st.integers(0, nd - 1))
            shp = list(x.shape)
            shp[ax] = draw(st.integers(1, 4))
        else:
            ax = draw(st.integers(-(nd + 1), nd))
            shp = list(x.shape)
        if other == "input":
            inputs.append(draw(C.arr(shape=shp, dtypes=("i8", "f8"), zero_p=0.0)))
            other = len(inputs) - 1
        s = {"op": op, "input": other, "axis": ax}
        if op == "concat":
            s["side"] = draw(st.sampled_from(["left", "right"]))
        return s
    if op == "rechunk":
        return {"op": "rechunk", "chunks": draw(C.shape_chunks(list(x.shape), zero_p=0.0))}
    if op == "ew_out":
        return {"op": "ew_out", "chunks": draw(C.shape_chunks(list(x.shape), zero_p=0.0))}
    if op == "mask":
        return {"op": "mask", "k": draw(st.integers(-3, 3))}
    if op == "unique":
        return {"op": "unique"}
    if op == "flip":
        return {"op": "flip", "axis": draw(st.integers(-nd, nd - 1)) if nd and draw(st.booleans()) else None}
    if op == "roll":
        return {"op": "roll", "shift": draw(st.integers(-7, 7)), "axis": draw(st.integers(-nd, nd - 1))}
    if op == "repeat":
        return {"op": "repeat", "repeats": draw(st.integers(1, 3)), "axis": draw(st.integers(0, nd - 1))}
    if op == "pad":
        return {"op": "pad", "width": [[draw(st.integers(0, 2)), draw(st.integers(0, 2))] for _ in range(nd)], "mode": draw(st.sampled_from(["constant", "edge"])) if x.size else "constant"}
    if op == "squeeze":
        return {"op": "squeeze"}
    if op == "expand":
        return {"op": "expand", "axis": draw(st.integers(0, nd))}
    if op == "broadcast":
        return {"op": "broadcast", "lead": [draw(st.integers(1, 3)) for _ in range(draw(st.integers(1, 2)))]}
    if op == "take":
        ax = draw(st.integers(0, nd - 1))
        n = x.shape[ax]
        if n == 0:
            return {"op": "flip", "axis": None}
        return {"op": "take", "indices": draw(st.lists(st.integers(-n, n - 1), min_size=1, max_size=n + 2)), "axis": ax}
    if op == "diff":
        return {"op": "diff", "axis": draw(st.integers(-nd, nd - 1))}
    if op == "tril":
        return {"op": "tril", "k": draw(st.integers(-2, 2))}
    if op == "map_blocks":
        if x.dtype.kind == "b":
            return {"op": "ew", "f": "astype_i8"}
        return {"op": "map_blocks"}
    if op == "map_blocks_bin":
        # second operand: the trailing 1..nd axes of x, each as long as x's or of length 1 (broadcast); where x itself has length 1
        # the operand may be LONGER (then x is the broadcast one) and carries its own chunking there
        k = draw(st.integers(1, nd)) if nd else 0
        shp = []
        for n in x.shape[nd - k :]:
            if n == 1:
                shp.append(draw(st.sampled_from([1, 2, 3, 4])))
            else:
                shp.append(n if draw(st.integers(0, 2)) else 1)
        inputs.append(draw(C.arr(shape=shp, dtypes=("i8", "f8"), zero_p=0.0)))
        return {"op": "map_blocks_bin", "input": len(inputs) - 1, "swap": draw(st.booleans())}
    if op == "map_overlap":
        return {"op": "map_overlap", "depth": 1, "boundary": draw(st.sampled_from(["reflect", "none", "periodic", "nearest", 0]))}
    if op == "coarsen":
        ax = draw(st.integers(0, nd - 1))
        if x.shape[ax] < 2 or x.dtype.kind == "b":
            return {"op": "ew", "f": "astype_i8"}
        return {"op": "coarsen", "axis": ax, "k": draw(st.integers(2, max(2, min(3, x.shape[ax]))))}
    raise ValueError(op)


@st.composite
def draw_plain_step(draw, x, inputs, zc):
    """Steps for the two pathological strata: pipelines whose FIRST input has explicit zero-size chunks, and zero-length
    intermediate results (e.g. after an empty slice).  Almost every other operation has its own failures on such arrays, which are
    explored and listed per operation under C19-C24/C26/C27 (reshape/ravel/pad/repeat/tril/take/rechunk planning/min/max/cumsum/
    coarsen/unique/mask ... on zero-size chunks or multi-block empty arrays); a pipeline would only re-find them at its first such
    step.  C25 keeps the strata for the metadata clauses of the operations that do handle them: elementwise, basic indexing,
    transpose/flip, concatenate/stack with itself, map_blocks, sum/any/mean reductions."""
    nd = x.ndim
    menu = ["ew", "ew", "getitem", "getitem", "transpose", "flip", "concat", "stack", "map_blocks", "reduce"]
    op = draw(st.sampled_from(menu))
    if op == "ew":
        fs = ["neg", "abs", "add1", "mul2.5", "gt0", "astype_f4", "astype_i8", "square"]
        if x.dtype.kind == "b":
            fs = ["gt0", "astype_i8", "astype_f4"]
        return {"op": "ew", "f": draw(st.sampled_from(fs))}
    if op == "getitem":
        index = []
        for n in x.shape:
            k = draw(st.sampled_from(["slice", "slice", "full", "int"]))
            if k == "int" and n > 0:
                index.append(draw(st.integers(-n, n - 1)))
            elif k == "full":
                index.append({"slice": [None, None, None]})
            else:
                index.append({"slice": [draw(st.one_of(st.none(), st.integers(-n, n))), draw(st.one_of(st.none(), st.integers(-n, n))), draw(st.sampled_from([None, 1, 2, -1]))]})
        return {"op": "getitem", "index": index}
    if op == "transpose":
        return {"op": "transpose", "axes": list(draw(st.permutations(list(range(nd)))))}
    if op == "flip":
        return {"op": "flip", "axis": draw(st.integers(-nd, nd - 1)) if nd and draw(st.booleans()) else None}
    if op == "concat" and nd >= 1:
        return {"op": "concat", "input": "self", "axis": draw(st.integers(0, nd - 1)), "side": "right"}
    if op in ("concat", "stack"):
        return {"op": "stack", "input": "self", "axis": draw(st.integers(-(nd + 1), nd))}
    if op == "map_blocks" and x.dtype.kind != "b":
        return {"op": "map_blocks"}
    f = draw(st.sampled_from(["sum", "any", "mean"]))
    mode = draw(st.sampled_from(["none", "int", "int", "tuple"]))
    if mode == "none" or nd == 0:
        ax = None
    elif mode == "int":
        ax = draw(st.integers(-nd, nd - 1))
    else:
        ax = draw(st.lists(st.integers(0, nd - 1), min_size=1, unique=True))
    return {"op": "reduce", "f": f, "axis": ax, "keepdims": draw(st.booleans()), "split_every": draw(st.sampled_from([None, None, 2, 3]))}


@st.composite
def pipeline(draw):
    nd = draw(st.sampled_from([1, 1, 2, 2, 2, 3]))
    top = {1: 9, 2: 6, 3: 4}[nd]
    lo = 0 if draw(st.integers(0, 19)) == 7 else 1
    shape = [draw(st.integers(lo, top)) for _ in range(nd)]
    first = draw(C.arr(shape=shape, dtypes=("i8", "f8", "i8", "f8", "i4", "bool"), fills=("small", "dups", "arange"), zero_p=0.06, max_parts=4))
    inputs = [first]
    x = A.build_np(first)
    steps = []
    unknown = False
    nsteps = draw(st.integers(2, 6))
    for _ in range(nsteps):
        if x.size > 400 or x.ndim > 4:
            # keep arrays tiny: force a reduction
            s = {"op": "reduce", "f": "sum", "axis": 0, "keepdims": False, "split_every": None}
        else:
            s = draw(draw_step(x, inputs, unknown, zc=A.has_zero_chunk(first["chunks"])))
        nps = [A.build_np(a) for a in inputs]
        try:
            with np.errstate(all="ignore"):
                x = np.asarray(step(np, x, s, nps, False))
        except Exception:  # noqa: BLE001 - NumPy rejects the step: end the pipeline here
            break
        steps.append(s)
        if s["op"] in UNKNOWN_OPS:
            unknown = True
    if len(steps) < 1:
        steps = [{"op": "ew", "f": "gt0"}]
    return {"inputs": inputs, "steps": steps}


# --------------------------------------------------------------------------
# exhaustive: all chunkings x fixed short pipelines


def enum_cases(tier):
    shapes = [[5], [4, 3], [2, 3, 2]] if tier == "quick" else [[5], [6], [4, 3], [3, 4], [2, 3, 2]]
    for shape in shapes:
        nd = len(shape)
        pipes = [
            [{"op": "getitem", "index": [{"slice": [1, None, None]}]}],
            [{"op": "getitem", "index": [{"slice": [None, None, 2]}]}],
            [{"op": "getitem", "index": [{"slice": [None, None, -1]}]}, {"op": "ew", "f": "add1"}],
            [{"op": "getitem", "index": [{"list": [shape[0] - 1, 0, 1, 1]}]}],
            [{"op": "reduce", "f": "sum", "axis": 0, "keepdims": True, "split_every": 2}],
            [{"op": "reduce", "f": "max", "axis": None, "keepdims": False, "split_every": None}],
            [{"op": "reduce", "f": "mean", "axis": -1, "keepdims": False, "split_every": None}, {"op": "ew", "f": "mul2.5"}],
            [{"op": "cum", "axis": 0}],
            [{"op": "concat", "input": "self", "axis": 0, "side": "right"}, {"op": "getitem", "index": [{"slice": [1, -1, None]}]}],
            [{"op": "stack", "input": "self", "axis": -1}],
            [{"op": "reshape", "shape": [math.prod(shape)]}, {"op": "getitem", "index": [{"slice": [2, None, None]}]}],
            [{"op": "transpose", "axes": list(range(nd))[::-1]}, {"op": "reduce", "f": "sum", "axis": 0, "keepdims": False, "split_every": None}],
            [{"op": "mask", "k": 0}],
            [{"op": "mask", "k": 1}, {"op": "ew", "f": "neg"}],
            [{"op": "unique"}],
            [{"op": "roll", "shift": 2, "axis": 0}],
            [{"op": "repeat", "repeats": 2, "axis": 0}],
            [{"op": "pad", "width": [[1, 2]] * nd, "mode": "edge"}],
            [{"op": "diff", "axis": 0}],
            [{"op": "take", "indices": [0, shape[0] - 1, 0], "axis": 0}],
            [{"op": "map_overlap", "depth": 1, "boundary": "reflect"}],
            [{"op": "map_overlap", "depth": 1, "boundary": "none"}],
            [{"op": "coarsen", "axis": 0, "k": 2}],
            [{"op": "flip", "axis": None}, {"op": "getitem", "index": [{"slice": [None, -1, None]}]}],
            [{"op": "expand", "axis": 1}, {"op": "broadcast", "lead": [2]}],
        ]
        if nd >= 2:
            pipes += [
                [{"op": "getitem", "index": [1, {"slice": [None, None, None]}]}],
                [{"op": "getitem", "index": [{"slice": [None, None, None]}, "newaxis", {"slice": [1, None, 2]}]}],
                [{"op": "tril", "k": 0}],
                [{"op": "reduce", "f": "sum", "axis": [0, 1], "keepdims": True, "split_every": 2}],
                [{"op": "reshape", "shape": [shape[0] * shape[1]] + shape[2:]}],
            ]
        for i, ch in enumerate(A.all_chunkings(shape)):
            for j, p in enumerate(pipes):
                arr = {"shape": shape, "dtype": "i8" if (i + j) % 2 else "f8", "seed": (i * 31 + j) % 97, "fill": "small", "chunks": ch}
                yield {"inputs": [arr], "steps": p}
            # map_blocks of a broadcasting binary function over two arrays: the second one is broadcast along axis 0 / the first
            # one is (after x[:1]) and the second brings this chunking of axis 0; either argument order
            arr = {"shape": shape, "dtype": "i8", "seed": i % 97, "fill": "small", "chunks": ch}
            row = {"shape": [1] + shape[1:], "dtype": "f8", "seed": (i + 1) % 97, "fill": "small", "chunks": [[1]] + [[n] for n in shape[1:]]}
            full = {"shape": shape, "dtype": "f8", "seed": (i + 2) % 97, "fill": "small", "chunks": [list(ch[0])] + [[n] for n in shape[1:]]}
            # ufunc(..., out=z): z chunked in every other way with and without the same number of blocks
            if nd <= 2:
                for k, ch2 in enumerate(A.all_chunkings(shape)):
                    if ch2 != ch and (nd == 1 or (i + k) % 3 == 0):
                        yield {"inputs": [arr], "steps": [{"op": "ew_out", "chunks": ch2}]}
            for swap in (False, True):
                yield {"inputs": [arr, row], "steps": [{"op": "map_blocks_bin", "input": 1, "swap": swap}]}
                yield {"inputs": [arr, full], "steps": [{"op": "getitem", "index": [{"slice": [None, 1, None]}]}, {"op": "map_blocks_bin", "input": 1, "swap": swap}]}


SUBCHECKS = [
    Sub("enum", check, kind="enum", cases=enum_cases, nontrivial=nontrivial, classes=classes, exhaustive=True,
        doc="~28 fixed 1-2 step pipelines over ALL chunkings of (5,), (4,3), (2,3,2); every block computed via .blocks and to_delayed"),
    Sub("pipelines", check, strategy=lambda tier: pipeline(), n={"quick": 1200, "thorough": 30000}, nontrivial=nontrivial, classes=classes,
        doc="typed random pipelines of 2-6 operations; all clauses checked after every step"),
]
