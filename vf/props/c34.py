"""C34 — array creation routines are chunk-invariant and equal NumPy."""
from __future__ import annotations

import itertools

import numpy as np
from hypothesis import strategies as st

from vf import arrays as A
from vf.core import Reject, Sub, ensure, impl, reference

PROPERTY = "C34"
PRELOAD = ["dask.array"]
LEVEL = "exploration"
RULE = (
    "enum: eye(N,M,k) for all N<=4, M<=5, |k|<=5 and all int chunk sizes; arange over a grid of int/fractional "
    "(start, step, count, +-1ulp stop perturbation) under ALL chunkings; tri/indices/diag/diagonal over all chunkings of "
    "small shapes and all offsets. hyp: arange/linspace/eye/diag/diagonal/indices/meshgrid/fromfunction/tri/ones/zeros/"
    "full/empty and *_like with random arguments, dtypes and two chunk specs each (int, tuple of ints, explicit tuples "
    "incl. a zero-size-chunk stratum, -1, 'auto'). Oracle: the NumPy function of the same name (values, dtype, shape; "
    "float arange/linspace within a few ulps because dask documents per-block evaluation), lazy shape/dtype == computed and "
    "chunks add up to the shape, for BOTH chunk specs (chunk-invariance). Non-trivial: some axis split into >=2 blocks "
    "of unequal size, or a fractional arange step."
)
ASSUMPTIONS = [
    "NumPy's creation functions are the reference for values and dtype",
    "float arange/linspace are compared within 4*n*eps*max(|start|,|stop|): dask's docstring says non-integer steps are "
    "evaluated per block and are not bit-identical to NumPy; lengths, dtypes and integer values are compared exactly",
    "empty/empty_like: only shape, dtype and chunks are compared (contents are arbitrary by definition)",
]
TECHNIQUE = "differential testing against NumPy, exhaustive over small argument/chunking grids plus Hypothesis"

FROMFUNCS = {
    "lin": lambda *ix: sum((10**k) * i for k, i in enumerate(ix)) if ix else 1.0,
    "prod": lambda *ix: np.prod(np.broadcast_arrays(*[i + 1 for i in ix]), axis=0) if ix else 1.0,
    "ge": lambda i, j: i >= j,
}


def ck(c):
    """JSON chunk spec -> dask chunks argument."""
    if isinstance(c, list):
        return tuple(tuple(e) if isinstance(e, list) else e for e in c)
    return c


def _inp(a, v):
    """Input array spec -> (numpy, dask-or-numpy) using chunk alternative v."""
    x = A.build_np(a)
    if a.get("as_np"):
        return x, x
    return x, A.build_da({**a, "chunks": a["alts"][v]}, x)


def call(lib, spec, v):
    """Evaluate the creation call with lib = np or dask.array (chunk alternative v) -> list of outputs."""
    fn, a = spec["fn"], spec["args"]
    isda = lib is not np
    ch = {"chunks": ck(spec["chunks"][v])} if isda and "chunks" in spec else {}
    dt = a.get("dtype")
    ins = [_inp(i, v)[1 if isda else 0] for i in spec.get("inputs", ())]
    if fn == "arange":
        pos = [a[k] for k in ("start", "stop", "step")[: a["form"]]] if a["form"] > 1 else [a["stop"]]
        return [lib.arange(*pos, dtype=dt, **ch)]
    if fn == "linspace":
        r = lib.linspace(a["start"], a["stop"], num=a["num"], endpoint=a["endpoint"], dtype=dt, retstep=a["retstep"], **ch)
        return list(r) if a["retstep"] else [r]
    if fn == "eye":
        return [lib.eye(a["N"], M=a["M"], k=a["k"], **({"dtype": dt} if dt else {}), **ch)]
    if fn == "tri":
        return [lib.tri(a["N"], a["M"], a["k"], dtype=dt or float, **ch)]
    if fn == "indices":
        return [lib.indices(tuple(a["dims"]), dtype=dt or int, **ch)]
    if fn == "fromfunction":
        return [lib.fromfunction(FROMFUNCS[a["func"]], shape=tuple(a["shape"]), dtype=dt or float, **ch)]
    if fn in ("ones", "zeros", "empty", "full"):
        shp = a["shape"][0] if a.get("int_shape") else tuple(a["shape"])
        return [getattr(lib, fn)(shp, *([a["fill"]] if fn == "full" else []), dtype=dt, **ch)]
    if fn.endswith("_like"):
        kw = {"shape": tuple(a["shape"])} if a.get("shape") is not None else {}
        return [getattr(lib, fn)(ins[0], *([a["fill"]] if fn == "full_like" else []), dtype=dt, **kw, **ch)]
    if fn == "diag":
        return [lib.diag(ins[0], a["k"])]
    if fn == "diagonal":
        return [lib.diagonal(ins[0], a["k"], a["axis1"], a["axis2"])]
    if fn == "meshgrid":
        return list(lib.meshgrid(*ins, indexing=a["indexing"], sparse=a["sparse"]))
    raise ValueError(fn)


def eye_short_wide(spec, v):
    """eye(N, chunks=c, M) with fewer rows than the row block size and M > N (finding eye-short-wide: creation.eye takes the
    first ROW block's size for the column blocks too)."""
    if spec["fn"] != "eye":
        return False
    a, c = spec["args"], spec["chunks"][v]
    ceff = c if isinstance(c, int) and c > 0 else max(a["N"], a["M"], 1)
    return a["N"] < ceff and a["M"] > a["N"]


def check(spec):
    import dask.array as da

    fn, a = spec["fn"], spec["args"]
    with np.errstate(all="ignore"):
        status, ns = reference(call, np, spec, 0)
    if status == "err":
        raise Reject(f"NumPy rejects the arguments: {ns}")
    shapes = [spec["shape"]] if "shape" in spec else [i["shape"] for i in spec["inputs"]]
    for v in (0, 1):
        zero = any(A.has_zero_chunk(c) for c in _explicit(spec, v))
        sig = dict(op=fn, zero_chunk=zero, zero_length=any(0 in s for s in shapes))
        if fn == "eye":
            sig["eye_short_wide"] = eye_short_wide(spec, v)
        if fn == "linspace":
            sig["int_dtype"] = np.dtype(a.get("dtype") or "f8").kind in "iu"
        if fn == "diag":
            sig["offset"] = a["k"] != 0
        with impl(fn, **sig), np.errstate(all="ignore"):
            ds = call(da, spec, v)
            gots = [d.compute(scheduler="sync") if isinstance(d, da.Array) else d for d in ds]
        ensure(len(ds) == len(ns), f"{fn} returned {len(ds)} outputs, numpy {len(ns)}", "count-mismatch", **sig)
        for j, (d, got, n) in enumerate(zip(ds, gots, ns)):
            if fn == "linspace" and j == 1:
                # retstep. num <= 1 has no spacing (NumPy returns NaN, dask the range): outside "values of the array"
                if np.isfinite(n):
                    ensure(np.isclose(d, n, rtol=1e-14, atol=0), f"linspace step {d} != numpy {n}", "step-mismatch", **sig)
                continue
            ensure(isinstance(d, da.Array), f"{fn} returned {type(d).__name__}, not a dask array", "not-dask", **sig)
            tol = 0.0
            if fn in ("arange", "linspace") and n.dtype.kind == "f":
                tol = 4 * max(n.size, 1) * float(np.finfo(n.dtype).eps) * max(abs(a.get("start", 0)), abs(a["stop"]), 1e-300)
            if not fn.startswith("empty"):
                A.same_array(got, n, exact=tol == 0.0, rtol=0.0, atol=tol, what=f"{fn} {a} chunks#{v}", sig=sig)
            else:
                ensure(np.shape(got) == np.shape(n) and np.asarray(got).dtype == n.dtype, f"{fn}: shape/dtype {np.shape(got)}/{np.asarray(got).dtype} != numpy {n.shape}/{n.dtype}", "shape-mismatch", **sig)
            A.check_meta(d, got, what=fn, sig=sig)
        if v == 0:
            check_siblings(spec, sig)


def siblings(spec):
    """Calls of the same routine that differ from `spec` in ONE scalar parameter (diagonal offset, end point, step, num,
    endpoint, fill value, dtype, axes, indexing, sparse) - and ones<->zeros: arrays a user builds side by side
    (2*eye(n) - eye(n, k=1) - eye(n, k=-1)).  Built together with the original in one graph they must all keep their values."""
    import copy

    fn, a = spec["fn"], spec["args"]
    out = []

    def var(**ch):
        s2 = copy.deepcopy(spec)
        s2["args"].update(ch)
        out.append(s2)

    if "k" in a:
        var(k=a["k"] + 1)
        var(k=-a["k"] if a["k"] else -1)
    if fn == "arange":
        if a["form"] >= 2:
            var(start=a["start"] + 1)
        if a["form"] >= 3:
            var(step=a["step"] * 2)
    if fn == "linspace":
        var(endpoint=not a["endpoint"])
        var(start=a["start"] + 1)
        var(stop=a["stop"] + 1)
    if fn in ("full", "full_like"):
        var(fill=a["fill"] + 1 if isinstance(a["fill"], (int, float)) and not isinstance(a["fill"], bool) else 1)
    if fn in ("ones", "zeros", "ones_like", "zeros_like"):
        s2 = copy.deepcopy(spec)
        s2["fn"] = fn.replace("ones", "ZZ").replace("zeros", "ones").replace("ZZ", "zeros")
        out.append(s2)
    if fn == "diagonal":
        var(axis1=a["axis2"], axis2=a["axis1"])
    if fn == "meshgrid":
        var(indexing="ij" if a["indexing"] == "xy" else "xy")
    if fn == "fromfunction":
        for name in FROMFUNCS:
            if name != a["func"]:
                var(func=name)
                break
    if "dtype" in a and fn not in ("empty", "empty_like"):
        var(dtype="f4" if a.get("dtype") != "f4" else "f8")
    return out[:4]


def check_siblings(spec, sig):
    """Metamorphic: every array computes the same values in one graph with its siblings as it does alone (what the values
    must be is the main clause's business; a sibling that cannot be built with the original's chunks is left out)."""
    import dask
    import dask.array as da

    group = []
    for s2 in [spec] + siblings(spec):
        try:
            with np.errstate(all="ignore"):
                ds = [d for d in call(da, s2, 0) if isinstance(d, da.Array)]
                alone = [d.compute(scheduler="sync") for d in ds]
        except Exception:  # noqa: BLE001 - e.g. explicit chunks that do not fit the sibling's shape
            if s2 is spec:
                return
            continue
        group.append((s2, ds, alone))
    if len(group) < 2:
        return
    with impl(spec["fn"] + " (siblings in one graph)", **sig), np.errstate(all="ignore"):
        vals = iter(dask.compute(*[d for _, ds, _ in group for d in ds], scheduler="sync"))
    for s2, ds, alone in group:
        for d, want in zip(ds, alone):
            got = next(vals)
            if s2["fn"].startswith("empty"):
                continue
            A.same_array(got, want, exact=True, what=f"{s2['fn']} {s2['args']} computed in one graph with {spec['fn']} {spec['args']} (vs computed alone)", sig=dict(sig, together=True))


def _explicit(spec, v):
    """explicit chunk tuples used by variant v (for the zero-size-chunk stratum flag)."""
    out = []
    if "chunks" in spec:
        c = spec["chunks"][v]
        if isinstance(c, list) and c and all(isinstance(e, list) for e in c):
            out.append(c)
    for i in spec.get("inputs", ()):
        if not i.get("as_np"):
            out.append(i["alts"][v])
    return out


def nontrivial(spec):
    if spec["fn"] == "arange" and any(isinstance(spec["args"].get(k), float) for k in ("start", "step")):
        return True
    shape = spec.get("shape") or []
    for c in spec.get("chunks", ()):
        if isinstance(c, int) and c > 0 and any(n > c and n % c for n in shape):
            return True
    return any(A.irregular(c) for v in (0, 1) for c in _explicit(spec, v))


def classes(spec):
    yield "fn-" + spec["fn"]
    for c in spec.get("chunks", ()):
        yield "chunks-" + ("explicit" if isinstance(c, list) and c and isinstance(c[0], list) else "tuple" if isinstance(c, list) else str(c) if not isinstance(c, int) or c < 0 else "int")
    if any(A.has_zero_chunk(c) for v in (0, 1) for c in _explicit(spec, v)):
        yield "zero-size-chunk"
    if 0 in (spec.get("shape") or []):
        yield "zero-length"


# ---------------------------------------------------------------------------- exhaustive tier
ARANGE_GRID = [(0, 1), (2, 3), (5, -2), (-3, 1), (0, 0.1), (0.1, 0.2), (-0.3, 0.7), (1, -0.25), (2.5, 1 / 3), (0, 1.1)]


def _arange_args(start, step, k, d):
    stop = start + k * step
    if d:
        stop = float(np.nextafter(stop, np.inf if d > 0 else -np.inf)) if isinstance(stop, float) else stop + d
    return {"form": 3, "start": start, "stop": stop, "step": step}


def enum_cases(tier):
    kmax = 6 if tier == "quick" else 9
    for (start, step), k, d in itertools.product(ARANGE_GRID, range(kmax + 1), (0, 1, -1)):
        a = _arange_args(start, step, k, d)
        n = len(np.arange(a["start"], a["stop"], a["step"]))
        allc = A.all_chunkings([n])
        for c in allc:
            yield {"fn": "arange", "args": a, "shape": [n], "chunks": [c, allc[-1 - allc.index(c)]]}
    nmax = 4 if tier == "quick" else 6
    for N, M, k in itertools.product(range(nmax + 1), range(nmax + 2), range(-nmax - 1, nmax + 2)):
        cs = list(range(1, max(N, M) + 2))
        for c in cs:
            yield {"fn": "eye", "args": {"N": N, "M": M, "k": k}, "shape": [N, M], "chunks": [c, cs[-cs.index(c) - 1]]}
    for (N, M), k in itertools.product([(3, 3), (2, 4), (4, 2)], range(-4, 5)):
        allc = A.all_chunkings([N, M])
        for c in allc:
            yield {"fn": "tri", "args": {"N": N, "M": M, "k": k}, "shape": [N, M], "chunks": [c, allc[-1 - allc.index(c)]]}
    for dims in ([3, 2], [4], [2, 1, 2], [0, 2]):
        allc = A.all_chunkings(dims)
        for c in allc:
            yield {"fn": "indices", "args": {"dims": dims}, "shape": dims, "chunks": [c, allc[-1 - allc.index(c)]]}
    shapes = [[4, 3], [3, 4], [2, 3, 2]] if tier == "quick" else [[4, 3], [3, 4], [4, 4], [2, 3, 3], [3, 2, 3]]
    for shp in shapes:
        allc = A.all_chunkings(shp)
        axes = [(0, 1), (1, 0)] if len(shp) == 2 else [(0, 1), (2, 0), (1, 2), (-1, 0)]
        for (a1, a2), k, c in itertools.product(axes, range(-4, 5), allc):
            inp = {"shape": shp, "dtype": "i8", "fill": "arange", "seed": 0, "alts": [c, allc[-1 - allc.index(c)]]}
            yield {"fn": "diagonal", "args": {"k": k, "axis1": a1, "axis2": a2}, "inputs": [inp]}
    for n, k in itertools.product(range(0, 6), range(-3, 4)):
        allc = A.all_chunkings([n])
        for c in allc:
            inp = {"shape": [n], "dtype": "i8", "fill": "arange", "seed": 1, "alts": [c, allc[-1 - allc.index(c)]]}
            yield {"fn": "diag", "args": {"k": k}, "inputs": [inp]}


# ---------------------------------------------------------------------------- random tier
DT = [None, "f8", "i8", "i4", "f4", "bool", "c16", "u1"]


@st.composite
def chunk_spec(draw, shape, forms=("int", "tuple", "explicit", "-1", "auto", "mixed")):
    nd = len(shape)
    form = draw(st.sampled_from(forms))
    if form == "int" or (nd == 0 and form in ("tuple", "mixed")):
        return draw(st.integers(1, max(shape + [1]) + 1))
    if form == "tuple":
        return [draw(st.integers(1, max(n, 1) + 1)) for n in shape]
    if form == "explicit":
        return draw(A.chunks_for_shape(shape, allow_zero=draw(st.integers(0, 7)) == 0))
    if form == "mixed":
        # ("auto" next to -1 on a shape with a zero-length axis divides by zero inside normalize_chunks: that is
        # chunk normalisation, property C23, not a creation routine -> not generated here)
        auto = [] if 0 in shape else ["auto"]
        return [draw(st.sampled_from([-1, draw(st.integers(1, max(n, 1))), draw(A.chunks_for_axis(n))] + auto)) for n in shape]
    return -1 if form == "-1" else "auto"


@st.composite
def inp_spec(draw, min_dims=1, max_dims=1, max_side=5, dtypes=("i8", "f8", "bool"), np_ok=False):
    a = draw(A.array_spec(min_dims=min_dims, max_dims=max_dims, max_side=max_side, dtypes=dtypes, fills=("arange", "small"), allow_zero_chunks=draw(st.integers(0, 7)) == 0))
    a["alts"] = [a.pop("chunks"), draw(A.chunks_for_shape(a["shape"]))]
    if np_ok and draw(st.integers(0, 5)) == 0:
        a["as_np"] = True
    return a


@st.composite
def random_case(draw):
    fn = draw(st.sampled_from(["arange", "arange", "linspace", "linspace", "eye", "tri", "indices", "fromfunction", "ones", "zeros", "empty", "full", "ones_like", "zeros_like", "empty_like", "full_like", "diag", "diagonal", "meshgrid"]))
    spec = {"fn": fn, "args": {}}
    a = spec["args"]
    forms = ("int", "tuple", "explicit", "-1", "auto", "mixed")
    if fn == "arange":
        if draw(st.booleans()):  # values on the float-rounding edge of ceil((stop-start)/step)
            start = draw(st.sampled_from([0, 1, -2, 7, 0.1, -0.3, 2.5, 100.7, -1e3]))
            step = draw(st.sampled_from([1, 2, 3, -1, -3, 0.1, 0.2, 0.3, -0.1, 0.7, 1 / 3, 0.05, 1.1, -0.25, 1e-3]))
            a.update(_arange_args(start, step, draw(st.integers(0, 14)), draw(st.sampled_from([0, 0, 1, -1]))))
        else:
            num = st.one_of(st.integers(-9, 9), st.floats(-9, 9, allow_nan=False).map(lambda f: round(f, 2)))
            a.update(form=draw(st.integers(1, 3)), start=draw(num), stop=draw(num), step=draw(num.filter(lambda s: abs(s) >= 0.25)))
        allint = all(isinstance(a[k], int) for k in ("start", "stop", "step"))
        # dtype= only in the float->float / int->any direction (NumPy's own int-dtype-with-fractional-step result is degenerate)
        a["dtype"] = draw(st.sampled_from([None, None, "f8", "f4"] + (["i8", "i4"] if allint else [])))
        if a["form"] == 1:
            a["stop"] = abs(a["stop"])
        pos = [a[k] for k in ("start", "stop", "step")[: a["form"]]] if a["form"] > 1 else [a["stop"]]
        spec["shape"] = [len(np.arange(*pos))]
    elif fn == "linspace":
        num = st.one_of(st.integers(-9, 9), st.sampled_from([0.1, -0.3, 2.5, 1e6, 1 / 3, -7.7]))
        a.update(start=draw(num), stop=draw(num), num=draw(st.integers(0, 12)), endpoint=draw(st.booleans()), retstep=draw(st.booleans()), dtype=draw(st.sampled_from([None, None, "f8", "f4", "i8"])))
        spec["shape"] = [a["num"]]
    elif fn in ("eye", "tri"):
        a.update(N=draw(st.integers(0, 6)), M=draw(st.integers(0, 7)), k=draw(st.integers(-7, 7)), dtype=draw(st.sampled_from([None, "f8", "i4", "bool"])))
        spec["shape"] = [a["N"], a["M"]]
        forms = ("int", "int", "auto", "-1") if fn == "eye" else forms  # eye documents int/str chunks only
    elif fn == "indices":
        a.update(dims=draw(st.lists(st.integers(0, 4), max_size=3)), dtype=draw(st.sampled_from([None, "i8", "i4", "f8"])))
        spec["shape"] = a["dims"]
    elif fn == "fromfunction":
        a["func"] = draw(st.sampled_from(["lin", "prod", "ge"]))
        a["shape"] = draw(st.lists(st.integers(0, 4), min_size=2 if a["func"] == "ge" else 0, max_size=2 if a["func"] == "ge" else 3))
        a["dtype"] = draw(st.sampled_from([None, "f8", "i8"]))
        spec["shape"] = a["shape"]
    elif fn in ("ones", "zeros", "empty", "full"):
        a.update(shape=draw(st.lists(st.integers(0, 5), max_size=3)), dtype=draw(st.sampled_from(DT)))
        if fn == "full":
            a["fill"] = draw(st.sampled_from([0, 7, -2, 2.5, True]))
        if len(a["shape"]) == 1 and draw(st.booleans()):
            a["int_shape"] = True
        spec["shape"] = a["shape"]
    elif fn.endswith("_like"):
        spec["inputs"] = [draw(inp_spec(0, 3, np_ok=True))]
        a["dtype"] = draw(st.sampled_from(DT))
        a["shape"] = draw(st.one_of(st.none(), st.lists(st.integers(0, 4), max_size=3)))
        if fn == "full_like":
            a["fill"] = draw(st.sampled_from([0, 7, -2, 1]))
        # chunks=None keeps the input's chunks (only meaningful without a shape override)
        spec["shape"] = a["shape"] if a["shape"] is not None else spec["inputs"][0]["shape"]
        if a["shape"] is None and draw(st.booleans()):
            spec["chunks"] = [None, None]
    elif fn == "diag":
        spec["inputs"] = [draw(inp_spec(1, 2, np_ok=True))]
        a["k"] = draw(st.integers(-4, 4))
    elif fn == "diagonal":
        i = draw(inp_spec(2, 4, max_side=4))
        nd = len(i["shape"])
        a1 = draw(st.integers(-nd, nd - 1))
        a2 = draw(st.integers(-nd, nd - 1).filter(lambda x: x % nd != a1 % nd))
        spec["inputs"] = [i]
        a.update(k=draw(st.integers(-4, 4)), axis1=a1, axis2=a2)
    elif fn == "meshgrid":
        # NumPy documents 1-D coordinate vectors (n-d inputs are flattened through reshape, which is C24's subject)
        spec["inputs"] = [draw(inp_spec(1, 1, max_side=4, np_ok=True)) for j in range(draw(st.integers(0, 3)))]
        a.update(indexing=draw(st.sampled_from(["xy", "ij"])), sparse=draw(st.booleans()))
    if "shape" in spec and "chunks" not in spec and fn not in ("diag", "diagonal", "meshgrid"):
        spec["chunks"] = [draw(chunk_spec(spec["shape"], forms)), draw(chunk_spec(spec["shape"], forms))]
    return spec


SUBCHECKS = [
    Sub("enum", check, kind="enum", cases=enum_cases, nontrivial=nontrivial, classes=classes, exhaustive=True,
        doc="arange grid x all chunkings; eye for all small (N, M, k, int chunks); tri/indices/diag/diagonal over all chunkings and offsets"),
    Sub("random", check, strategy=lambda tier: random_case(), n={"quick": 4000, "thorough": 80000}, nontrivial=nontrivial, classes=classes,
        doc="every creation routine with random arguments, dtypes and two chunk specs each"),
]
