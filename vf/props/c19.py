"""C19 — elementwise and broadcasting array operations equal NumPy."""
from __future__ import annotations

import itertools

import numpy as np
from hypothesis import strategies as st

from vf import arrays as A
from vf.core import Reject, Sub, Violation, canon_json, impl, reference

PROPERTY = "C19"
PRELOAD = ["dask.array"]
LEVEL = "exploration"
RULE = (
    "enum: binary ops on two operands of shapes drawn from a fixed list of broadcast-compatible small shape pairs "
    "(incl. size-0, size-1, 0-d) under ALL chunkings of both operands; hyp: 1-3 operands (dask arrays / NumPy arrays / "
    "Python scalars) of random broadcast-compatible shapes, dtypes bool/ints/uints/floats/complex/datetime, random "
    "chunkings incl. explicit zero-size chunks, ops: arithmetic, comparisons, bitwise, ~35 ufuncs, "
    "da.where, astype(casting), clip, round, isnan/isfinite, datetime +/- timedelta; ufunc_kwargs: ufuncs called with where= "
    "(True/False/NumPy mask/dask mask/broadcast mask) and out= (pre-filled dask array), 1-3 variants over the SAME "
    "operands, each computed alone, all in one dask.compute, and combined into one expression. Oracle: the same "
    "expression on the NumPy operands (same dtype, values exact / NaN-aware). Non-trivial: two dask operands with different "
    "chunkings along a shared axis, or a broadcast dimension with >=2 blocks on the other operand."
)
ASSUMPTIONS = [
    "NumPy 2 promotion rules (Python scalars weak) are the reference for dtypes",
    "blockwise evaluation uses the same NumPy kernels, so real and integer results are compared exactly (NaN == NaN); complex results with rtol 1e-13 (last-bit differences between NumPy's vector and scalar loops)",
]
TECHNIQUE = "differential testing against NumPy over exhaustive chunkings of small shapes and Hypothesis-generated operands/ops"

BINOPS = {
    "add": np.add, "sub": np.subtract, "mul": np.multiply, "truediv": np.true_divide, "floordiv": np.floor_divide,
    "mod": np.mod, "pow": np.power, "lt": np.less, "le": np.less_equal, "eq": np.equal, "ne": np.not_equal,
    "gt": np.greater, "ge": np.greater_equal, "and": np.bitwise_and, "or": np.bitwise_or, "xor": np.bitwise_xor,
    "maximum": np.maximum, "minimum": np.minimum, "hypot": np.hypot, "arctan2": np.arctan2, "copysign": np.copysign,
    "logaddexp": np.logaddexp, "fmax": np.fmax, "fmin": np.fmin, "logical_and": np.logical_and,
    "logical_or": np.logical_or, "logical_xor": np.logical_xor, "lshift": np.left_shift, "rshift": np.right_shift,
}
OPERATOR = {
    "add": "__add__", "sub": "__sub__", "mul": "__mul__", "truediv": "__truediv__", "floordiv": "__floordiv__",
    "mod": "__mod__", "pow": "__pow__", "lt": "__lt__", "le": "__le__", "eq": "__eq__", "ne": "__ne__",
    "gt": "__gt__", "ge": "__ge__", "and": "__and__", "or": "__or__", "xor": "__xor__",
    "lshift": "__lshift__", "rshift": "__rshift__",
}
UNOPS = [
    "negative", "absolute", "sqrt", "exp", "log", "log1p", "expm1", "sin", "cos", "tanh", "floor", "ceil", "trunc",
    "rint", "sign", "square", "reciprocal", "isnan", "isfinite", "isinf", "signbit", "logical_not", "invert",
    "conjugate", "real", "imag", "angle", "cbrt", "exp2", "deg2rad", "fabs", "positive",
]


def _da_has(name):
    import dask.array as da

    return hasattr(da, name)


def operand(spec):
    """-> (numpy value, dask-or-plain value)"""
    k = spec["kind"]
    if k == "scalar":
        v = spec["value"]
        return v, v
    x = A.build_np(spec["array"])
    if k == "np":
        return x, x
    return x, A.build_da(spec["array"], x)


def apply(case, ops, lib):
    """Evaluate the case's operation with lib = np or da on operands `ops`."""
    op = case["op"]
    kind = op["kind"]
    if kind == "binary":
        f = getattr(lib, BINOPS[op["name"]].__name__)
        return f(ops[0], ops[1])
    if kind == "operator":
        a, b = ops
        meth = OPERATOR[op["name"]]
        if op.get("reflected"):
            meth = "__r" + meth[2:]
            a, b = b, a
        r = getattr(a, meth)(b)
        if r is NotImplemented:
            raise Reject("operator not implemented for these operands")
        return r
    if kind == "unary":
        return getattr(lib, op["name"])(ops[0])
    if kind == "where":
        return lib.where(ops[0], ops[1], ops[2])
    if kind == "astype":
        return ops[0].astype(op["dtype"], casting=op.get("casting", "unsafe"))
    if kind == "clip":
        return lib.clip(ops[0], op["lo"], op["hi"])
    if kind == "round":
        return lib.round(ops[0], op["decimals"])
    raise ValueError(kind)


def check(case):
    import dask.array as da

    pairs = [operand(o) for o in case["operands"]]
    nps = [p[0] for p in pairs]
    dks = [p[1] for p in pairs]
    if not any(isinstance(d, da.Array) for d in dks):
        raise Reject("no dask operand")
    with np.errstate(all="ignore"):
        status, want = reference(apply, case, nps, np)
    if status == "err":
        # NumPy rejects the operation (dtype/casting): both must reject
        try:
            with np.errstate(all="ignore"):
                r = apply(case, dks, da)
                if isinstance(r, da.Array):
                    r.compute(scheduler="sync")
        except Reject:
            raise
        except Exception:  # noqa: BLE001
            return
        raise Violation(f"NumPy raises {type(want).__name__}: {want}; dask returned a result", "accepts-what-numpy-rejects", op=case["op"]["kind"])
    sig = dict(
        op=case["op"].get("name", case["op"]["kind"]),
        zero_chunk=any(A.has_zero_chunk(o["array"]["chunks"]) for o in case["operands"] if o["kind"] == "da"),
        # a length-1 (broadcastable) axis split into several blocks, which needs an explicit zero-size chunk
        multiblock_len1_axis=any(
            n == 1 and len(c) > 1
            for o in case["operands"]
            if o["kind"] == "da"
            for n, c in zip(o["array"]["shape"], o["array"]["chunks"])
        ),
    )
    with impl("elementwise", **sig), np.errstate(all="ignore"):
        r = apply(case, dks, da)
        if not isinstance(r, da.Array):
            raise Reject("result is not a dask array")
        got = r.compute(scheduler="sync")
    A.same_array(got, want, what=f"{case['op']}", sig=sig, **_tol(want))
    A.check_meta(r, got, sig=sig)


def _tol(want):
    """Complex products/quotients/powers: NumPy's vectorised loops and its scalar tail loop may round the last bit
    differently (fused multiply-add), and which elements fall into the tail depends on the block length.  Real and integer
    results are compared exactly."""
    if np.asarray(want).dtype.kind == "c":
        return dict(exact=False, rtol=1e-13, atol=1e-300)
    return {}


def nontrivial(case):
    das = [o["array"] for o in case["operands"] if o["kind"] == "da"]
    if len(das) >= 2:
        for a, b in itertools.combinations(das, 2):
            for ca, cb, sa, sb in zip(a["chunks"][::-1], b["chunks"][::-1], a["shape"][::-1], b["shape"][::-1]):
                if sa == sb and sa > 1 and ca != cb:
                    return True
                if sa != sb and (len(ca) > 1 or len(cb) > 1):
                    return True
    if len(das) >= 1 and len(case["operands"]) >= 2:
        a = das[0]
        for o in case["operands"]:
            if o["kind"] == "np" and len(o["array"]["shape"]) and o["array"]["shape"] != a["shape"] and A.nblocks(a["chunks"]) > 1:
                return True
    return False


def classes(case):
    yield "op-" + case["op"]["kind"]
    for o in case["operands"]:
        yield "operand-" + o["kind"]
        if o["kind"] != "scalar":
            yield "dtype-" + o["array"]["dtype"]
            if 0 in o["array"]["shape"]:
                yield "zero-length"
            if not o["array"]["shape"]:
                yield "0-d"
            if o["kind"] == "da" and A.has_zero_chunk(o["array"]["chunks"]):
                yield "zero-size-chunk"


# broadcast-compatible shape pairs for the exhaustive tier
PAIRS_QUICK = [([4], [4]), ([3, 2], [3, 2]), ([3, 2], [2]), ([3, 1], [1, 2]), ([0], [1]), ([2, 0], [2, 1]), ([], [3]), ([1, 3], [2, 1])]
PAIRS_THOROUGH = PAIRS_QUICK + [([4, 3], [4, 3]), ([2, 3, 2], [3, 1]), ([5], [5]), ([2, 2, 2], [2, 2, 2]), ([4, 1], [3])]


def enum_cases(tier):
    pairs = PAIRS_QUICK if tier == "quick" else PAIRS_THOROUGH
    ops = ["add", "lt", "maximum"] if tier == "quick" else ["add", "mul", "lt", "maximum", "truediv"]
    i = 0
    for sa, sb in pairs:
        for ca in A.all_chunkings(sa):
            for cb in A.all_chunkings(sb):
                i += 1
                op = ops[i % len(ops)]
                a = {"shape": sa, "dtype": "i8" if i % 2 else "f8", "seed": i, "fill": "small", "chunks": ca}
                b = {"shape": sb, "dtype": "f8" if i % 3 else "i4", "seed": i + 1, "fill": "small", "chunks": cb}
                yield {"operands": [{"kind": "da", "array": a}, {"kind": "da", "array": b}], "op": {"kind": "binary", "name": op}}


def broadcast_shapes_strategy(n):
    """n mutually broadcast-compatible shapes."""

    @st.composite
    def s(draw):
        nd = draw(st.integers(0, 3))
        full = [draw(st.sampled_from([0, 1, 2, 3, 4, 5])) for _ in range(nd)]
        shapes = []
        for _ in range(n):
            k = draw(st.integers(0, nd))
            shp = full[nd - k :]
            shp = [1 if (d != 1 and draw(st.integers(0, 3)) == 0) else d for d in shp]
            shapes.append(shp)
        return shapes

    return s()


_scalar = st.one_of(st.integers(-5, 5), st.sampled_from([0.5, -2.0, 3.0]), st.booleans())


@st.composite
def operand_spec(draw, shape, dtypes, force_da=False):
    kind = "da" if force_da else draw(st.sampled_from(["da", "da", "np", "scalar"]))
    if kind == "scalar":
        return {"kind": "scalar", "value": draw(_scalar)}
    arr = draw(A.array_spec(shape=shape, dtypes=dtypes, allow_zero_chunks=True, specials=True))
    return {"kind": kind, "array": arr}


@st.composite
def random_case(draw):
    kind = draw(st.sampled_from(["binary", "binary", "operator", "unary", "where", "astype", "clip", "round"]))
    dts = A.DTYPES_NUM
    if kind in ("binary", "operator"):
        sa, sb = draw(broadcast_shapes_strategy(2))
        names = [b for b in BINOPS if _da_has(BINOPS[b].__name__)] if kind == "binary" else list(OPERATOR)
        op = {"kind": kind, "name": draw(st.sampled_from(names))}
        if kind == "operator":
            op["reflected"] = draw(st.booleans())
        dt_mode = draw(st.integers(0, 5))
        if dt_mode == 0:
            # datetime arithmetic: only the combinations that are meaningful in NumPy
            name, da_, db_ = draw(
                st.sampled_from(
                    [
                        ("add", "M8[ns]", "m8[ns]"), ("add", "m8[ns]", "M8[ns]"), ("add", "m8[ns]", "m8[ns]"),
                        ("sub", "M8[ns]", "M8[ns]"), ("sub", "M8[ns]", "m8[ns]"), ("sub", "m8[ns]", "m8[ns]"),
                        ("lt", "M8[ns]", "M8[ns]"), ("eq", "M8[ns]", "M8[ns]"), ("ge", "m8[ns]", "m8[ns]"),
                        ("eq", "m8[ns]", "m8[ns]"),
                    ]
                )
            )
            op = {"kind": "operator", "name": name, "reflected": False}
            a = draw(operand_spec(sa, [da_], force_da=True))
            b = draw(operand_spec(sb, [db_], force_da=draw(st.booleans())))
            if b["kind"] == "scalar":
                b = draw(operand_spec(sb, [db_], force_da=True))
            return {"operands": [a, b], "op": op}
        else:
            a = draw(operand_spec(sa, dts, force_da=True))
            b = draw(operand_spec(sb, dts))
        operands = [a, b]
        if draw(st.booleans()):
            operands = operands[::-1]
        return {"operands": operands, "op": op}
    if kind == "unary":
        (sa,) = draw(broadcast_shapes_strategy(1))
        return {"operands": [draw(operand_spec(sa, dts, force_da=True))], "op": {"kind": "unary", "name": draw(st.sampled_from([u for u in UNOPS if _da_has(u)]))}}
    if kind == "where":
        sa, sb, sc = draw(broadcast_shapes_strategy(3))
        c = draw(operand_spec(sa, ["bool", "i8"], force_da=True))
        return {"operands": [c, draw(operand_spec(sb, dts)), draw(operand_spec(sc, dts))], "op": {"kind": "where"}}
    (sa,) = draw(broadcast_shapes_strategy(1))
    a = draw(operand_spec(sa, dts, force_da=True))
    if kind == "astype":
        return {"operands": [a], "op": {"kind": "astype", "dtype": draw(st.sampled_from(A.DTYPES_NUM)), "casting": draw(st.sampled_from(["unsafe", "same_kind", "safe"]))}}
    if kind == "clip":
        lo = draw(st.integers(-5, 2))
        return {"operands": [a], "op": {"kind": "clip", "lo": lo, "hi": lo + draw(st.integers(0, 6))}}
    # (np.round of a bool array returns float16; round is not among the operations C19 lists,
    # it is exercised for numeric dtypes only)
    a = draw(operand_spec(sa, [d for d in dts if d != "bool"], force_da=True))
    return {"operands": [a], "op": {"kind": "round", "decimals": draw(st.integers(-1, 2))}}


# --------------------------------------------------------------------------
# ufunc keyword arguments: where= / out= / dtype=, one or several variants over the SAME operands,
# each evaluated alone, all evaluated in one dask.compute, and all combined into one expression.

KW_BINARY = ["add", "subtract", "multiply", "maximum", "minimum", "less", "logical_and", "true_divide"]
KW_UNARY = ["negative", "absolute", "square", "sqrt"]


def _mask(spec, shape):
    k = spec["kind"]
    if k == "true":
        return True, True
    if k == "false":
        return False, False
    shp = tuple(shape) if k in ("np", "da") else tuple(shape)[-1:]  # "bcast": trailing axis only
    m = np.random.default_rng(spec["seed"]).random(shp) < 0.5
    if k == "da":
        import dask.array as da

        return m, da.from_array(m, chunks=tuple(max(1, n // 2) for n in shp) or ())
    return m, m


def check_kwargs(case):
    import dask
    import dask.array as da

    uf = case["ufunc"]
    np_uf, da_uf = getattr(np, uf), getattr(da, uf)
    pairs = [operand(o) for o in case["operands"]]
    nps = [p[0] for p in pairs]
    dks = [p[1] for p in pairs]
    shape = np.broadcast_shapes(*[np.shape(a) for a in nps])
    sig = dict(
        op=uf,
        kw=True,
        zero_chunk=any(A.has_zero_chunk(o["array"]["chunks"]) for o in case["operands"] if o["kind"] == "da"),
        multiblock_len1_axis=any(
            n == 1 and len(c) > 1 for o in case["operands"] if o["kind"] == "da" for n, c in zip(o["array"]["shape"], o["array"]["chunks"])
        ),
    )
    wants, lazies = [], []
    for v in case["variants"]:
        kw_np, kw_da = {}, {}
        if v.get("dtype"):
            kw_np["dtype"] = kw_da["dtype"] = v["dtype"]
        with np.errstate(all="ignore"):
            status, plain = reference(lambda: np_uf(*nps, **kw_np))
        if status == "err":
            raise Reject("NumPy rejects the plain call")
        m_np, m_da = _mask(v["where"], shape)
        if v.get("out") is not None or m_np is not True:
            fill = (v.get("out") or {"fill": 0})["fill"]
            o_np = np.full(shape, fill, dtype=np.asarray(plain).dtype)
            o_da = da.full(shape, fill, dtype=o_np.dtype, chunks=tuple(max(1, n // 2) for n in shape) or ())
            kw_np["out"], kw_da["out"] = o_np, o_da
        if m_np is not True:
            kw_np["where"], kw_da["where"] = m_np, m_da
        with np.errstate(all="ignore"):
            status, want = reference(lambda: np_uf(*nps, **kw_np))
        if status == "err":
            raise Reject("NumPy rejects these keyword arguments")
        with impl("ufunc with keyword arguments", **sig), np.errstate(all="ignore"):
            r = da_uf(*dks, **kw_da)
        if not isinstance(r, da.Array):
            raise Reject("result is not a dask array")
        wants.append(np.asarray(want))
        lazies.append(r)
    desc = f"{uf}{[o['kind'] for o in case['operands']]} variants={case['variants']}"
    for i, (r, w) in enumerate(zip(lazies, wants)):
        with impl("compute alone", **sig), np.errstate(all="ignore"):
            got = r.compute(scheduler="sync")
        A.same_array(got, w, what=f"{desc}: variant {i} alone", sig=dict(sig, stage="alone"), **_tol(w))
        A.check_meta(r, got, sig=sig)
    if len(lazies) > 1:
        with impl("compute jointly", **sig), np.errstate(all="ignore"):
            joint = dask.compute(*lazies, scheduler="sync")
        for i, (g, w) in enumerate(zip(joint, wants)):
            A.same_array(g, w, what=f"{desc}: variant {i} computed jointly with the others", sig=dict(sig, stage="joint"), **_tol(w))
        with np.errstate(all="ignore"):
            tot_w = sum((i + 1) * w.astype("c16" if w.dtype.kind == "c" else "f8") for i, w in enumerate(wants))
            with impl("combine variants", **sig):
                tot_d = sum((i + 1) * r.astype("c16" if r.dtype.kind == "c" else "f8") for i, r in enumerate(lazies))
                got = tot_d.compute(scheduler="sync")
        A.same_array(got, tot_w, what=f"{desc}: weighted sum of the variants", sig=dict(sig, stage="combined"), **_tol(tot_w))


@st.composite
def kwargs_case(draw):
    binary = draw(st.booleans())
    uf = draw(st.sampled_from(KW_BINARY if binary else KW_UNARY))
    dts = ["bool", "i4", "i8", "f4", "f8", "c16"] if uf not in ("maximum", "minimum", "less", "sqrt") else ["i4", "i8", "f4", "f8"]
    if binary:
        sa, sb = draw(broadcast_shapes_strategy(2))
        a = draw(operand_spec(sa, dts, force_da=True))
        b = draw(operand_spec(sb, dts))
        operands = [a, b] if draw(st.booleans()) else [b, a]
    else:
        (sa,) = draw(broadcast_shapes_strategy(1))
        operands = [draw(operand_spec(sa, dts, force_da=True))]
    nvar = draw(st.sampled_from([1, 2, 2, 3]))
    variants = []
    for _ in range(nvar):
        w = {"kind": draw(st.sampled_from(["true", "false", "np", "np", "da", "bcast"])), "seed": draw(st.integers(0, 3))}
        out = draw(st.sampled_from([None, {"fill": 0}, {"fill": 7}, {"fill": 1}]))
        # (dtype= is not among the arguments C19 lists: NumPy selects the inner loop with it, dask casts the
        # result - a documented difference; it is exercised for name collisions only, in C13)
        variants.append({"where": w, "out": out, "dtype": None})
    return {"operands": operands, "ufunc": uf, "variants": variants}


def kw_nontrivial(case):
    vs = case["variants"]
    return len(vs) >= 2 and len({canon_json(v) for v in vs}) >= 2 and any(v["where"]["kind"] not in ("true",) or v["out"] for v in vs)


def kw_classes(case):
    yield "variants-%d" % len(case["variants"])
    for v in case["variants"]:
        yield "where-" + v["where"]["kind"]
        yield "out" if v["out"] else "no-out"
        if v["dtype"]:
            yield "dtype-kw"


SUBCHECKS = [
    Sub(
        "enum",
        check,
        kind="enum",
        cases=enum_cases,
        nontrivial=nontrivial,
        classes=classes,
        exhaustive=True,
        doc="binary ops over all chunkings of both operands for a fixed list of broadcast-compatible shape pairs",
    ),
    Sub(
        "random",
        check,
        strategy=lambda tier: random_case(),
        n={"quick": 2500, "thorough": 60000},
        nontrivial=nontrivial,
        classes=classes,
        doc="random operands (dask/NumPy/scalars), dtypes, chunkings (incl. zero-size chunks) and ops",
    ),
    Sub(
        "ufunc_kwargs",
        check_kwargs,
        strategy=lambda tier: kwargs_case(),
        n={"quick": 1500, "thorough": 40000},
        nontrivial=kw_nontrivial,
        classes=kw_classes,
        doc="ufuncs with where=/out=: 1-3 variants over the same operands, each alone, all in one compute, and combined into one expression",
    ),
]
