"""C17 — configuration changes are scoped, atomic and spelling-insensitive."""
from __future__ import annotations

import ast
import copy
import itertools
import os

from hypothesis import strategies as st

from vf.core import Sub, Violation, ensure, impl, short

PROPERTY = "C17"
LEVEL = "exploration"
RULE = (
    "histories = op lists interpreted against a model (stack of deep-copied snapshots) on a private config dict (config= "
    "parameter; a share of cases on the real global config under vf-* keys): enter dask.config.set(mapping, **kwargs) "
    "(may legitimately raise), exit innermost, get under either spelling. Key universe: vf-a, vf_a, vf-a.b-c, vf_a.b_c, "
    "vf-a.b-c.d, vf-n, vf-n.x, vf_m.k in both spellings; values scalars / None / nested dicts; one call may hold duplicate "
    "keys under different spellings, a key and its own prefix, a mapping plus kwargs (vf__a__b=). Oracle: if set raises, the "
    "dict equals the snapshot taken just before the call; on exit it equals the snapshot at entry (deep equality); right "
    "after a successful set, get under either spelling returns the value set (for keys not overridden later in the same "
    "call). enum: all histories of <=3 set/exit ops over a 9-assignment alphabet x 4 initial configs; hyp: random histories "
    "to 10 ops. Separate Hypothesis checks: update/merge (priority new|old|new-defaults) against a reference written from "
    "the docstrings, collect_env + interpret_value, serialize/deserialize round trip, expand_environment_variables. "
    "Non-trivial: >=2 nested contexts touching overlapping paths where one call fails or turns a scalar into a mapping."
)
ASSUMPTIONS = [
    "deep equality (==) of nested dicts decides 'restored exactly'",
    "contexts are exited in LIFO order, as `with` blocks do",
]
TECHNIQUE = "model-based testing over generated set/exit histories (snapshot-stack model), exhaustive for short histories + Hypothesis; differential checks of update/merge/collect_env against docstring-derived references"

KEYS = ["vf-a", "vf_a", "vf-a.b-c", "vf_a.b_c", "vf-a.b_c", "vf-a.b-c.d", "vf_a.b_c.d", "vf-n", "vf_n", "vf-n.x", "vf_m.k", "vf-m.k"]
INITIALS = [
    {},
    {"vf-n": 1},
    {"vf_a": {"b_c": 3}, "vf-n": {"x": 0}},
    {"vf-a": 5, "vf-m": {"k": None}},
    {"vf-a": {"b-c": {"d": 1, "e": 2}}, "other": [1, 2]},
]


def alt(k):
    return k.replace("_", "-") if "_" in k else k.replace("-", "_")


def spellings(key):
    parts = key.split(".")
    out = set()
    for combo in itertools.product(*[(p, alt(p)) for p in parts]):
        out.add(".".join(combo))
    return sorted(out)


def canon_path(key):
    return tuple(p.replace("_", "-") for p in key.split("."))


def check(case):
    import dask.config as dc

    use_global = case.get("global", False)
    if use_global:
        cfg = dc.config
        saved = copy.deepcopy({k: v for k, v in cfg.items() if k.replace("_", "-").startswith("vf-")})
        for k in list(cfg):
            if k.replace("_", "-").startswith("vf-"):
                del cfg[k]
        cfg.update(copy.deepcopy(INITIALS[case["initial"]]))
    else:
        cfg = copy.deepcopy(INITIALS[case["initial"]])
    stack = []  # (snapshot at entry, context manager)
    try:
        for step, op in enumerate(case["ops"]):
            where = f"step {step} {short(op, 120)}"
            if op[0] == "set":
                pairs, kwargs = op[1], op[2]
                before = copy.deepcopy(_view(cfg, use_global))
                mapping = {k: copy.deepcopy(v) for k, v in pairs}
                kw = {k: copy.deepcopy(v) for k, v in kwargs}
                try:
                    if use_global:
                        cm = dc.set(mapping, **kw)
                    else:
                        cm = dc.set(mapping, config=cfg, **kw)
                except Exception as e:  # noqa: BLE001 - a legitimate rejection; must be atomic
                    after = _view(cfg, use_global)
                    ensure(
                        after == before,
                        f"{where}: set raised {type(e).__name__}: {e} but left the configuration changed: before={before} after={after}",
                        "failed-set-not-atomic",
                    )
                    continue
                stack.append((before, cm))
                # what get() returns inside the context
                # (a dict literal keeps the FIRST position of a repeated key with its LAST value)
                assigned = [(k, v) for k, v in mapping.items()] + [(k.replace("__", "."), v) for k, v in kw.items()]
                for i, (k, v) in enumerate(assigned):
                    later = [canon_path(k2) for k2, _ in assigned[i + 1 :]]
                    p = canon_path(k)
                    if any(q[: len(p)] == p or p[: len(q)] == q for q in later):
                        continue  # overridden / extended later in the same call
                    for sp in spellings(k):
                        with impl("config.get"):
                            got = dc.get(sp) if use_global else dc.get(sp, config=cfg)
                        ensure(got == v, f"{where}: get({sp!r}) == {got!r}, set value {v!r}", "get-after-set")
            elif op[0] == "exit":
                if not stack:
                    continue
                before, cm = stack.pop()
                with impl("set.__exit__"):
                    cm.__exit__(None, None, None)
                after = _view(cfg, use_global)
                ensure(after == before, f"{where}: after exit config is {after}, at entry it was {before}", "exit-does-not-restore")
        # unwind what is still open
        while stack:
            before, cm = stack.pop()
            with impl("set.__exit__"):
                cm.__exit__(None, None, None)
            after = _view(cfg, use_global)
            ensure(after == before, f"final unwind: config is {after}, at entry it was {before}", "exit-does-not-restore")
    finally:
        if use_global:
            for k in list(cfg):
                if k.replace("_", "-").startswith("vf-") or k == "other":
                    del cfg[k]
            cfg.update(saved)


def _view(cfg, use_global):
    if not use_global:
        return cfg
    return {k: v for k, v in cfg.items() if k.replace("_", "-").startswith("vf-") or k == "other"}


def _touch(case):
    paths = []
    for op in case["ops"]:
        if op[0] == "set":
            paths.append([canon_path(k) for k, _ in op[1]] + [canon_path(k.replace("__", ".")) for k, _ in op[2]])
    return paths


def nontrivial(case):
    sets = _touch(case)
    if len(sets) < 2:
        return False
    overlap = False
    for a, b in itertools.combinations(sets, 2):
        for p in a:
            for q in b:
                if p[: len(q)] == q or q[: len(p)] == p:
                    overlap = True
    nested = False
    depth = 0
    for op in case["ops"]:
        if op[0] == "set":
            depth += 1
            nested = nested or depth >= 2
        elif depth:
            depth -= 1
    return overlap and nested


def classes(case):
    if case.get("global"):
        yield "global-config"
    n = sum(1 for op in case["ops"] if op[0] == "set")
    yield f"sets-{min(n, 4)}"
    for op in case["ops"]:
        if op[0] == "set":
            ps = [canon_path(k) for k, _ in op[1]]
            if len(set(ps)) < len(ps):
                yield "duplicate-key-in-call"
            if any(p != q and q[: len(p)] == p for p in ps for q in ps):
                yield "key-and-prefix-in-call"
            if op[2]:
                yield "kwargs"


_values = st.one_of(st.integers(0, 9), st.none(), st.sampled_from(["s", True, 1.5]), st.sampled_from([{"b-c": 7}, {"x": {"y": 1}}, {}]))


@st.composite
def set_op(draw):
    n = draw(st.integers(1, 3))
    pairs = [[draw(st.sampled_from(KEYS)), draw(_values)] for _ in range(n)]
    kwargs = []
    if draw(st.integers(0, 3)) == 0:
        kwargs = [[draw(st.sampled_from(["vf_a__b_c", "vf_n", "vf_a", "vf_m__k"])), draw(_values)]]
    return ["set", pairs, kwargs]


@st.composite
def history(draw):
    ops = []
    for _ in range(draw(st.integers(1, 10))):
        if draw(st.integers(0, 2)) == 0:
            ops.append(["exit"])
        else:
            ops.append(draw(set_op()))
    return {"initial": draw(st.integers(0, len(INITIALS) - 1)), "ops": ops, "global": draw(st.integers(0, 5)) == 0}


def enum_cases(tier):
    alphabet = [
        ["set", [["vf-a", 1]], []],
        ["set", [["vf_a.b_c", 2]], []],
        ["set", [["vf-a.b-c.d", 3]], []],
        ["set", [["vf-n.x", 4], ["vf-a", {"b-c": 9}]], []],
        ["set", [["vf-n", 5], ["vf-n.x", 6]], []],  # second assignment hits a scalar -> raises
        ["set", [["vf-a", 1], ["vf_a", 2]], []],
        ["set", [["vf_m.k", 1], ["vf-a.b-c", 5], ["vf-a.b-c.d", 1]], []],  # raises midway
        ["set", [], [["vf_a__b_c", 8]]],
        ["set", [["vf-a.b-c", None]], [["vf_n", {"x": 1}]]],
        ["exit"],
    ]
    maxlen = 3 if tier == "quick" else 4
    for init in range(len(INITIALS)):
        for n in range(1, maxlen + 1):
            for combo in itertools.product(range(len(alphabet)), repeat=n):
                yield {"initial": init, "ops": [alphabet[c] for c in combo], "global": False}


# --------------------------------------------------------------------------
# update / merge / env / serialize


def ref_update(old, new, priority="new", defaults=None):
    """Written from the docstring of dask.config.update."""
    for k, v in new.items():
        # existing spelling of the key wins
        if k not in old and alt(k) in old:
            k = alt(k)
        if isinstance(v, dict):
            if not isinstance(old.get(k), dict):
                old[k] = {}
            ref_update(old[k], v, priority, (defaults or {}).get(k) if isinstance((defaults or {}).get(k), dict) else None)
        elif priority == "new" or k not in old:
            old[k] = v
        elif priority == "new-defaults" and defaults and k in defaults and defaults[k] == old[k]:
            old[k] = v
    return old


_leaf = st.one_of(st.integers(0, 5), st.none(), st.sampled_from(["s", "t", True]))
_ukeys = st.sampled_from(["a", "b", "c-d", "e"])
_nested = st.recursive(_leaf, lambda ch: st.dictionaries(_ukeys, ch, max_size=3), max_leaves=6)
_ndict = st.dictionaries(_ukeys, _nested, max_size=4)


def check_update(case):
    import dask.config as dc

    kind = case["kind"]
    if kind == "update":
        old, new, defaults = copy.deepcopy(case["old"]), copy.deepcopy(case["new"]), copy.deepcopy(case.get("defaults"))
        want = ref_update(copy.deepcopy(old), copy.deepcopy(new), case["priority"], copy.deepcopy(defaults))
        with impl("config.update", priority=case["priority"]):
            got = dc.update(old, new, priority=case["priority"], defaults=defaults)
        ensure(got == want, f"update({case['old']}, {case['new']}, priority={case['priority']}, defaults={defaults}) = {got}, reference {want}", "update-mismatch", priority=case["priority"])
        ensure(got is old, "update must operate in place and return old", "update-not-inplace")
        ensure(new == case["new"], "update mutated its `new` argument", "update-mutates-new")
    elif kind == "merge":
        dicts = [copy.deepcopy(d) for d in case["dicts"]]
        want = {}
        for d in case["dicts"]:
            ref_update(want, copy.deepcopy(d))
        with impl("config.merge"):
            got = dc.merge(*dicts)
        ensure(got == want, f"merge{tuple(case['dicts'])} = {got}, reference {want}", "merge-mismatch")
        ensure(dicts == case["dicts"], "merge mutated an input", "merge-mutates-input")
    elif kind == "spelling":
        old = {case["key"]: 1}
        with impl("config.update"):
            got = dc.update(old, {alt(case["key"]): 2})
        ensure(got == {case["key"]: 2}, f"update keeps the existing spelling: got {got}", "update-spelling")
    elif kind == "env":
        env = {k: v for k, v in case["env"]}
        dn = [canon_path(n[5:].lower().replace("__", ".")) for n in env if n.startswith("DASK_")]
        if any(p != q and q[: len(p)] == p for p in dn for q in dn):
            from vf.core import Reject

            raise Reject("contradictory environment (a value and a mapping for the same key)")
        with impl("collect_env"):
            got = dc.collect_env(env)
        for name, raw in env.items():
            if not name.startswith("DASK_"):
                continue
            path = name[5:].lower().replace("__", ".")
            try:
                want = ast.literal_eval(raw)
            except (SyntaxError, ValueError):
                want = {"none": None, "null": None, "false": False, "true": True}.get(raw.lower(), raw)
            # later variables may overwrite prefixes of earlier ones: only check leaves that survive
            others = [n[5:].lower().replace("__", ".") for n in env if n != name and n.startswith("DASK_")]
            pc = canon_path(path)
            if any(canon_path(o)[: len(pc)] == pc or pc[: len(canon_path(o))] == canon_path(o) for o in others):
                continue
            for sp in spellings(path):
                with impl("config.get"):
                    v = dc.get(sp, config=got)
                ensure(v == want and type(v) is type(want), f"collect_env({env}): get({sp!r}) = {v!r}, expected {want!r}", "env-value")
        for name in env:
            if not name.startswith("DASK_"):
                ensure(name.lower() not in got and name not in got, f"non-DASK variable {name} leaked into config", "env-leak")
    elif kind == "serialize":
        with impl("serialize/deserialize"):
            got = dc.deserialize(dc.serialize(case["data"]))
        ensure(got == case["data"], f"deserialize(serialize(x)) = {got!r} != {case['data']!r}", "serialize-roundtrip")
    elif kind == "expand":
        os.environ["VF_C17_VAR"] = "expanded"
        try:
            with impl("expand_environment_variables"):
                got = dc.expand_environment_variables(_to_live(case["data"]))
        finally:
            del os.environ["VF_C17_VAR"]
        want = _expand_ref(_to_live(case["data"]))
        ensure(got == want and type(got) is type(want), f"expand_environment_variables({case['data']}) = {got!r}, reference {want!r}", "expand-env")


def _to_live(x):
    if isinstance(x, dict) and "__tuple__" in x:
        return tuple(_to_live(v) for v in x["__tuple__"])
    if isinstance(x, dict):
        return {k: _to_live(v) for k, v in x.items()}
    if isinstance(x, list):
        return [_to_live(v) for v in x]
    return x


def _expand_ref(x):
    if isinstance(x, dict):
        return {k: _expand_ref(v) for k, v in x.items()}
    if isinstance(x, (list, tuple)):
        return type(x)(_expand_ref(v) for v in x)
    if isinstance(x, str):
        return x.replace("${VF_C17_VAR}", "expanded").replace("$VF_C17_VAR", "expanded")
    return x


_envval = st.sampled_from(["123", "1.5", "True", "true", "FALSE", "none", "Null", "hello", "[1, 2]", "{'a': 1}", "'quoted'", "a b", "1e3", "0x10", ""])
_envname = st.sampled_from(["DASK_VF_A", "DASK_VF_A__B_C", "DASK_VF__X__Y_Z", "DASK_VFQ", "DASK_VF_N__X", "OTHER_VAR", "DASKX_FOO"])


@st.composite
def update_case(draw):
    kind = draw(st.sampled_from(["update", "update", "merge", "spelling", "env", "env", "serialize", "expand"]))
    if kind == "update":
        c = {"kind": kind, "old": draw(_ndict), "new": draw(_ndict), "priority": draw(st.sampled_from(["new", "old", "new-defaults"]))}
        if c["priority"] == "new-defaults":
            # "a mapping of the current defaults": same structure as the config it describes,
            # some leaves differing (those the user changed)
            flips = draw(st.lists(st.booleans(), min_size=12, max_size=12))
            it = iter(flips)

            def perturb(d):
                out = {}
                for k, v in d.items():
                    if isinstance(v, dict):
                        out[k] = perturb(v)
                    else:
                        out[k] = "changed-by-user" if next(it, False) else v
                return out

            c["defaults"] = perturb(c["old"])
        return c
    if kind == "merge":
        return {"kind": kind, "dicts": draw(st.lists(_ndict, min_size=0, max_size=4))}
    if kind == "spelling":
        return {"kind": kind, "key": draw(st.sampled_from(["a-b", "a_b", "x-y-z", "x_y_z"]))}
    if kind == "env":
        names = draw(st.lists(_envname, min_size=1, max_size=4, unique=True))
        return {"kind": kind, "env": [[n, draw(_envval)] for n in names]}
    if kind == "serialize":
        return {"kind": kind, "data": draw(_ndict)}
    s = st.sampled_from(["plain", "$VF_C17_VAR", "pre-${VF_C17_VAR}-post", 3, None])
    data = draw(st.recursive(s, lambda ch: st.one_of(st.lists(ch, max_size=3), st.dictionaries(_ukeys, ch, max_size=3), st.lists(ch, max_size=2).map(lambda v: {"__tuple__": v})), max_leaves=5))
    return {"kind": kind, "data": data}


SUBCHECKS = [
    Sub("enum", check, kind="enum", cases=enum_cases, nontrivial=nontrivial, classes=classes, exhaustive=True, doc="all set/exit histories up to length 3 (quick) / 4 over a 10-op alphabet x 5 initial configs"),
    Sub("histories", check, strategy=lambda tier: history(), n={"quick": 3000, "thorough": 80000}, nontrivial=nontrivial, classes=classes, doc="random histories up to 10 ops, private and global config"),
    Sub(
        "functions",
        check_update,
        strategy=lambda tier: update_case(),
        n={"quick": 3000, "thorough": 60000},
        nontrivial=lambda c: c["kind"] in ("update", "merge", "env"),
        classes=lambda c: [c["kind"] + ("-" + c["priority"] if "priority" in c else "")],
        doc="update/merge vs docstring reference, collect_env/interpret_value, serialize round trip, expand_environment_variables",
    ),
]
