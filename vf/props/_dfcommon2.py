"""Helpers shared by the dataframe properties C39-C47 (owned by the df2 modules).

Adds to vf.frames:

* a source partitioning ``{"how": "bydivs", "pos": [...], "lo": k, "hi": k}`` that
  splits a frame with a sorted index *by index value* into a collection with
  KNOWN divisions, where partitions may be EMPTY (a division range without rows);
* ``partitions(ddf)``: every partition as its own pandas object;
* ``check_divisions_truthful``: the C41 oracle;
* small utilities (quiet(), row multiset helpers, shuffle config).
"""
from __future__ import annotations

import contextlib
import warnings

import numpy as np
import pandas as pd
from hypothesis import strategies as st

from vf import frames as F
from vf.core import Reject, Violation, ensure, short


@contextlib.contextmanager
def quiet():
    """pandas/NumPy warnings are not part of any oracle."""
    with warnings.catch_warnings():
        warnings.simplefilter("ignore")
        with np.errstate(all="ignore"):
            yield


def sync_scheduler(check):
    """Decorator for check functions: run everything under ``scheduler="sync"``, including the computations dask
    starts on its own while building a collection (quantile divisions of set_index/sort_values, ``.divisions``,
    ``optimize()``).  Without it those nested computes use the threaded scheduler; once the parent process has created
    dask's default thread pool (it runs the committed replays before the worker pool forks) the forked workers inherit
    a pool without threads and block forever in ``queue_get``."""
    import functools

    @functools.wraps(check)
    def wrapper(spec):
        import dask

        with dask.config.set(scheduler="sync"):
            return check(spec)

    return wrapper


def shift_value(v, k):
    """A value k 'units' away from index value v (ints: k, datetimes: k hours, str: suffix/prefix)."""
    if k == 0:
        return v
    if isinstance(v, pd.Timestamp):
        return v + pd.Timedelta(minutes=30 * k)
    if isinstance(v, str):
        return v + "~" * k if k > 0 else ""  # "" sorts before (or equals) every generated label
    if isinstance(v, (float, np.floating)):
        return float(v) + k
    return int(v) + k


def plain(v):
    if isinstance(v, np.generic):
        return v.item()
    return v


def division_vector(index, pos, lo=0, hi=0, single_last=False):
    """Sorted division vector for a sorted pandas index: first = index[0] shifted down by ``lo``,
    last = index[-1] shifted up by ``hi``, interior = distinct index values at row positions ``pos``."""
    first = shift_value(plain(index[0]), -lo)
    last = shift_value(plain(index[-1]), hi)
    inner = sorted({plain(index[min(max(p, 0), len(index) - 1)]) for p in pos})
    inner = [v for v in inner if first < v < last]
    d = [first] + inner + [last]
    if single_last and len(d) >= 2 and d[-2] != d[-1]:
        d.append(last)
    return d


def split_by_divisions(pdf, divs):
    """pieces[i] = rows with divs[i] <= index < divs[i+1] (last piece closed)."""
    pieces = []
    idx = pdf.index
    nparts = len(divs) - 1
    for i in range(nparts):
        lo, hi = divs[i], divs[i + 1]
        a = idx.searchsorted(lo, side="left")
        if i == nparts - 1:
            b = idx.searchsorted(hi, side="right")
        else:
            b = idx.searchsorted(hi, side="left")
        pieces.append(pdf.iloc[a:b])
    return pieces


def build_ddf(spec, pdf=None):
    """vf.frames.build_ddf plus the value based 'bydivs' partitioning."""
    import dask.dataframe as dd

    if pdf is None:
        pdf = F.build_pdf(spec)
    p = spec.get("partition", {"how": "npartitions", "n": 2})
    if p["how"] != "bydivs":
        ddf = F.build_ddf(spec, pdf)
    else:
        if not (len(pdf) and pdf.index.is_monotonic_increasing):
            raise Reject("bydivs needs a non-empty sorted index")
        divs = division_vector(pdf.index, p.get("pos", []), p.get("lo", 0), p.get("hi", 0), p.get("single_last", False))
        pieces = split_by_divisions(pdf, divs)
        assert sum(map(len, pieces)) == len(pdf), (divs, list(map(len, pieces)))
        ddf = dd.from_map(F._Piece(pieces), list(range(len(pieces))), meta=pdf.iloc[:0], divisions=tuple(divs))
    if p.get("clear"):
        ddf = ddf.clear_divisions()
    return ddf


def piece_lengths(spec, pdf):
    """Row counts of the source partitions (without computing anything with dask), or None."""
    p = spec.get("partition", {})
    if p.get("how") == "bydivs":
        divs = division_vector(pdf.index, p.get("pos", []), p.get("lo", 0), p.get("hi", 0), p.get("single_last", False))
        return [len(x) for x in split_by_divisions(pdf, divs)]
    if p.get("how") == "cuts":
        cuts = [0] + sorted(min(max(c, 0), len(pdf)) for c in p["cuts"]) + [len(pdf)]
        return [b - a for a, b in zip(cuts, cuts[1:])]
    return None


@st.composite
def bydivs_partition(draw, nrows):
    return {
        "how": "bydivs",
        "pos": draw(st.lists(st.integers(0, max(nrows - 1, 0)), min_size=0, max_size=5)),
        "lo": draw(st.sampled_from([0, 0, 1, 3])),
        "hi": draw(st.sampled_from([0, 0, 1, 3])),
        "single_last": draw(st.sampled_from([False, False, True])),
    }


SORTED_INDEX = ("range", "sorted_unique", "sorted_dups", "datetime", "str")


@st.composite
def sorted_frame_spec(draw, min_rows=1, max_rows=30, kinds=("int", "float", "str", "key"), index_kinds=SORTED_INDEX, max_cols=3, p_bydivs=0.5, required=None, allow_cuts=True):
    """Frame with a sorted index; about half of the time partitioned by value with known divisions and empty partitions."""
    spec = draw(F.frame_spec(min_rows=min_rows, max_rows=max_rows, kinds=kinds, max_cols=max_cols, index_kinds=index_kinds, required=required, allow_cuts=allow_cuts))
    if draw(st.integers(0, 99)) < 100 * p_bydivs:
        spec["partition"] = draw(bydivs_partition(spec["nrows"]))
    return spec


def partitions(ddf):
    """Every partition of the collection as a pandas object (one graph, one result per partition)."""
    import dask

    parts = ddf.to_delayed()
    return list(dask.compute(*parts, scheduler="sync"))


def divisions_known(divs):
    return len(divs) > 0 and not any(d is None for d in divs) and not any(_isnan(d) for d in divs)


def _isnan(d):
    try:
        return bool(pd.isna(d))
    except (TypeError, ValueError):
        return False


def check_divisions_truthful(ddf, what, sig, parts=None):
    """The C41 oracle.  Returns the list of computed partitions."""
    divs = tuple(ddf.divisions)
    ensure(ddf.npartitions == len(divs) - 1, f"{what}: npartitions={ddf.npartitions} but {len(divs)} divisions {short(divs)}", "npartitions-vs-divisions", **sig)
    if parts is None:
        parts = partitions(ddf)
    ensure(len(parts) == ddf.npartitions, f"{what}: {len(parts)} computed partitions, npartitions={ddf.npartitions}", "partition-count", **sig)
    if not divisions_known(divs):
        return parts
    ensure(all(a <= b for a, b in zip(divs, divs[1:])), f"{what}: divisions not sorted {short(divs)}", "divisions-not-sorted", **sig)
    # (repeated interior divisions are truthful as long as the partition between them is empty, which the interval
    # test below enforces; set_index(sorted=True) produces e.g. (0, 0, 2, 2) when equal values straddled partitions)
    n = len(parts)
    for i, part in enumerate(parts):
        idx = part.index if not isinstance(part, pd.Index) else part
        if len(idx) == 0:
            continue
        lo, hi = idx.min(), idx.max()
        ctx = f"{what}: partition {i} of {n} has index range [{lo!r}, {hi!r}], divisions {short(divs)}"
        ensure(not idx.hasnans, f"{what}: partition {i} has missing index values under known divisions", "na-in-index", **sig)
        ensure(lo >= divs[i], ctx, "below-division", **sig)
        if i == n - 1:
            ensure(hi <= divs[i + 1], ctx, "above-division", **sig)
        else:
            ensure(hi < divs[i + 1], ctx, "above-division", **sig)
    return parts


def concat_parts(parts, meta=None):
    nonempty = [p for p in parts if len(p)]
    if not nonempty:
        return parts[0] if parts else meta
    return pd.concat(nonempty)


def row_multiset(df, with_index=True):
    """Hashable multiset representation of the rows of a frame/series (NaN == NaN)."""
    if isinstance(df, pd.Series):
        df = df.to_frame("__v__")
    if with_index:
        df = df.copy()
        df.columns = [f"c{i}" for i in range(df.shape[1])]  # an index name may equal a column name (set_index(drop=False))
        df.index = df.index.rename("__index__")
        df = df.reset_index()
    rows = {}
    for tup in df.itertuples(index=False, name=None):
        k = tuple("<NA>" if F._isna(v) else (repr(v) if not isinstance(v, (float, np.floating)) else repr(round(float(v), 9))) for v in tup)
        rows[k] = rows.get(k, 0) + 1
    return rows


def check_dtypes(got, want, meta, what, sig):
    """dtypes must equal pandas', except for the data dependent pandas upcast that happens when a partition-local
    pandas call sees no rows (DESIGN 4.4 / 8.6): accepted only if dask's own ``_meta`` announces the computed dtype."""
    if isinstance(want, pd.Series):
        pairs = [(want.name, got.dtype, want.dtype, getattr(meta, "dtype", None))]
    else:
        pairs = [(c, got.dtypes.iloc[i], want.dtypes.iloc[i], meta.dtypes.iloc[i] if meta is not None and i < len(meta.dtypes) else None) for i, c in enumerate(want.columns)]
    for c, g, w, m in pairs:
        if g == w:
            continue
        if isinstance(g, pd.CategoricalDtype) and isinstance(w, pd.CategoricalDtype) and set(g.categories) == set(w.categories) and g.ordered == w.ordered:
            continue  # category order is a label freedom
        ensure(m is not None and g == m, f"{what}: column {c!r} has dtype {g}, pandas {w}, dask meta {m}", "dtype-mismatch", **sig)


def same_rows(got, want, *, what, sig, with_index, ordered=False, meta=None, rtol=1e-9):
    """Rows equal pandas as a multiset (or in order), values compared dtype-agnostically, dtypes by check_dtypes."""
    if list(got.columns) != list(want.columns):
        raise Violation(f"{what}: columns {list(got.columns)} != pandas {list(want.columns)}", "columns-mismatch", **sig)
    if len(got) != len(want):
        raise Violation(f"{what}: {len(got)} rows, pandas {len(want)}\n dask:\n{F._show(got)}\n pandas:\n{F._show(want)}", "row-count", **sig)
    check_dtypes(got, want, meta, what, sig)
    g, w = got, want
    cats = [c for c in w.columns if isinstance(w[c].dtype, pd.CategoricalDtype) or isinstance(g[c].dtype, pd.CategoricalDtype)]
    if cats:
        g, w = g.astype({c: object for c in cats}), w.astype({c: object for c in cats})
    if with_index:
        ensure(g.index.name == w.index.name, f"{what}: index name {g.index.name!r} != {w.index.name!r}", "index-name", **sig)
    F.assert_eq(g, w, what=what, check_index=with_index, check_order=ordered, check_dtype=False, check_categorical=False, rtol=rtol, sig=sig)
