"""C48 — bag operations equal their plain-Python reference.

A case is a JSON spec {"src": source, "ops": [op, ...]}: a source sequence with
a partitioning (explicit piece sizes through ``from_delayed`` — the way to get
EMPTY partitions —, ``from_sequence(partition_size=)`` or
``from_sequence(npartitions=)``) and a pipeline of 1-3 bag operations, every
function named (module-level functions of ``_bagcommon``).  The reference
(``_bagcommon.ref_step``) is itertools/functools/collections on the
concatenated sequence.  Computation uses scheduler="sync".

Comparison: element-for-element where the bag promises order (sources, map,
filter, pluck, flatten, accumulate, take, zip, concat, repartition, ...), as a
multiset after groupby, distinct, frequencies, foldby, join, product, topk and
``reduction(out_type=Bag)``; inside a groupby group the elements are compared
as a multiset too.  ``distinct(key=)`` and ``topk(key=)`` may keep any
representative of a key class / any of several tied elements, so they are
judged on keys (and membership) and are only generated as the last operation.
Floats (mean/var/std) are compared with rel/abs tolerance 1e-9 against exact
rational arithmetic.

Failure classification (findings/C48.json): a failing case is attributed to a
``cause`` only by ``_cause`` below — for the two one-shot-iterator classes
differentially (the same pipeline with concrete partitions must pass), for
``accumulate`` by asking dask for the length of partition 0, for ``fold`` by the
raise site.  A failure that is not explained that way keeps ``cause=None`` and
its full signature, and is reported.

Preconditions taken from the documentation, not from the implementation:
* fold/foldby ``initial`` values are identity elements of the operator (the
  docs: "often 0 or the identity element"; a non-identity initial is applied
  once per partition by design);
* non-commutative binops (string/tuple/list concatenation) only in ``fold`` and
  ``accumulate`` on bags that still promise order (the ``fold`` docstring
  spells out the sequential left-to-right meaning); ``foldby`` only with
  commutative+associative operators;
* ``map_partitions`` functions are homomorphic for concatenation, so that "the
  plain-Python computation on the concatenated sequence" is well defined;
* ``zip``/multi-bag ``map`` only combine bags derived from the same bag by
  length-preserving maps ("corresponding partitions should have the same
  length");
* ``take(k, npartitions=m)`` with m != -1 only while the partition layout is
  known from documented behaviour;
* max/min/mean/var/fold-without-initial of an EMPTY bag are rejected (plain
  Python has no answer either).
"""
from __future__ import annotations

import math
import os
import shutil

from hypothesis import strategies as st

from vf.core import Reject, Sub, Violation, ensure, impl, short
from vf.props import _bagcommon as B
from vf.props._bagcommon import Final, Ref, ref_step, source_ref

PROPERTY = "C48"
LEVEL = "exploration"
PRELOAD = ["dask.bag", "partd"]
TECHNIQUE = "differential testing against a plain-Python reference: exhaustive partition layouts x single operations + Hypothesis-generated typed pipelines"
RULE = (
    "layouts (EXHAUSTIVE): for each element kind (int, str, pair, dict, list-of-ints) one fixed sequence of 4 (thorough: 5) "
    "elements with duplicates x EVERY layout into 1..3 (thorough 1..4) partitions, empty partitions included, x every "
    "applicable single operation from a fixed catalogue (75-190 per kind: all op families of the statement with "
    "representative parameters: split_every None/2, groupby tasks max_branch None/2 and disk, take with npartitions, ...); "
    "pairs (EXHAUSTIVE over its catalogue): two-operation pipelines (first/last variant of every bag-valued family followed by "
    "first/last variant of every family, plus every variant that reads its input bag twice) on the layouts [4] and [2,0,2]; "
    "random: sequences of 0..12 ints/strings/pairs/dicts/lists (empty source: ~5 % of the cases), 1..6 partitions from explicit sizes (zeros allowed), "
    "partition_size or npartitions, typed pipelines of 1-3 operations drawn from the catalogue with drawn parameters "
    "(second bags for join/product/concat drawn too).  Non-trivial: a reducing operation (fold, reduction, foldby, distinct, "
    "frequencies, topk, count/sum/max/min/mean/var/std/any/all) applied to a bag whose known layout has an empty AND a non-empty "
    "partition, or a task-shuffle groupby with more partitions than max_branch (multi-stage shuffle)."
)
ASSUMPTIONS = [
    "functions are module-level and named in the spec; map_partitions functions are concatenation-homomorphic",
    "initial values are identity elements; non-commutative operators only for fold/accumulate on order-preserving bags",
    "order inside a groupby group, the representative kept by distinct(key=) and the choice among topk(key=) ties are not promised",
    "partition layout is taken as known only for from_delayed pieces and from_sequence(partition_size=)",
    "disk shuffles write under /var/tmp/vf-c48/<pid>/ (removed after each case)",
]

SCRATCH = "/var/tmp/vf-c48"
KINDS = ["int", "str", "pair", "dict", "ilist"]


def TEARDOWN():
    # per-pid directories are removed by the workers after each case; drop the (empty) base directory
    try:
        os.rmdir(SCRATCH)
    except OSError:
        pass


# ----------------------------------------------------------------- catalogue of operations
def _se(rich):
    return [None, 2, 3, False] if rich else [None, 2]


def catalogue(R, aux, rich=False):
    """family -> list of op specs applicable to the reference state R.
    aux: {"other": {kind: source spec of a second bag of that kind}}"""
    t = R.type
    n = len(R.flat)
    base = t in KINDS
    fam = {}

    def put(name, ops):
        ops = [o for o in ops if o is not None]
        if ops:
            fam[name] = ops

    # --- elementwise
    if t in B.MAPS:
        ops = [{"op": "map", "fn": f, "out": o} for f, o in B.MAPS[t]]
        if t == "int":
            ops += [
                {"op": "map", "fn": "add", "out": "int", "extra": {"kind": "const", "value": 3}},
                {"op": "map", "fn": "addk", "out": "int", "extra": {"kind": "kwconst", "value": 2}},
                {"op": "map", "fn": "add", "out": "int", "extra": {"kind": "bag", "fn": "double"}},
                {"op": "map", "fn": "mul", "out": "int", "extra": {"kind": "bag", "fn": "inc"}},
                {"op": "map", "fn": "addk", "out": "int", "extra": {"kind": "kwbag", "fn": "neg"}},
                {"op": "map", "fn": "add", "out": "int", "extra": {"kind": "self"}},
                {"op": "map", "fn": "add", "out": "int", "extra": {"kind": "item", "red": "sum"}},
                {"op": "map", "fn": "add", "out": "int", "extra": {"kind": "item", "red": "count"}},
                {"op": "map", "fn": "maxf", "out": "int", "extra": {"kind": "item", "red": "max"}} if n else None,
            ]
        put("map", ops)
    if t == "pair":
        put("starmap", [
            {"op": "starmap", "fn": "add"}, {"op": "starmap", "fn": "mul"},
            {"op": "starmap", "fn": "add3k", "z": 10}, {"op": "starmap", "fn": "add3k", "zitem": "sum"},
        ])
    if t in B.PREDS:
        put("filter", [{"op": "filter", "fn": f} for f in B.PREDS[t]])
        put("remove", [{"op": "remove", "fn": f} for f in B.PREDS[t]])
    mp = [{"op": "map_partitions", "fn": f} for f in ("mp_gen", "mp_list", "mp_dupe")]
    if base:
        mp.append({"op": "map_partitions", "fn": "mp_truthy"})
    if t == "int":
        mp += [
            {"op": "map_partitions", "fn": "mp_inc"},
            {"op": "map_partitions", "fn": "mp_addn", "extra": {"kind": "const", "value": 5}},
            {"op": "map_partitions", "fn": "mp_addn", "extra": {"kind": "kwconst", "value": 4}},
            {"op": "map_partitions", "fn": "mp_addn", "extra": {"kind": "item", "red": "sum"}},
            {"op": "map_partitions", "fn": "mp_addn", "extra": {"kind": "kwitem"}},
            {"op": "map_partitions", "fn": "mp_zipadd", "other_fn": "double"},
            {"op": "map_partitions", "fn": "mp_zipadd", "other_fn": "inc", "kw": True},
        ]
    put("map_partitions", mp)
    if t == "pair":
        put("pluck", [
            {"op": "pluck", "key": 0, "out": "int"}, {"op": "pluck", "key": 1, "out": "int"},
            {"op": "pluck", "key": [1, 0], "out": "pair"}, {"op": "pluck", "key": 5, "default": -7, "out": "int"},
        ])
    if t == "dict":
        put("pluck", [
            {"op": "pluck", "key": "k", "out": "int"}, {"op": "pluck", "key": "v", "out": "int"},
            {"op": "pluck", "key": "z", "default": -1, "out": "int"}, {"op": "pluck", "key": ["k", "v"], "out": "pair"},
        ])
    if t in ("ilist", "pair", "str"):
        put("flatten", [{"op": "flatten", "out": {"ilist": "int", "pair": "int", "str": "str"}[t]}])
    # --- reducing, bag-valued
    if t in B.HASHABLE:
        put("distinct", [{"op": "distinct"}] + [{"op": "distinct", "key": k} for k in B.KEYS[t][:2]])
        put("frequencies", [{"op": "frequencies", "split_every": se, "sort": i % 2 == 1} for i, se in enumerate(_se(rich))])
    if t == "dict":
        put("distinct", [{"op": "distinct", "key": "k", "key_is_str": True}, {"op": "distinct", "key": "getk"}])
    if t in B.ORDERABLE:
        ks = sorted({0, 1, 2, n, n + 2})
        ops = [{"op": "topk", "k": k, "split_every": se} for k in ks for se in _se(rich)[:2]]
        keyf = {"int": ["neg", "mod3"], "str": ["strlen"], "pair": ["second"]}[t]
        ops += [{"op": "topk", "k": k, "key": kf, "split_every": None} for k in (1, 2, n) for kf in keyf]
        put("topk", ops)
    if t == "dict":
        put("topk", [{"op": "topk", "k": k, "key": "getv", "split_every": se} for k in (1, 2) for se in (None, 2)])
    # --- fold / reduction / foldby
    folds = []
    if t == "int":
        folds = [("add", None, False, None, False), ("add", None, True, 0, False), ("maxf", None, False, None, False),
                 ("minf", None, False, None, False), ("mul", None, True, 1, False), ("count_binop", "add", True, 0, False)]
    elif t == "str":
        folds = [("add", None, False, None, True), ("add", None, True, "", True), ("addlen", "add", True, 0, False),
                 ("maxf", None, False, None, False)]
    elif t == "pair":
        folds = [("add", None, False, None, True), ("add_second", "add", True, 0, False), ("maxf", None, False, None, False)]
    elif t == "ilist":
        folds = [("add", None, False, None, True), ("add", None, True, [], True)]
    elif t == "dict":
        folds = [("add_v", "add", True, 0, False)]
    ops = []
    for binop, combine, has_init, init, order_sensitive in folds:
        if order_sensitive and not R.ordered:
            continue
        if not has_init and n == 0:
            continue
        for se in _se(rich):
            o = {"op": "fold", "binop": binop, "split_every": se}
            if combine:
                o["combine"] = combine
            if has_init:
                o["initial"] = init
            ops.append(o)
    put("fold", ops)
    if base:
        ops = [{"op": "reduction", "per": "count_it", "agg": "sum", "split_every": se} for se in _se(rich)]
        ops += [{"op": "reduction", "per": "list_it", "agg": "concat_lists", "split_every": se} for se in _se(rich)]
        if t == "int":
            ops += [{"op": "reduction", "per": p, "agg": "sum", "split_every": se} for p in ("sum", "sumsq") for se in _se(rich)]
            if n:
                ops += [{"op": "reduction", "per": p, "agg": p, "split_every": se} for p in ("max", "min") for se in _se(rich)]
        put("reduction", ops)
    fb = []
    if t == "int":
        for key in B.KEYS["int"]:
            fb += [dict(key=key, binop="add"), dict(key=key, binop="add", initial=0), dict(key=key, binop="maxf"),
                   dict(key=key, binop="count_binop", initial=0, combine="add"),
                   dict(key=key, binop="count_binop", initial=0, combine="add", combine_initial=0)]
    elif t == "str":
        for key in ("strlen", "first_char"):
            fb += [dict(key=key, binop="addlen", initial=0, combine="add"), dict(key=key, binop="maxf"),
                   dict(key=key, binop="addlen", initial=0, combine="add", combine_initial=0)]
    elif t == "pair":
        fb += [dict(key="first", binop="add_second", initial=0, combine="add"), dict(key="first", binop="maxf"),
               dict(key="first", binop="add_second", initial=0, combine="add", combine_initial=0)]
    elif t == "dict":
        fb += [dict(key="k", key_is_str=True, binop="add_v", initial=0, combine="add"),
               dict(key="getk", binop="add_v", initial=0, combine="add", combine_initial=0)]
    put("foldby", [dict(op="foldby", split_every=se, **f) for f in fb for se in _se(rich)])
    # --- shuffles
    if t in B.KEYS:
        ops = []
        for key in B.KEYS[t]:
            for mb in ([None, 2, 2, 3] if rich else [None, 2]):
                ops.append({"op": "groupby", "key": key, "shuffle": "tasks", "max_branch": mb})
            # blocksize: the default (2**20) costs ~0.3 s per partition (toolz.partition_all pads to 2**20), so it is
            # used in one variant of the random tier only; 1 and 2 make `partition` append several blocks per partition
            # (every append is an fsync, hence few disk variants in the enumerations)
            for npart in ([None, 1, 2, 3] if rich else [None]):
                ops.append({"op": "groupby", "key": key, "shuffle": "disk", "npartitions": npart, "blocksize": 1000})
            if rich or key == B.KEYS[t][0]:
                ops.append({"op": "groupby", "key": key, "shuffle": "disk", "npartitions": 3, "blocksize": 1})
                ops.append({"op": "groupby", "key": key, "shuffle": "disk", "npartitions": 2, "blocksize": 2})
        if rich:
            ops.append({"op": "groupby", "key": B.KEYS[t][0], "shuffle": "disk", "npartitions": 2})
        put("groupby", ops)
        od = aux["other"][t]["data"]
        ops = []
        for how in ("list", "tuple", "bag", "delayed"):
            for key in B.KEYS[t][:2]:
                ops.append({"op": "join", "other_kind": t, "other_data": od, "other_as": how, "on_self": key})
        ops.append({"op": "join", "other_kind": t, "other_data": od, "other_as": "list", "on_self": B.KEYS[t][0], "on_other": B.KEYS[t][0]})
        put("join", ops)
    if n <= 8 and t != "grp":
        # (not after groupby: the order inside a group is free and would be nested inside the product's tuples)
        ops = [{"op": "product", "other": "self"}]
        for k in ("int", "str"):
            ops.append({"op": "product", "other": aux["other"][k]})
        put("product", ops)
    # --- order-dependent
    if R.ordered:
        if t == "int":
            put("accumulate", [{"op": "accumulate", "binop": "add"}, {"op": "accumulate", "binop": "add", "initial": 10},
                               {"op": "accumulate", "binop": "maxf"}, {"op": "accumulate", "binop": "mul", "initial": 1},
                               {"op": "accumulate", "binop": "minf", "initial": 2}])
        if t == "str":
            put("accumulate", [{"op": "accumulate", "binop": "add"}, {"op": "accumulate", "binop": "add", "initial": "z"}])
        ops = []
        for k in (sorted({0, 1, 2, n, n + 1}) if rich else sorted({0, 2, n + 1})):
            for compute in (True, False):
                if not rich and not compute and k != 2:
                    continue
                ops.append({"op": "take", "k": k, "npartitions": -1, "compute": compute})
                if R.parts is not None:
                    for m in sorted({1, 2, len(R.parts)}):
                        if m <= len(R.parts):
                            ops.append({"op": "take", "k": k, "npartitions": m, "compute": compute})
        put("take", ops)
    put("repartition", [{"op": "repartition", "npartitions": m} for m in (1, 2, 3, 5, 7)]
        + [{"op": "repartition", "partition_size": s} for s in (60, 200, 1000, "1kB")])
    if t == "int":
        put("zip", [{"op": "zip", "fns": ["inc"], "out": "pair"}, {"op": "zip", "fns": [], "self_twice": True, "out": "pair"}, {"op": "zip", "fns": ["double", "neg"], "out": "tup"},
                    {"op": "zip", "fns": ["tostr"], "out": "tup"}])
    if t == "str":
        put("zip", [{"op": "zip", "fns": ["strlen"], "out": "tup"}, {"op": "zip", "fns": [], "self_twice": True, "out": "tup"}, {"op": "zip", "fns": ["upper", "strlen"], "out": "tup"}])
    ops = [{"op": "concat", "others": ["self"]}, {"op": "concat", "others": ["self", "self"]}]
    if base:
        o = aux["other"][t]
        ops += [{"op": "concat", "others": [o]}, {"op": "concat", "others": [o, "self"]}]
    put("concat", ops)
    # --- summary statistics
    st_ops = [{"op": "count", "split_every": se} for se in _se(rich)]
    if t == "int":
        st_ops += [{"op": "sum", "split_every": se} for se in _se(rich)]
        if n:
            st_ops += [{"op": "mean"}, {"op": "var"}, {"op": "std"}]
        if n > 1:
            st_ops += [{"op": "var", "ddof": 1}, {"op": "std", "ddof": 1}]
    if t in B.ORDERABLE and n:
        st_ops += [{"op": o, "split_every": se} for o in ("max", "min") for se in _se(rich)]
    if t in ("int", "str", "ilist"):
        st_ops += [{"op": o, "split_every": se} for o in ("any", "all") for se in _se(rich)[:2]]
    put("stats", st_ops)
    return fam


LAST_ONLY = lambda op: op["op"] in ("distinct", "topk") and op.get("key") is not None  # noqa: E731


# ----------------------------------------------------------------- check
def _run_reference(spec):
    R = source_ref(spec["src"])
    trace = []
    cur = R
    for i, op in enumerate(spec["ops"]):
        if isinstance(cur, Final):
            raise Reject("operation after a final value (shrunk spec)")
        if LAST_ONLY(op) and i != len(spec["ops"]) - 1:
            raise Reject("distinct(key)/topk(key) only as last operation")
        trace.append((op, cur))
        cur = ref_step(cur, op)
    return trace, cur


def _has_mixed_empty(R):
    return R.parts is not None and any(not p for p in R.parts) and any(p for p in R.parts)


def _multi_stage(op, R):
    return op["op"] == "groupby" and op["shuffle"] == "tasks" and op.get("max_branch") and R.nparts is not None and R.nparts > op["max_branch"]


def _same_key_twice(op):
    n = op["op"]
    return (
        (n == "product" and op["other"] == "self")
        or (n == "zip" and op.get("self_twice"))
        or (n == "map" and (op.get("extra") or {}).get("kind") == "self")
    )


def _reads_twice(op):
    """the operation uses its input bag in two places of the graph"""
    n = op["op"]
    if n == "concat":
        return "self" in op["others"]
    if n == "product":
        return True  # every partition of the bag is read once per partition of the other bag
    if n == "zip":
        return True
    if n == "map":
        return (op.get("extra") or {}).get("kind") in ("bag", "kwbag", "item", "self")
    if n == "starmap":
        return "zitem" in op
    if n == "map_partitions":
        return op["fn"] == "mp_zipadd" or (op.get("extra") or {}).get("kind") in ("item", "kwitem")
    return False


def _shared_iterator(ops):
    """a generator-valued partition (map_partitions with a generator function) reaches an operation that reads the bag
    twice; repartition and concat in between may pass partitions through as aliases"""
    for i, a in enumerate(ops):
        if a["op"] == "map_partitions" and a["fn"] == "mp_gen":
            for b in ops[i + 1 :]:
                if _reads_twice(b):
                    return True
                if b["op"] not in ("repartition", "concat"):
                    break
    return False


def _sig(spec, trace):
    src_parts = B.layout_parts(spec["src"]["data"], spec["src"]["part"])
    names = [op["op"] for op in spec["ops"]]
    return dict(
        ops="+".join(names),
        kind=spec["src"]["kind"],
        empty_partition=any(R.parts is not None and any(not p for p in R.parts) for _, R in trace),
        empty_first_partition=bool(src_parts) and not src_parts[0] and len(src_parts) > 1,
        multi_stage_shuffle=any(_multi_stage(op, R) for op, R in trace),
        # a reducing operation sees a bag without any element
        empty_bag=any(op["op"] in B.REDUCING and not R.flat for op, R in trace),
        # a partition that is a one-shot iterator (map_partitions function returning a generator, which the docs allow)
        # is consumed by an operation that reads the bag twice
        shared_iterator_partition=_shared_iterator(spec["ops"]),
        # one task references the same partition of the same bag twice (zip(x, x), x.product(x), map(f, x, x))
        same_key_twice_in_task=any(_same_key_twice(op) for op in spec["ops"][1:]),
        # set by _classify_accumulate after a failure: an accumulate without initial whose FIRST partition is empty
        accumulate_empty_first_partition=False,
    )


def _classify_accumulate(spec, sig):
    """Failure classification only (never part of the oracle): does an `accumulate` without initial value meet an empty
    first partition followed by other partitions?  Partition lengths are asked from dask because filters make them
    data-dependent and from_sequence(npartitions=)/repartition layouts are not documented."""
    try:
        b = B.build_source(spec["src"])
        for op in spec["ops"]:
            if op["op"] == "accumulate" and "initial" not in op:
                lens = b.map_partitions(B.count_list).compute(scheduler="sync")
                if len(lens) > 1 and lens[0] == 0:
                    sig["accumulate_empty_first_partition"] = True
                    return
            b = B.dask_step(b, op)
    except Exception:  # noqa: BLE001 - classification is best effort
        pass


def _concrete_variant(spec, insert_lists):
    """The same pipeline with concrete partitions where the failure classes below need one-shot iterators:
    generator-returning map_partitions functions replaced by their list-returning twin and (insert_lists) an explicit
    ``map_partitions(mp_list)`` in front of every operation that puts one partition twice into one task.  Both
    changes are identities for the reference."""
    ops = []
    for i, op in enumerate(spec["ops"]):
        if op["op"] == "map_partitions" and op["fn"] == "mp_gen":
            op = dict(op, fn="mp_list")
        if insert_lists and i > 0 and _same_key_twice(op):
            ops.append({"op": "map_partitions", "fn": "mp_list"})
        ops.append(op)
    return {"src": spec["src"], "ops": ops}


def _passes(spec):
    try:
        _check(spec)
    except Violation:
        return False
    return True


def _cause(spec, sig):
    """Failure classification only (never part of the oracle): attribute a failure to one of the identified input
    classes, or to none.  The two iterator classes are decided DIFFERENTIALLY: the failure must disappear when the
    partitions are made concrete and nothing else changes; otherwise the failure is something else and is reported
    with its full signature."""
    if sig.get("shared_iterator_partition") is True:
        if _passes(_concrete_variant(spec, False)):
            return "iterator-partition-read-twice"
    if sig.get("same_key_twice_in_task") is True:
        if _passes(_concrete_variant(spec, True)):
            return "lazy-partition-twice-in-one-task"
    if sig.get("accumulate_empty_first_partition") is True and sig.get("symptom") == "raises:TypeError":
        return "accumulate-empty-first-partition"
    if sig.get("empty_bag") is True and sig.get("where") == "bag/core.py:_reduce" and sig.get("symptom") == "raises:TypeError":
        return "fold-initial-all-partitions-empty"
    return None


def check(spec):
    try:
        _check(spec)
    except Violation as v:
        if any(op["op"] == "accumulate" for op in spec["ops"]):
            _classify_accumulate(spec, v.sig)
        sig = v.sig
        cause = _cause(spec, sig)
        sig["cause"] = cause
        if cause is not None:
            # the failure belongs to an identified input class: the surrounding pipeline is irrelevant, keep the
            # signature low-cardinality (one bucket per cause and symptom)
            for k in ("ops", "kind", "empty_partition", "empty_first_partition", "multi_stage_shuffle", "where", "empty_bag",
                      "shared_iterator_partition", "same_key_twice_in_task", "accumulate_empty_first_partition"):
                if k in sig:
                    sig[k] = "*"
        raise


def _check(spec):
    import dask

    trace, want = _run_reference(spec)
    sig = _sig(spec, trace)
    tmp = os.path.join(SCRATCH, str(os.getpid()), "c48")
    uses_disk = any(op["op"] == "groupby" and op["shuffle"] == "disk" for op in spec["ops"])
    if uses_disk:
        os.makedirs(tmp, exist_ok=True)
    try:
        with dask.config.set(scheduler="sync", temporary_directory=tmp if uses_disk else None):
            with impl("bag pipeline", **sig):
                b = B.build_source(spec["src"])
                for op in spec["ops"]:
                    b = B.dask_step(b, op)
                got = list(b) if isinstance(b, tuple) else b.compute(scheduler="sync")
    finally:
        if uses_disk:
            shutil.rmtree(tmp, ignore_errors=True)
            try:
                os.rmdir(os.path.dirname(tmp))
            except OSError:
                pass
    desc = f"{spec['src']['kind']} bag {spec['src']['data']!r} [{spec['src']['part']}] |> " + " |> ".join(short(o, 160) for o in spec["ops"])
    if isinstance(want, Final):
        if want.how == "float":
            ensure(isinstance(got, float), f"{desc}: computed {got!r}, expected the float {want.value!r}", "result-type", **sig)
            ensure(math.isclose(got, want.value, rel_tol=1e-9, abs_tol=1e-9), f"{desc}: computed {got!r}, reference {want.value!r}", "wrong-value", **sig)
            return
        ensure(B.ck(got) == B.ck(want.value), f"{desc}: computed {short(got)}, reference {short(want.value)}", "wrong-value", **sig)
        return
    ensure(isinstance(got, list), f"{desc}: computing the bag gave {type(got).__name__}: {short(got)}", "result-type", **sig)
    if hasattr(want, "distinct_key"):
        kf = want.distinct_key
        keys = [kf(x) for x in got]
        ensure(len(set(keys)) == len(keys), f"{desc}: result {short(got)} repeats a key", "distinct-repeats", **sig)
        ensure(set(keys) == {kf(x) for x in want.population}, f"{desc}: result {short(got)} does not cover exactly the keys of the bag", "distinct-keys", **sig)
        extra, _ = B.multiset_diff([B.ck(x) for x in got], [B.ck(x) for x in want.population])
        ensure(not extra, f"{desc}: result {short(got)} contains elements that are not in the bag", "not-from-bag", **sig)
        return
    if hasattr(want, "topk_key"):
        key = want.topk_key
        gk = sorted((B.ck(key(x)) for x in got), reverse=True)
        wk = sorted((B.ck(key(x)) for x in want.flat), reverse=True)
        ensure(gk == wk, f"{desc}: keys of the result {short(got)} are {gk}, the k largest keys are {wk}", "wrong-elements", **sig)
        extra, _ = B.multiset_diff([B.ck(x) for x in got], [B.ck(x) for x in want.population])
        ensure(not extra, f"{desc}: result {short(got)} contains elements that are not in the bag", "not-from-bag", **sig)
        return
    g, w = B.canon_elements(want.type, got), B.canon_elements(want.type, want.flat)
    if want.ordered:
        if g != w:
            sym = "wrong-order" if sorted(g) == sorted(w) else "wrong-elements"
            raise Violation(f"{desc}: computed {short(got)}, reference (ordered) {short(want.flat)}", sym, **sig)
    else:
        if sorted(g) != sorted(w):
            raise Violation(f"{desc}: computed {short(got)}, reference (as a multiset) {short(want.flat)}", "wrong-elements", **sig)


def nontrivial(spec):
    try:
        trace, _ = _run_reference(spec)
    except Reject:
        return False
    return any((op["op"] in B.REDUCING and _has_mixed_empty(R)) or _multi_stage(op, R) for op, R in trace)


def classes(spec):
    yield "kind-" + spec["src"]["kind"]
    yield "src-" + spec["src"]["part"]["how"]
    yield f"pipeline-{len(spec['ops'])}"
    for op in spec["ops"]:
        yield "op-" + op["op"]
        if op["op"] == "groupby":
            yield "groupby-" + op["shuffle"]
    try:
        trace, _ = _run_reference(spec)
    except Reject:
        yield "rejected"
        return
    if any(R.parts is not None and any(not p for p in R.parts) for _, R in trace):
        yield "empty-partition"
    if any(op["op"] in B.REDUCING and _has_mixed_empty(R) for op, R in trace):
        yield "reduction-over-empty-partition"
    if any(_multi_stage(op, R) for op, R in trace):
        yield "multi-stage-shuffle"
    if not spec["src"]["data"]:
        yield "empty-bag"


# ----------------------------------------------------------------- enumeration over layouts
BASE = {
    "int": [3, 0, 3, -1, 2],
    "str": ["ab", "", "ab", "c", "ba"],
    "pair": [[1, 2], [0, 5], [1, 2], [2, -1], [0, 0]],
    "dict": [{"k": 1, "v": 2}, {"k": 0, "v": 5}, {"k": 1, "v": -3}, {"k": 2, "v": 0}, {"k": 0, "v": 5}],
    "ilist": [[1, 2], [], [3], [1, 2], [0]],
}
_OTHER_DATA = {
    "int": [3, 4, 0, 3],
    "str": ["a", "ab", "", "cab"],
    "pair": [[1, 7], [0, 0], [3, 1], [1, 7]],
    "dict": [{"k": 1, "v": 9}, {"k": 5, "v": 1}, {"k": 0, "v": 0}, {"k": 1, "v": 1}],
    "ilist": [[3], [], [1, 2], [3]],
}
OTHER = {k: {"kind": k, "data": d, "part": {"how": "sizes", "sizes": [1, 0, 3]}} for k, d in _OTHER_DATA.items()}


def _layouts(n, maxparts):
    import itertools

    for p in range(1, maxparts + 1):
        for cuts in itertools.combinations_with_replacement(range(n + 1), p - 1):
            b = [0, *cuts, n]
            yield [b[i + 1] - b[i] for i in range(p)]


def enum_layouts(tier):
    n, maxparts = (4, 3) if tier == "quick" else (5, 4)
    aux = {"other": OTHER}
    for kind in KINDS:
        data = BASE[kind][:n]
        for sizes in _layouts(n, maxparts):
            src = {"kind": kind, "data": data, "part": {"how": "sizes", "sizes": sizes}}
            fam = catalogue(source_ref(src), aux, rich=False)
            for name in fam:
                for op in fam[name]:
                    yield {"src": src, "ops": [op]}


def enum_repartition_grid(tier):
    """repartition(npartitions=new) of a bag of `old` one- or two-element partitions for EVERY pair new <= old <= 32
    (thorough 64): the new boundaries are int(i * old / new) in floating point, whose last value may fall short of `old`."""
    top = 32 if tier == "quick" else 64
    for old in range(1, top + 1):
        sizes = [1 + (i % 2) for i in range(old)]
        data = list(range(sum(sizes)))
        for new in range(1, old + 1):
            yield {"src": {"kind": "int", "data": data, "part": {"how": "sizes", "sizes": sizes}}, "ops": [{"op": "repartition", "npartitions": new}]}


def _reps(ops, second):
    """representatives of one family: first and last variant, plus (as second operation) every variant that reads its
    input bag twice"""
    out = [ops[0]]
    if ops[-1] is not ops[0]:
        out.append(ops[-1])
    if second:
        out += [o for o in ops[1:-1] if _reads_twice(o)]
    return out


def enum_pairs(tier):
    """two-operation pipelines: representatives of every bag-valued family followed by representatives of every family"""
    aux = {"other": OTHER}
    layouts = [[4], [2, 0, 2]] if tier == "quick" else [[4], [2, 0, 2], [0, 4], [1, 1, 2], [3, 1, 0]]
    for kind in KINDS:
        for sizes in layouts:
            src = {"kind": kind, "data": BASE[kind][:4], "part": {"how": "sizes", "sizes": sizes}}
            R0 = source_ref(src)
            fam1 = catalogue(R0, aux)
            for name1 in fam1:
                for op1 in _reps(fam1[name1], False):
                    if LAST_ONLY(op1):
                        continue
                    R1 = ref_step(R0, op1)
                    if isinstance(R1, Final):
                        continue
                    fam2 = catalogue(R1, aux)
                    for name2 in fam2:
                        for op2 in _reps(fam2[name2], True):
                            yield {"src": src, "ops": [op1, op2]}


# ----------------------------------------------------------------- random pipelines
_ELEMS = {
    "int": st.integers(-3, 9),
    "str": st.sampled_from(["", "a", "b", "ab", "ba", "abc", "c"]),
    "pair": st.tuples(st.integers(0, 3), st.integers(-3, 9)).map(list),
    "dict": st.fixed_dictionaries({"k": st.integers(0, 2), "v": st.integers(-3, 9)}),
    "ilist": st.lists(st.integers(-2, 5), max_size=3),
}


@st.composite
def _layout(draw, n):
    how = draw(st.sampled_from(["sizes", "sizes", "sizes", "partition_size", "npartitions"]))
    if how == "sizes":
        p = draw(st.integers(1, 6))
        cuts = draw(st.lists(st.integers(0, n), min_size=p - 1, max_size=p - 1))
        if len(cuts) >= 2 and draw(st.booleans()):
            cuts[0] = cuts[1]  # force an empty partition
        b = [0, *sorted(cuts), n]
        return {"how": "sizes", "sizes": [b[i + 1] - b[i] for i in range(p)]}
    if how == "partition_size":
        return {"how": "partition_size", "n": draw(st.integers(1, 5))}
    return {"how": "npartitions", "n": draw(st.integers(1, 6))}


def _aux_from_seed(seed):
    """second bags (join/product/concat operands) derived from a drawn seed: far fewer Hypothesis draws per case;
    the data is embedded in the op specs, so a spec stays self-contained"""
    import numpy as np

    rng = np.random.default_rng(seed)
    words = ["", "a", "b", "ab", "ba", "abc", "c"]

    def elem(k):
        if k == "int":
            return int(rng.integers(-3, 10))
        if k == "str":
            return words[int(rng.integers(0, len(words)))]
        if k == "pair":
            return [int(rng.integers(0, 4)), int(rng.integers(-3, 10))]
        if k == "dict":
            return {"k": int(rng.integers(0, 3)), "v": int(rng.integers(-3, 10))}
        return [int(x) for x in rng.integers(-2, 6, size=int(rng.integers(0, 4)))]

    other = {}
    for k in KINDS:
        n = int(rng.integers(0, 6))
        data = [elem(k) for _ in range(n)]
        p = int(rng.integers(1, 4))
        cuts = sorted(int(c) for c in rng.integers(0, n + 1, size=p - 1))
        b = [0, *cuts, n]
        other[k] = {"kind": k, "data": data, "part": {"how": "sizes", "sizes": [b[i + 1] - b[i] for i in range(p)]}}
    return {"other": other}


def _continues(op):
    n = op["op"]
    if LAST_ONLY(op) or n in ("fold", "count", "sum", "max", "min", "mean", "var", "std", "any", "all"):
        return False
    if n == "reduction":
        return op["per"] == "list_it"
    if n == "take":
        return not op.get("compute", True)
    return True


_HEAVY = ("fold", "reduction", "foldby", "distinct", "frequencies", "topk", "stats", "groupby")


@st.composite
def random_pipeline(draw):
    kind = draw(st.sampled_from(KINDS))
    # an element-less source bag is a pathological stratum of its own (~5 % of the cases; filters still empty bags later)
    n = draw(st.sampled_from([0] + [1, 2, 3, 4, 5, 6, 7, 8, 10, 12] * 2))
    data = draw(st.lists(_ELEMS[kind], min_size=n, max_size=n))
    src = {"kind": kind, "data": data, "part": draw(_layout(len(data)))}
    aux = _aux_from_seed(draw(st.integers(0, 10**6)))
    R = source_ref(src)
    nops = draw(st.sampled_from([1, 2, 2, 3, 3]))
    ops = []
    for i in range(nops):
        fam = catalogue(R, aux, rich=True)
        if i < nops - 1:
            # not the last position: only operations that yield a bag the pipeline can continue with
            fam = {k: [o for o in v if _continues(o)] for k, v in fam.items()}
            fam = {k: v for k, v in fam.items() if v}
        names = sorted(fam)
        if i == nops - 1:
            # the statement's reducing operations and the shuffles are where partitioning matters: extra weight at the end
            names = names + [x for x in names if x in _HEAVY] * 2 + [x for x in names if x == "groupby"] * 3
        name = draw(st.sampled_from(names))
        op = draw(st.sampled_from(fam[name]))
        ops.append(op)
        if LAST_ONLY(op):
            break
        nxt = ref_step(R, op)
        if isinstance(nxt, Final):
            break
        R = nxt
    return {"src": src, "ops": ops}


SUBCHECKS = [
    Sub(
        "layouts",
        check,
        kind="enum",
        cases=enum_layouts,
        nontrivial=nontrivial,
        classes=classes,
        exhaustive=True,
        doc="every layout (empty partitions included) of a fixed 4-element (thorough 5) sequence per element kind into <=3 (thorough 4) partitions x every catalogue operation",
    ),
    Sub(
        "repartition-grid",
        check,
        kind="enum",
        cases=enum_repartition_grid,
        nontrivial=lambda spec: len(spec["src"]["part"]["sizes"]) >= 3,
        classes=lambda spec: ["repartition-npartitions"],
        exhaustive=True,
        doc="repartition(npartitions=new) for every pair new <= old <= 32 (thorough 64) partitions: same elements in the same order",
    ),
    Sub(
        "pairs",
        check,
        kind="enum",
        cases=enum_pairs,
        nontrivial=nontrivial,
        classes=classes,
        exhaustive=True,
        doc="two-operation pipelines: first/last variant of every bag-valued family x first/last (+ bag-read-twice) variant of every family, per kind, on layouts [4] and [2,0,2] (thorough: 5 layouts)",
    ),
    Sub(
        "random",
        check,
        strategy=lambda tier: random_pipeline(),
        n={"quick": 2000, "thorough": 60000},
        nontrivial=nontrivial,
        classes=classes,
        doc="random typed pipelines of 1-3 operations over random sequences and partitionings",
    ),
]
